(** The instrumented twin never panics and computes exactly what the suffix-based model
    computes: the bounds checks in decode.go are sufficient for every index/slice it performs. *)
From Coq Require Import ZArith List Bool Lia ZifyBool.
From GoSecs Require Import Base.BytesBE Secs2.Item Secs2.Encode Secs2.Decode Secs2.EncodeProofs
  Secs2.DecodeChk.
Import ListNotations.
Open Scope Z_scope.
Ltac Zify.zify_post_hook ::= Z.div_mod_to_equations.

Lemma skipn_skipn' {A} (a b : nat) (l : list A) : skipn a (skipn b l) = skipn (b + a) l.
Proof.
  revert l; induction b as [|b IH]; intros l; [reflexivity|].
  destruct l as [|x t]; [destruct a; reflexivity|]. cbn [skipn Nat.add]. apply IH.
Qed.

Section Owned.
  Variable owned : list Z.
  Hypothesis Hbytes : bytes_ok owned.
  Local Notation L := (zlen owned).
  Definition sfx (p : Z) : list Z := skipn (Z.to_nat p) owned.

  Lemma sfx_len p : 0 <= p <= L -> zlen (sfx p) = L - p.
  Proof. intros H. unfold sfx, zlen in *. rewrite skipn_length. lia. Qed.

  Lemma sfx_skip p n : 0 <= p -> 0 <= n -> skipn (Z.to_nat n) (sfx p) = sfx (p + n).
  Proof.
    intros Hp Hn. unfold sfx. rewrite skipn_skipn'. f_equal. lia.
  Qed.

  Lemma sfx_split p n : 0 <= p -> 0 <= n -> p + n <= L ->
    sfx p = firstn (Z.to_nat n) (sfx p) ++ sfx (p + n) /\
    length (firstn (Z.to_nat n) (sfx p)) = Z.to_nat n.
  Proof.
    intros Hp Hn Hl. split.
    - rewrite <- (sfx_skip p n Hp Hn). symmetry. apply firstn_skipn.
    - rewrite firstn_length. pose proof (sfx_len p ltac:(lia)). unfold zlen in *. lia.
  Qed.

  Lemma sub_ok p n : 0 <= p -> 0 <= n -> p + n <= L ->
    sub owned p n = Some (firstn (Z.to_nat n) (sfx p)).
  Proof.
    intros Hp Hn Hl. unfold sub.
    destruct ((0 <=? p) && (0 <=? n) && (p + n <=? L)) eqn:C; [reflexivity|lia].
  Qed.

  Lemma split_sfx p n : 0 <= p -> 0 <= n -> p + n <= L ->
    split_at n (sfx p) = Some (firstn (Z.to_nat n) (sfx p), sfx (p + n)).
  Proof.
    intros Hp Hn Hl. destruct (sfx_split p n Hp Hn Hl) as [E1 E2].
    rewrite E1 at 1. replace n with (Z.of_nat (length (firstn (Z.to_nat n) (sfx p)))) at 1 by lia.
    apply split_at_app.
  Qed.

  Lemma split_sfx_none p n : 0 <= p <= L -> p + n > L -> split_at n (sfx p) = None.
  Proof.
    intros Hp Hn. apply split_at_short. pose proof (sfx_len p Hp). unfold zlen in *. lia.
  Qed.

  Lemma get_ok p : 0 <= p < L -> exists b, get owned p = Some b /\ sfx p = b :: sfx (p + 1).
  Proof.
    intros Hp. destruct (sfx_split p 1 ltac:(lia) ltac:(lia) ltac:(lia)) as [E1 E2].
    unfold get. rewrite sub_ok by lia.
    destruct (firstn (Z.to_nat 1) (sfx p)) as [|b [|c t]] eqn:F; cbn in E2; try lia.
    exists b. split; [reflexivity|]. rewrite E1 at 1. reflexivity.
  Qed.

  Lemma chk_len_ok pos nl : 0 <= pos -> 1 <= nl <= 3 -> pos + nl <= L ->
    chk_len owned pos nl = Some (be_dec (firstn (Z.to_nat nl) (sfx pos))).
  Proof.
    intros Hp Hnl Hl. unfold chk_len.
    destruct (get_ok pos ltac:(lia)) as [a [Ga Sa]].
    destruct (nl =? 1) eqn:C1.
    { assert (nl = 1) by lia. subst nl. rewrite Ga, Sa. change (Z.to_nat 1) with 1%nat. cbn [firstn]. rewrite be_dec_1. reflexivity. }
    destruct (get_ok (pos + 1) ltac:(lia)) as [b [Gb Sb]].
    destruct (nl =? 2) eqn:C2.
    { assert (nl = 2) by lia. subst nl. rewrite Ga, Gb, Sa, Sb.
      change (Z.to_nat 2) with 2%nat. cbn [firstn]. rewrite be_dec_2. reflexivity. }
    assert (nl = 3) by lia. subst nl.
    destruct (get_ok (pos + 2) ltac:(lia)) as [c [Gc Sc]].
    replace (pos + 1 + 1) with (pos + 2) in Sb by lia.
    rewrite Ga, Gb, Gc, Sa, Sb, Sc. change (Z.to_nat 3) with 3%nat. cbn [firstn]. rewrite be_dec_3. reflexivity.
  Qed.

  Lemma firstn_firstn_le {A} (a b : nat) (l : list A) : (a <= b)%nat -> firstn a (firstn b l) = firstn a l.
  Proof. intros H. rewrite firstn_firstn. f_equal. lia. Qed.

  Lemma skipn_firstn {A} (a b : nat) (l : list A) : skipn a (firstn (a + b) l) = firstn b (skipn a l).
  Proof.
    revert l; induction a as [|a IH]; intros l; [reflexivity|].
    destruct l as [|x t]; [cbn; rewrite firstn_nil; reflexivity|]. cbn [Nat.add firstn skipn]. apply IH.
  Qed.

  (** the element loop reads exactly the elements [elems] computes on the payload *)
  Lemma chk_elems_ok (w : nat) count : (1 <= w)%nat -> forall start fuel,
    0 <= start -> start + Z.of_nat (count * w) <= L -> (count <= fuel)%nat ->
    chk_elems owned start (Z.of_nat w) count =
    Some (elems fuel w (firstn (count * w) (sfx start))).
  Proof.
    intros Hw. induction count as [|c IH]; intros start fuel Hs Hl Hf.
    - cbn [chk_elems Nat.mul firstn]. destruct fuel; reflexivity.
    - destruct fuel as [|f]; [lia|]. cbn [chk_elems].
      rewrite sub_ok by lia. rewrite Nat2Z.id.
      rewrite (IH (start + Z.of_nat w) f) by lia.
      cbn [elems].
      destruct (firstn (S c * w) (sfx start)) as [|x t] eqn:F.
      { apply (f_equal (@length Z)) in F. rewrite firstn_length in F.
        pose proof (sfx_len start ltac:(lia)). unfold zlen in *. cbn [length] in F. nia. }
      rewrite <- F. f_equal. f_equal.
      + f_equal. rewrite firstn_firstn_le by nia. reflexivity.
      + f_equal. replace (S c * w)%nat with (w + c * w)%nat by lia.
        rewrite skipn_firstn. f_equal. symmetry. rewrite <- (Nat2Z.id w) at 1. apply sfx_skip; lia.
  Qed.

  Definition lift (r : res (item * list Z)) : outcome :=
    match r with
    | Ok (y, rest) => OOk y (L - zlen rest)
    | Err e => OErr e
    end.

  Lemma lift_pos pos : 0 <= pos <= L -> L - zlen (sfx pos) = pos.
  Proof. intros H. rewrite sfx_len by lia. lia. Qed.

  Lemma chk_bytes_agrees (mk : list Z -> item) sp pos len : 0 <= sp <= pos -> pos <= L -> 0 <= len ->
    chk_bytes mk owned sp pos len =
    lift (match split_at len (sfx pos) with
          | None => Err ErrEndPayload
          | Some (p, r) => Ok (mk p, r)
          end).
  Proof.
    intros Hsp Hp Hl. unfold chk_bytes.
    destruct (pos + len >? L) eqn:C.
    - rewrite split_sfx_none by lia. reflexivity.
    - rewrite !sub_ok by lia. rewrite split_sfx by lia. cbn [lift]. rewrite lift_pos by lia. reflexivity.
  Qed.

  Lemma elems_one p : forall fuel, (length p <= fuel)%nat -> elems fuel 1 p = p.
  Proof.
    induction p as [|b t IH]; intros fuel Hf; [destruct fuel; reflexivity|].
    destruct fuel as [|f]; [cbn in Hf; lia|]. cbn [elems firstn skipn]. rewrite be_dec_1, IH; [reflexivity|].
    cbn in Hf; lia.
  Qed.

  Lemma chk_num_agrees k w sp pos len : 0 <= sp <= pos -> pos <= L -> 0 <= len ->
    chk_num k w owned sp pos len = lift (decode_num k w len (sfx pos)).
  Proof.
    intros Hsp Hp Hl. unfold chk_num, decode_num.
    destruct (negb (len mod wz w =? 0)) eqn:Cm; [reflexivity|].
    destruct (pos + len >? L) eqn:C.
    - rewrite split_sfx_none by lia. reflexivity.
    - rewrite split_sfx by lia. cbn [lift]. rewrite lift_pos by lia.
      rewrite sub_ok by lia.
      assert (Hw : (1 <= wnat w)%nat) by (destruct w; cbn; lia).
      assert (Hcw : (Z.to_nat (len / wz w) * wnat w)%nat = Z.to_nat len).
      { destruct w; cbn [wz wnat] in *; lia. }
      set (count := Z.to_nat (len / wz w)) in *.
      rewrite wz_wnat.
      assert (S1 : pos + Z.of_nat (count * wnat w) <= L) by (rewrite Hcw; lia).
      assert (S2 : (count <= Z.to_nat len)%nat) by (rewrite <- Hcw; nia).
      rewrite (chk_elems_ok (wnat w) count Hw pos (Z.to_nat len) ltac:(lia) S1 S2).
      rewrite Hcw. unfold payload_elems.
      replace (length (firstn (Z.to_nat len) (sfx pos))) with (Z.to_nat len); [reflexivity|].
      rewrite firstn_length. pose proof (sfx_len pos ltac:(lia)). unfold zlen in *. lia.
  Qed.

  Lemma chk_leaf_agrees fc sp pos len : 0 <= sp <= pos -> pos <= L -> 0 <= len ->
    chk_leaf fc owned sp pos len = lift (decode_leaf fc len (sfx pos)).
  Proof.
    intros Hsp Hp Hl. unfold chk_leaf, decode_leaf.
    destruct (fc =? fc_ascii); [apply (chk_bytes_agrees IAscii); assumption|].
    destruct (fc =? fc_jis8); [apply (chk_bytes_agrees IJis8); assumption|].
    destruct (fc =? fc_binary); [apply (chk_bytes_agrees IBinary); assumption|].
    destruct (fc =? fc_boolean).
    { destruct (pos + len >? L) eqn:C.
      - rewrite split_sfx_none by lia. reflexivity.
      - rewrite split_sfx by lia. cbn [lift]. rewrite lift_pos by lia. rewrite sub_ok by lia.
        assert (S1 : pos + Z.of_nat (Z.to_nat len * 1) <= L) by lia.
        pose proof (chk_elems_ok 1 (Z.to_nat len) ltac:(lia) pos (Z.to_nat len) ltac:(lia) S1 ltac:(lia)) as CE.
        change (Z.of_nat 1) with 1 in CE. rewrite CE.
        rewrite Nat.mul_1_r, elems_one; [reflexivity|]. rewrite firstn_length. lia. }
    destruct (fc =? fc_localized).
    { destruct (len <? 2) eqn:C2; [reflexivity|].
      destruct (pos + len >? L) eqn:C.
      - rewrite split_sfx_none by lia. reflexivity.
      - rewrite split_sfx by lia. cbn [lift]. rewrite lift_pos by lia.
        destruct (get_ok pos ltac:(lia)) as [a [Ga Sa]].
        destruct (get_ok (pos + 1) ltac:(lia)) as [b [Gb Sb]].
        replace (pos + 1 + 1) with (pos + 2) in Sb by lia.
        rewrite Ga, Gb. rewrite !sub_ok by lia.
        rewrite Sa, Sb.
        replace (Z.to_nat len) with (S (S (Z.to_nat (len - 2)))) by lia.
        cbn [firstn skipn]. rewrite be_dec_2. reflexivity. }
    repeat (match goal with |- (if ?c then _ else _) = _ => destruct c end;
            [apply chk_num_agrees; assumption|]).
    reflexivity.
  Qed.

  Lemma decode_num_rest k w len bs y rest :
    decode_num k w len bs = Ok (y, rest) -> exists p, split_at len bs = Some (p, rest).
  Proof.
    unfold decode_num. destruct (negb (len mod wz w =? 0)); [discriminate|].
    destruct (split_at len bs) as [[p r]|]; [|discriminate]. intros [= _ <-]. eauto.
  Qed.

  Lemma decode_leaf_rest fc len bs y rest :
    decode_leaf fc len bs = Ok (y, rest) -> exists p, split_at len bs = Some (p, rest).
  Proof.
    unfold decode_leaf.
    repeat match goal with
           | |- (if ?c then _ else _) = _ -> _ => destruct c
           | |- match split_at ?n ?b with _ => _ end = _ -> _ =>
               destruct (split_at n b) as [[? ?]|]
           end;
      try discriminate; try (intros [= _ <-]; eauto); try apply decode_num_rest.
  Qed.

  Lemma sub_bytes_ok n p : bytes_ok (firstn n (sfx p)).
  Proof.
    unfold sfx. rewrite <- (firstn_skipn (Z.to_nat p) owned) in Hbytes.
    apply bytes_ok_app in Hbytes. destruct Hbytes as [_ H2].
    rewrite <- (firstn_skipn n (skipn (Z.to_nat p) owned)) in H2.
    apply bytes_ok_app in H2. tauto.
  Qed.

  Lemma chk_agrees_both fuel :
    (forall pos d, 0 <= pos <= L ->
       match decode_item fuel d (sfx pos) with
       | Ok (y, rest) => exists pos', pos <= pos' <= L /\ rest = sfx pos' /\
                                      chk_item fuel owned pos d = OOk y pos'
       | Err e => chk_item fuel owned pos d = OErr e
       end) /\
    (forall pos d n, 0 <= pos <= L ->
       match decode_children fuel d n (sfx pos) with
       | Ok (cs, rest) => exists pos', pos <= pos' <= L /\ rest = sfx pos' /\
                                       chk_children fuel owned pos d n = COk cs pos'
       | Err e => chk_children fuel owned pos d n = CErr e
       end).
  Proof.
    induction fuel as [|f [IHi IHc]]; [split; intros; reflexivity|]. split.
    - intros pos d Hp. cbn [decode_item chk_item].
      destruct (pos >=? L) eqn:Cend.
      { assert (pos = L) by lia. subst pos.
        assert (E : sfx L = []).
        { pose proof (sfx_len L ltac:(lia)) as E. destruct (sfx L); [reflexivity|]. rewrite zlen_cons in E.
          pose proof (zlen_nonneg l). lia. }
        rewrite E. reflexivity. }
      destruct (get_ok pos ltac:(lia)) as [fb [Gfb Sfb]]. rewrite Gfb, Sfb.
      destruct (fb mod 4 =? 0) eqn:Cnl; [reflexivity|].
      assert (Hnl : 1 <= fb mod 4 <= 3) by lia.
      destruct (pos + 1 + fb mod 4 >? L) eqn:Clen.
      { rewrite split_sfx_none by lia. reflexivity. }
      rewrite split_sfx by lia.
      rewrite chk_len_ok by lia.
      set (len := be_dec (firstn (Z.to_nat (fb mod 4)) (sfx (pos + 1)))).
      set (pos2 := pos + 1 + fb mod 4).
      destruct (fb / 4 =? fc_list) eqn:Cfc.
      + destruct (d + 1 >? max_depth); [reflexivity|].
        rewrite has_len_spec. fold (zlen (sfx pos2)). rewrite sfx_len by (unfold pos2; lia).
        destruct (len * 2 >? L - pos2) eqn:Ccnt.
        { destruct (len * 2 <=? L - pos2) eqn:C'; [lia|]. reflexivity. }
        destruct (len * 2 <=? L - pos2) eqn:C'; [|lia]. cbn [negb].
        specialize (IHc pos2 (d + 1) len ltac:(unfold pos2; lia)).
        destruct (decode_children f (d + 1) len (sfx pos2)) as [[cs r3]|e].
        * destruct IHc as [pos3 [H3 [-> HC]]]. rewrite HC.
          rewrite sub_ok by (unfold pos2 in *; lia).
          exists pos3. split; [unfold pos2 in *; lia|]. split; reflexivity.
        * rewrite IHc. reflexivity.
      + assert (Hl0 : 0 <= len) by (apply be_dec_range, sub_bytes_ok).
        rewrite (chk_leaf_agrees (fb / 4) pos pos2 len) by (unfold pos2; lia).
        destruct (decode_leaf (fb / 4) len (sfx pos2)) as [[y rest]|e] eqn:EL; [|reflexivity].
        cbn [lift]. apply decode_leaf_rest in EL. destruct EL as [p EL].
        destruct (Z_le_gt_dec (pos2 + len) L) as [Hin|Hout].
        * rewrite split_sfx in EL by (unfold pos2 in *; lia). injection EL as _ <-.
          exists (pos2 + len). split; [unfold pos2 in *; lia|]. split; [reflexivity|].
          rewrite lift_pos by (unfold pos2 in *; lia). reflexivity.
        * rewrite split_sfx_none in EL by (unfold pos2 in *; lia). discriminate.
    - intros pos d n Hp. cbn [decode_children chk_children].
      destruct (n <=? 0).
      { exists pos. split; [lia|]. split; reflexivity. }
      specialize (IHi pos d Hp).
      destruct (decode_item f d (sfx pos)) as [[c r]|e].
      + destruct IHi as [pos1 [H1 [-> HI]]]. rewrite HI.
        specialize (IHc pos1 d (n - 1) ltac:(lia)).
        destruct (decode_children f d (n - 1) (sfx pos1)) as [[cs r']|e].
        * destruct IHc as [pos2 [H2 [-> HC]]]. rewrite HC.
          exists pos2. split; [lia|]. split; reflexivity.
        * rewrite IHc. reflexivity.
      + rewrite IHi. reflexivity.
  Qed.
End Owned.

(** C02: the instrumented decoder agrees with the model on every byte string ... *)
Theorem chk_agrees bs : bytes_ok bs ->
  chk_decode bs = match decode bs with
                  | Ok (y, rest) => OOk y (zlen bs - zlen rest)
                  | Err e => OErr e
                  end.
Proof.
  intros Hb. unfold chk_decode, decode. destruct bs as [|b t] eqn:Eb; [reflexivity|].
  rewrite <- Eb in *. clear Eb b t.
  pose proof (proj1 (chk_agrees_both bs Hb (S (length bs))) 0 0) as H.
  change (sfx bs 0) with bs in H. specialize (H ltac:(pose proof (zlen_nonneg bs); lia)).
  destruct (decode_item (S (length bs)) 0 bs) as [[y rest]|e]; [|exact H].
  destruct H as [pos' [Hp [-> HC]]]. rewrite HC. f_equal. rewrite sfx_len by lia. lia.
Qed.

(** ... and therefore never indexes or slices out of range (no panic), for EVERY input. *)
Theorem chk_no_panic bs : bytes_ok bs -> chk_decode bs <> OPanic.
Proof.
  intros Hb. rewrite chk_agrees by assumption. destruct (decode bs) as [[y rest]|e]; discriminate.
Qed.
