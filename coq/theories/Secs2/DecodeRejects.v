(** What the decoder rejects: the generic statement (anything that is not an E5 encoding within
    the depth limit) and one lemma per rejection class named in the property. *)
From Coq Require Import ZArith List Bool Lia ZifyBool.
From GoSecs Require Import Base.BytesBE Secs2.Item Secs2.Encode Secs2.Decode Secs2.Grammar
  Secs2.EncodeProofs Secs2.DecodeProofs Secs2.DecodeSound.
Import ListNotations.
Open Scope Z_scope.
Ltac Zify.zify_post_hook ::= Z.div_mod_to_equations.

Definition is_err {A} (r : res A) : Prop := exists e, r = Err e /\ e <> ErrFuel.

(** Everything the (non-canonical) grammar rejects is rejected, with a genuine error. *)
Theorem reject_not_E5 bs : bytes_ok bs -> bs <> [] ->
  (forall p rest y, bs = p ++ rest -> E5 false p y -> depth y <= max_depth -> False) ->
  is_err (decode bs).
Proof.
  intros Hb Hne Hno. destruct (decode bs) as [[y rest]|e] eqn:E.
  - exfalso. destruct (decode_sound bs y rest Hb E) as [[-> _]|[p [E1 [E2 E3]]]]; [congruence|].
    eapply Hno; eauto.
  - exists e. split; [reflexivity|]. intros ->. exact (decode_total bs E).
Qed.

Lemma decode_cons fb r : decode (fb :: r) = decode_item (S (length (fb :: r))) 0 (fb :: r).
Proof. reflexivity. Qed.

(** zero length-byte count *)
Theorem reject_zero_length_bytes fb r : fb mod 4 = 0 -> decode (fb :: r) = Err ErrZeroLen.
Proof. intros H. rewrite decode_cons. cbn [decode_item]. rewrite H. reflexivity. Qed.

(** empty input is not an error (EmptyItem); a lone format byte is a truncated header *)
Theorem reject_truncated_header fb r : fb mod 4 <> 0 -> zlen r < fb mod 4 ->
  decode (fb :: r) = Err ErrEndLength.
Proof.
  intros H1 H2. rewrite decode_cons. cbn [decode_item].
  destruct (fb mod 4 =? 0) eqn:C; [lia|]. rewrite split_at_short by (unfold zlen in H2; lia). reflexivity.
Qed.

Definition known_fc (fc : Z) : bool :=
  existsb (Z.eqb fc) [fc_list; fc_binary; fc_boolean; fc_ascii; fc_jis8; fc_localized;
                      fc_int W1; fc_int W2; fc_int W4; fc_int W8;
                      fc_uint W1; fc_uint W2; fc_uint W4; fc_uint W8; fc_float W4; fc_float W8].

Lemma hdr_nonempty canon fc n h body : hdr canon fc n h -> exists fb r, h ++ body = fb :: r.
Proof. intros [k [_ ->]]. cbn [app]. eauto. Qed.

Lemma decode_hdr canon fc n h body : hdr canon fc n h -> 0 <= fc < 64 ->
  decode (h ++ body) =
  if fc =? fc_list then
    if negb (has_len (n * 2) body) then Err ErrListCount
    else match decode_children (length (h ++ body)) 1 n body with
         | Ok (cs, r3) => Ok (IList cs, r3)
         | Err e => Err e
         end
  else decode_leaf fc n body.
Proof.
  intros Hh Hfc. destruct (hdr_nonempty _ _ _ _ body Hh) as [fb [r E]].
  unfold decode. rewrite E. rewrite <- E.
  rewrite (decode_item_hdr canon _ 0 fc n h body Hh Hfc). reflexivity.
Qed.

(** unknown format code *)
Theorem reject_unknown_format_code canon fc n h body : hdr canon fc n h -> 0 <= fc < 64 ->
  known_fc fc = false -> decode (h ++ body) = Err ErrUnknownFc.
Proof.
  intros Hh Hfc Hk. rewrite (decode_hdr canon fc n h body Hh Hfc).
  unfold known_fc in Hk. cbn [existsb] in Hk.
  repeat (apply orb_false_iff in Hk; destruct Hk as [?C Hk]).
  rewrite C. unfold decode_leaf. rewrite C0, C1, C2, C3, C4, C5, C6, C7, C8, C9, C10, C11, C12, C13, C14.
  reflexivity.
Qed.

(** truncated payload (byte-string kinds and booleans) *)
Theorem reject_truncated_payload canon fc n h body : hdr canon fc n h ->
  In fc [fc_binary; fc_boolean; fc_ascii; fc_jis8] -> zlen body < n ->
  decode (h ++ body) = Err ErrEndPayload.
Proof.
  intros Hh Hin Hl.
  assert (Hs : split_at n body = None) by (apply split_at_short; unfold zlen in Hl; lia).
  cbn [In] in Hin.
  destruct Hin as [<-|[<-|[<-|[<-|[]]]]];
    rewrite (decode_hdr canon _ n h body Hh ltac:(cbv; split; congruence));
    cbv [Z.eqb fc_binary fc_boolean fc_ascii fc_jis8 fc_list];
    rewrite ?leaf_binary, ?leaf_boolean, ?leaf_ascii, ?leaf_jis8, Hs; reflexivity.
Qed.

(** numeric payload: not a multiple of the element width, or truncated *)
Theorem reject_numeric canon k w n h body : hdr canon (fc_num k w) n h ->
  (k = KFloat -> float_width w = true) ->
  (n mod wz w <> 0 -> decode (h ++ body) = Err ErrMultiple) /\
  (n mod wz w = 0 -> zlen body < n -> decode (h ++ body) = Err ErrEndPayload).
Proof.
  intros Hh Hfw.
  assert (Hfc : 0 <= fc_num k w < 64) by (destruct k, w; cbv; split; congruence).
  assert (Hnl : (fc_num k w =? fc_list) = false) by (destruct k, w; reflexivity).
  assert (HL : decode_leaf (fc_num k w) n body = decode_num k w n body).
  { destruct k; cbn [fc_num]; [apply leaf_int|apply leaf_uint|apply leaf_float; auto]. }
  rewrite (decode_hdr canon _ n h body Hh Hfc), Hnl, HL. unfold decode_num. split.
  - intros Hm. destruct (n mod wz w =? 0) eqn:C; [lia|]. reflexivity.
  - intros Hm Hl. rewrite Hm. cbn [Z.eqb negb].
    rewrite split_at_short by (unfold zlen in Hl; lia). reflexivity.
Qed.

(** localized string shorter than its two-byte header, or truncated *)
Theorem reject_localized canon n h body : hdr canon fc_localized n h ->
  (n < 2 -> decode (h ++ body) = Err ErrLocShort) /\
  (2 <= n -> zlen body < n -> decode (h ++ body) = Err ErrEndPayload).
Proof.
  intros Hh. rewrite (decode_hdr canon _ n h body Hh ltac:(cbv; split; congruence)).
  change (fc_localized =? fc_list) with false. cbv iota. rewrite leaf_localized. split.
  - intros H. destruct (n <? 2) eqn:C; [reflexivity|lia].
  - intros H1 H2. destruct (n <? 2) eqn:C; [lia|].
    rewrite split_at_short by (unfold zlen in H2; lia). reflexivity.
Qed.

(** a list claiming more children than the remaining bytes could hold *)
Theorem reject_list_count canon n h body : hdr canon fc_list n h -> zlen body < n * 2 ->
  decode (h ++ body) = Err ErrListCount.
Proof.
  intros Hh Hl. rewrite (decode_hdr canon _ n h body Hh ltac:(cbv; split; congruence)).
  change (fc_list =? fc_list) with true. cbv iota.
  rewrite has_len_spec. destruct (n * 2 <=? Z.of_nat (length body)) eqn:C; [unfold zlen in Hl; lia|].
  reflexivity.
Qed.

(** nesting deeper than the limit: the encoding of ANY item deeper than [max_depth] is rejected *)
Theorem decode_too_deep canon y : forall p, E5 canon p y -> forall fuel d rest,
  d <= max_depth -> d + depth y > max_depth -> (length p <= fuel)%nat ->
  decode_item fuel d (p ++ rest) = Err ErrDepth.
Proof.
  induction y as [cs IH|bs|vs|bs|bs|lsh bs|w vs|w vs|w vs|] using item_ind';
    intros p HE fuel d rest Hd Hdeep Hf; try (cbn [depth] in Hdeep; lia).
  - inversion HE; subst; clear HE.
    match goal with H : hdr _ _ _ _ |- _ => rename H into Hh end.
    match goal with H : Forall2 _ _ _ |- _ => rename H into HF2 end.
    destruct fuel as [|f]; [apply hdr_length in Hh; rewrite app_length in Hf; lia|].
    rewrite <- app_assoc.
    rewrite (decode_item_hdr canon f d fc_list (zlen cs) h _ Hh ltac:(cbv; split; congruence)).
    change (fc_list =? fc_list) with true. cbv iota.
    destruct (d + 1 >? max_depth) eqn:Cd; [reflexivity|].
    assert (HL : has_len (zlen cs * 2) (concat bodies ++ rest) = true).
    { rewrite has_len_spec. pose proof (bodies_len _ _ _ HF2). rewrite app_length. unfold zlen in *. lia. }
    rewrite HL. cbn [negb].
    assert (HC : forall fuel' rest', (1 + length (concat bodies) <= fuel')%nat ->
               decode_children fuel' (d + 1) (zlen cs) (concat bodies ++ rest') = Err ErrDepth).
    { assert (Hmax : (d + 1) + fold_right (fun c a => Z.max (depth c) a) 0 cs > max_depth)
        by (cbn [depth] in Hdeep; lia).
      assert (Hd1 : d + 1 <= max_depth) by lia.
      clear Hdeep Hd Cd HL Hf Hh.
      induction HF2 as [|b c bs' cs' Hb Hr IHr]; intros fuel' rest' Hf'.
      - cbn [fold_right] in Hmax. lia.
      - destruct fuel' as [|f']; [lia|]. cbn [decode_children concat].
        rewrite zlen_cons. destruct (1 + zlen cs' <=? 0) eqn:C; [pose proof (zlen_nonneg cs'); lia|].
        inversion IH as [|? ? IHc IHcs]; subst.
        cbn [concat] in Hf'. rewrite app_length in Hf'. rewrite <- app_assoc.
        destruct (Z_le_gt_dec ((d + 1) + depth c) max_depth) as [Hok|Hbad].
        + rewrite (decode_complete canon c b Hb f' (d + 1) (concat bs' ++ rest') Hok) by lia.
          replace (1 + zlen cs' - 1) with (zlen cs') by lia.
          pose proof (E5_min_len _ _ _ Hb).
          rewrite (IHr IHcs) ; [reflexivity| |lia].
          cbn [fold_right] in Hmax. lia.
        + rewrite (IHc b Hb f' (d + 1) (concat bs' ++ rest') Hd1 Hbad) by lia. reflexivity. }
    rewrite HC; [reflexivity|]. apply hdr_length in Hh. rewrite app_length in Hf. lia.
Qed.

Theorem reject_too_deep canon p y rest : E5 canon p y -> depth y > max_depth ->
  decode (p ++ rest) = Err ErrDepth.
Proof.
  intros HE Hd. unfold decode. destruct (p ++ rest) as [|b t] eqn:E.
  - apply E5_min_len in HE. apply (f_equal (@length Z)) in E. rewrite app_length in E. cbn in E. lia.
  - rewrite <- E. apply (decode_too_deep canon y p HE); [unfold max_depth; lia|lia|]. rewrite app_length. lia.
Qed.
