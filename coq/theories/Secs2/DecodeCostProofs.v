(** The allocation bound: whatever lengths the input claims, the sizes requested while decoding
    are at most [cost_factor * length + cost_offset]. The lemma that does the work is the
    child-count pre-check ([len * 2 <= remaining]) before the child slice is sized: every
    in-progress list (at most [max_depth] of them) holds at most 8 bytes per remaining input
    byte, and every completed item is paid for by the bytes it consumed. *)
From Coq Require Import ZArith List Bool Lia ZifyBool.
From GoSecs Require Import Base.BytesBE Secs2.Item Secs2.Encode Secs2.Decode Secs2.Grammar
  Secs2.EncodeProofs Secs2.DecodeProofs Secs2.DecodeSound Secs2.DecodeCost.
Import ListNotations.
Open Scope Z_scope.
Ltac Zify.zify_post_hook ::= Z.div_mod_to_equations.

Lemma cost_num_bound w len bs : 0 <= len ->
  0 <= cost_num w len bs <= 72 + 8 * len /\ (cost_num w len bs = 0 \/ len <= zlen bs).
Proof.
  intros Hl. unfold cost_num, sz_num_struct, sz_num_elem.
  destruct (negb (len mod wz w =? 0)); [lia|].
  rewrite has_len_spec. fold (zlen bs).
  destruct (len <=? zlen bs) eqn:C; cbn [negb]; [|lia].
  destruct w; cbn [wz]; destruct (_ =? 1); lia.
Qed.

Lemma cost_leaf_bound fc len bs : 0 <= len ->
  0 <= cost_leaf fc len bs <= 72 + 8 * len /\ (cost_leaf fc len bs = 0 \/ len <= zlen bs).
Proof.
  intros Hl. unfold cost_leaf, sz_str_struct, sz_bin_struct, sz_bool_struct.
  rewrite !has_len_spec. fold (zlen bs).
  repeat match goal with
         | |- context [if ?c then _ else _] =>
             lazymatch c with
             | context [cost_num] => fail
             | _ => destruct c eqn:?
             end
         end; try lia; apply cost_num_bound; exact Hl.
Qed.

Lemma decode_num_consumed k w len bs y rest : 0 <= len ->
  decode_num k w len bs = Ok (y, rest) -> zlen bs = len + zlen rest.
Proof.
  intros Hl. unfold decode_num. destruct (negb (len mod wz w =? 0)); [discriminate|].
  destruct (split_at len bs) as [[p r]|] eqn:E; [|discriminate].
  intros [= _ <-]. apply split_at_some in E; [|lia]. destruct E as [-> E].
  rewrite zlen_app. unfold zlen. lia.
Qed.

Lemma decode_leaf_consumed fc len bs y rest : 0 <= len ->
  decode_leaf fc len bs = Ok (y, rest) -> zlen bs = len + zlen rest.
Proof.
  intros Hl. unfold decode_leaf.
  repeat match goal with
         | |- (if ?c then _ else _) = _ -> _ => destruct c
         | |- match split_at ?n ?b with _ => _ end = _ -> _ =>
             let E := fresh "E" in destruct (split_at n b) as [[? ?]|] eqn:E;
             [apply split_at_some in E; [destruct E as [-> E]|lia]|]
         end;
    try discriminate;
    try (intros [= _ <-]; rewrite zlen_app; unfold zlen; lia);
    try (apply decode_num_consumed; exact Hl).
Qed.

Definition budget (d R : Z) : Z := cost_per_byte * R + (max_depth - d) * (8 * R + 64).

Lemma budget_mono d R R' : d <= max_depth -> 0 <= R <= R' -> budget d R <= budget d R'.
Proof. unfold budget, cost_per_byte. intros. nia. Qed.

Lemma budget_nonneg d R : d <= max_depth -> 0 <= R -> 0 <= budget d R.
Proof. unfold budget, cost_per_byte. intros. nia. Qed.

Lemma budget_step d R2 len : d + 1 <= max_depth -> 0 <= len -> len * 2 <= R2 ->
  sz_list_struct + sz_child_slot * len + budget (d + 1) R2 <= budget d R2.
Proof. unfold budget, cost_per_byte, sz_list_struct, sz_child_slot. intros. nia. Qed.

Lemma bytes_ok_suffix p s : bytes_ok (p ++ s) -> bytes_ok s.
Proof. intros H. apply bytes_ok_app in H. tauto. Qed.

Lemma cost_invariant fuel :
  (forall d bs, d <= max_depth -> bytes_ok bs ->
     0 <= cost_item fuel d bs <= budget d (zlen bs) /\
     (forall y rest, decode_item fuel d bs = Ok (y, rest) ->
        cost_item fuel d bs + 16 <= cost_per_byte * (zlen bs - zlen rest))) /\
  (forall d n bs, d <= max_depth -> bytes_ok bs ->
     0 <= cost_children fuel d n bs <= budget d (zlen bs) /\
     (forall cs rest, decode_children fuel d n bs = Ok (cs, rest) ->
        cost_children fuel d n bs + 16 * Z.max n 0 <= cost_per_byte * (zlen bs - zlen rest))).
Proof.
  induction fuel as [|f [IHi IHc]].
  { split; intros; cbn [cost_item cost_children]; (split; [|intros; discriminate]);
      split; try lia; apply budget_nonneg; auto; apply zlen_nonneg. }
  split.
  - intros d bs Hd Hb. cbn [cost_item decode_item].
    pose proof (zlen_nonneg bs) as HR.
    pose proof (budget_nonneg d (zlen bs) Hd HR) as HB.
    destruct bs as [|fb r1]; [split; [lia|intros; discriminate]|].
    destruct (fb mod 4 =? 0) eqn:Cnl; [split; [lia|intros; discriminate]|].
    destruct (split_at (fb mod 4) r1) as [[lb r2]|] eqn:E; [|split; [lia|intros; discriminate]].
    inversion Hb as [|? ? Hfb Hr1]; subst.
    destruct (bytes_ok_split _ _ _ _ E Hr1) as [-> [Hlb [Hr2 Hz]]].
    pose proof (be_dec_range _ Hlb) as [Hlen _].
    pose proof (zlen_nonneg r2) as HR2.
    assert (HRR : zlen (fb :: lb ++ r2) = 1 + zlen lb + zlen r2) by (rewrite zlen_cons, zlen_app; lia).
    rewrite HRR in *.
    destruct (fb / 4 =? fc_list) eqn:Cfc.
    + destruct (d + 1 >? max_depth) eqn:Cd; [split; [lia|intros; discriminate]|].
      rewrite has_len_spec. fold (zlen r2).
      destruct (be_dec lb * 2 <=? zlen r2) eqn:Ch; cbn [negb]; [|split; [lia|intros; discriminate]].
      assert (Hd1 : d + 1 <= max_depth) by lia.
      destruct (IHc (d + 1) (be_dec lb) r2 Hd1 Hr2) as [[C0 C1] C2].
      split.
      * split; [unfold sz_list_struct, sz_child_slot; lia|].
        pose proof (budget_step d (zlen r2) (be_dec lb) Hd1 Hlen ltac:(lia)).
        pose proof (budget_mono d (zlen r2) (1 + zlen lb + zlen r2) Hd ltac:(lia)). lia.
      * intros y rest.
        destruct (decode_children f (d + 1) (be_dec lb) r2) as [[cs r3]|] eqn:EC; [|discriminate].
        intros [= _ <-]. specialize (C2 cs r3 eq_refl).
        unfold sz_list_struct, sz_child_slot, cost_per_byte in *. lia.
    + destruct (cost_leaf_bound (fb / 4) (be_dec lb) r2 Hlen) as [[L0 L1] L2].
      split.
      * split; [lia|]. unfold budget, cost_per_byte. nia.
      * intros y rest HL. apply decode_leaf_consumed in HL; [|exact Hlen].
        unfold cost_per_byte. lia.
  - intros d n bs Hd Hb. cbn [cost_children decode_children].
    pose proof (zlen_nonneg bs) as HR.
    pose proof (budget_nonneg d (zlen bs) Hd HR) as HB.
    destruct (n <=? 0) eqn:Cn.
    { split; [lia|]. intros cs rest [= _ <-]. unfold cost_per_byte. lia. }
    destruct (IHi d bs Hd Hb) as [[I0 I1] I2].
    destruct (decode_item f d bs) as [[c r]|e] eqn:EI.
    + specialize (I2 c r eq_refl).
      destruct (proj1 (decode_sound_both f) d bs c r Hb Hd EI) as [p [Ebs _]].
      assert (Hr : bytes_ok r) by (rewrite Ebs in Hb; apply bytes_ok_suffix in Hb; exact Hb).
      assert (Hrr : zlen r <= zlen bs) by (rewrite Ebs, zlen_app; pose proof (zlen_nonneg p); lia).
      destruct (IHc d (n - 1) r Hd Hr) as [[C0 C1] C2].
      pose proof (zlen_nonneg r) as HRr.
      split.
      * split; [lia|]. unfold budget, cost_per_byte in *. nia.
      * intros cs rest.
        destruct (decode_children f d (n - 1) r) as [[cs' r']|] eqn:EC; [|discriminate].
        intros [= _ <-]. specialize (C2 cs' r' eq_refl). unfold cost_per_byte in *. lia.
    + split; [lia|intros; discriminate].
Qed.

(** C02 (memory): the allocation accounting of Decode is bounded by a constant multiple of the
    input length plus a constant, for every byte string, whatever lengths it claims. *)
Theorem decode_cost_bound bs : bytes_ok bs ->
  0 <= decode_cost bs <= cost_factor * zlen bs + cost_offset.
Proof.
  intros Hb. unfold decode_cost. destruct bs as [|b t] eqn:Eb.
  - unfold cost_factor, cost_offset, cost_per_byte, sz_slab_header, slab_tail, max_depth, zlen. cbn. lia.
  - rewrite <- Eb in *. clear Eb b t.
    assert (H0 : 0 <= max_depth) by (unfold max_depth; lia).
    destruct (proj1 (cost_invariant (S (length bs))) 0 bs H0 Hb) as [[C0 C1] _].
    pose proof (zlen_nonneg bs).
    unfold budget, cost_factor, cost_offset, cost_per_byte, sz_slab_header, slab_tail, max_depth in *. lia.
Qed.

(** Accepted input: the items alone cost at most [cost_per_byte] per consumed byte. *)
Theorem decode_cost_accepted bs y rest : bytes_ok bs -> bs <> [] -> decode bs = Ok (y, rest) ->
  decode_cost bs <= (1 + cost_per_byte) * zlen bs + sz_slab_header + slab_tail.
Proof.
  intros Hb Hne. unfold decode, decode_cost. destruct bs as [|b t] eqn:Eb; [congruence|].
  rewrite <- Eb in *. clear Eb b t. intros HD.
  assert (H0 : 0 <= max_depth) by (unfold max_depth; lia).
  destruct (proj1 (cost_invariant (S (length bs))) 0 bs H0 Hb) as [_ C2].
  specialize (C2 y rest HD). pose proof (zlen_nonneg rest). unfold cost_per_byte in *. lia.
Qed.
