(** Model of decode_slab.go [itemSlab.next]: structs are carved from chunks whose sizes follow
    a schedule (the last entry repeats). Proved: [next] never indexes outside the schedule or the
    current chunk, and the structs allocated exceed the structs handed out by less than the
    largest chunk — the constant [slab_tail] of the allocation accounting. *)
From Coq Require Import ZArith List Bool Lia ZifyBool.
Import ListNotations.
Open Scope Z_scope.

Record slab := { chunk_len : Z; pos : Z; chunk_idx : Z; allocated : Z; handed_out : Z }.

Definition slab0 : slab := {| chunk_len := 0; pos := 0; chunk_idx := 0; allocated := 0; handed_out := 0 |}.

(** [None] = index out of range (schedule or chunk). *)
Definition next (sizes : list Z) (s : slab) : option slab :=
  let s1 :=
    if pos s >=? chunk_len s then
      match nth_error sizes (Z.to_nat (chunk_idx s)) with
      | None => None
      | Some c =>
          Some {| chunk_len := c; pos := 0;
                  chunk_idx := if chunk_idx s <? Z.of_nat (length sizes) - 1 then chunk_idx s + 1 else chunk_idx s;
                  allocated := allocated s + c; handed_out := handed_out s |}
      end
    else Some s in
  match s1 with
  | None => None
  | Some t =>
      if (0 <=? pos t) && (pos t <? chunk_len t)   (* &s.chunk[s.pos] *)
      then Some {| chunk_len := chunk_len t; pos := pos t + 1; chunk_idx := chunk_idx t;
                   allocated := allocated t; handed_out := handed_out t + 1 |}
      else None
  end.

Fixpoint iter_next (sizes : list Z) (m : nat) (s : slab) : option slab :=
  match m with
  | O => Some s
  | S k => match next sizes s with None => None | Some t => iter_next sizes k t end
  end.

Definition max_chunk (sizes : list Z) : Z := fold_right Z.max 0 sizes.

Definition slab_inv (sizes : list Z) (s : slab) : Prop :=
  0 <= chunk_idx s < Z.of_nat (length sizes) /\ 0 <= pos s <= chunk_len s /\
  chunk_len s <= max_chunk sizes /\ allocated s - handed_out s = chunk_len s - pos s.

Lemma nth_le_max sizes i c : nth_error sizes i = Some c -> c <= max_chunk sizes.
Proof.
  revert i; induction sizes as [|a r IH]; intros [|i] H; cbn in *; try discriminate.
  - injection H as ->. lia.
  - apply IH in H. unfold max_chunk in H. lia.
Qed.

Lemma next_ok sizes s : sizes <> [] -> Forall (fun c => 1 <= c) sizes -> slab_inv sizes s ->
  exists t, next sizes s = Some t /\ slab_inv sizes t /\ handed_out t = handed_out s + 1 /\ 1 <= pos t.
Proof.
  intros Hne Hpos [Hi [Hp [Hm Ha]]]. unfold next.
  destruct (pos s >=? chunk_len s) eqn:C.
  - destruct (nth_error sizes (Z.to_nat (chunk_idx s))) as [c|] eqn:E.
    + assert (Hc : 1 <= c) by (rewrite Forall_forall in Hpos; apply Hpos; eapply nth_error_In; eauto).
      pose proof (nth_le_max _ _ _ E) as Hcm.
      cbn [pos chunk_len]. destruct ((0 <=? 0) && (0 <? c)) eqn:C2; [|lia].
      eexists. split; [reflexivity|]. unfold slab_inv. cbn.
      destruct (chunk_idx s <? Z.of_nat (length sizes) - 1) eqn:C3; repeat split; lia.
    + apply nth_error_None in E. lia.
  - destruct ((0 <=? pos s) && (pos s <? chunk_len s)) eqn:C2; [|lia].
    eexists. split; [reflexivity|]. unfold slab_inv. cbn. repeat split; lia.
Qed.

(** Any number of requests: never out of range, and the over-allocation stays below the largest
    chunk of the schedule. *)
Theorem slab_tail_bound sizes : sizes <> [] -> Forall (fun c => 1 <= c) sizes ->
  forall m, exists t, iter_next sizes m slab0 = Some t /\ handed_out t = Z.of_nat m /\
                      allocated t - handed_out t <= max_chunk sizes - (if (m =? 0)%nat then 0 else 1).
Proof.
  intros Hne Hpos.
  assert (G : forall m s, slab_inv sizes s ->
            exists t, iter_next sizes m s = Some t /\ slab_inv sizes t /\
                      handed_out t = handed_out s + Z.of_nat m /\ (m <> 0%nat -> 1 <= pos t)).
  { induction m as [|m IH]; intros s Hs.
    - exists s. split; [reflexivity|]. split; [exact Hs|]. split; [lia|congruence].
    - destruct (next_ok sizes s Hne Hpos Hs) as [t [E [Ht [Hh Hp]]]].
      cbn [iter_next]. rewrite E.
      destruct (IH t Ht) as [u [Eu [Hu [Hhu Hpu]]]].
      exists u. split; [exact Eu|]. split; [exact Hu|]. split; [lia|].
      intros _. destruct m; [cbn in Eu; injection Eu as <-; exact Hp|apply Hpu; lia]. }
  assert (H0 : slab_inv sizes slab0).
  { unfold slab_inv, slab0, max_chunk. cbn. destruct sizes as [|a r]; [congruence|].
    inversion Hpos; subst. cbn [length fold_right]. repeat split; lia. }
  intros m. destruct (G m slab0 H0) as [t [E [[Hi [Hp [Hm Ha]]] [Hh Hpp]]]].
  exists t. split; [exact E|]. split; [cbn in Hh; lia|].
  destruct (m =? 0)%nat eqn:Cm.
  - lia.
  - assert (1 <= pos t) by (apply Hpp; intros ->; discriminate). lia.
Qed.
