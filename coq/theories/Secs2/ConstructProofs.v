(** Proofs about the constructor model (Secs2/Construct.v): clamping, order and shape, refusals,
    the clean flag, Equal on errored items and the message gate. *)
From Coq Require Import ZArith Bool List Lia ZifyBool.
From GoSecs Require Import Base.GoInt Secs2.ConstructParse Secs2.Construct.
Import ListNotations.
Open Scope Z_scope.

(** * clamp *)

Lemma clamp_bounds lo hi v : lo <= hi -> lo <= clamp lo hi v <= hi.
Proof. unfold clamp; intros; destruct (v <? lo) eqn:A; [lia|]; destruct (v >? hi) eqn:B; lia. Qed.

Lemma clamp_id lo hi v : lo <= v <= hi -> clamp lo hi v = v.
Proof. unfold clamp; intros; destruct (v <? lo) eqn:A; [lia|]; destruct (v >? hi) eqn:B; lia. Qed.

Lemma clamp_below lo hi v : v < lo -> clamp lo hi v = lo.
Proof. unfold clamp; intros; destruct (v <? lo) eqn:A; lia. Qed.

Lemma clamp_above lo hi v : lo <= hi -> hi < v -> clamp lo hi v = hi.
Proof. unfold clamp; intros; destruct (v <? lo) eqn:A; [lia|]; destruct (v >? hi) eqn:B; lia. Qed.

(** the produced value is a NEAREST point of [lo, hi] to the input *)
Lemma clamp_nearest lo hi v x : lo <= hi -> lo <= x <= hi -> Z.abs (clamp lo hi v - v) <= Z.abs (x - v).
Proof. unfold clamp; intros; destruct (v <? lo) eqn:A; [lia|]; destruct (v >? hi) eqn:B; lia. Qed.

(** it is never the wrapped value, unless wrapping happens to hit the same number *)
Lemma clamp_not_wrap lo hi v : lo <= hi -> ~ (lo <= v <= hi) ->
  clamp lo hi v = lo \/ clamp lo hi v = hi.
Proof. unfold clamp; intros; destruct (v <? lo) eqn:A; [lia|]; destruct (v >? hi) eqn:B; lia. Qed.

Lemma clampU_clamp hi v : 0 <= v -> clampU hi v = clamp 0 hi v.
Proof. unfold clampU, clamp; intros; destruct (v <? 0) eqn:A; [lia|reflexivity]. Qed.

(** * width bounds *)

Definition valid_w (w : Z) : Prop := w = 1 \/ w = 2 \/ w = 4 \/ w = 8.

Lemma valid_int_size_iff w : valid_int_size w = true <-> valid_w w.
Proof. unfold valid_int_size, valid_w; lia. Qed.

Lemma int_bounds w : valid_w w ->
  -9223372036854775808 <= int_lo w /\ int_lo w < 0 /\ 0 < int_hi w /\ int_hi w <= 9223372036854775807.
Proof. intros [->|[->|[->| ->]]]; vm_compute; repeat split; congruence. Qed.

Lemma uint_bounds w : valid_w w -> 0 < uint_hi w /\ uint_hi w <= 18446744073709551615.
Proof. intros [->|[->|[->| ->]]]; vm_compute; repeat split; congruence. Qed.

Lemma conv_int_clamp lo hi t v : lo <= 0 -> in_gty t v -> conv_int lo hi t v = clamp lo hi v.
Proof.
  intros Hlo Hin. destruct t; try reflexivity; unfold conv_int, clamp;
    unfold in_gty in Hin; cbn in Hin; destruct (v <? lo) eqn:A; try lia; reflexivity.
Qed.
