(** Proofs about the constructor model (Secs2/Construct.v): clamping, order and shape, refusals,
    the clean flag, Equal on errored items and the message gate. *)
From Coq Require Import ZArith Bool List Lia ZifyBool.
From GoSecs Require Import Base.GoInt Secs2.ConstructParse Secs2.Construct.
Import ListNotations.
Open Scope Z_scope.

(** * clamp *)

Lemma clamp_bounds lo hi v : lo <= hi -> lo <= clamp lo hi v <= hi.
Proof. unfold clamp; intros; destruct (v <? lo) eqn:A; [lia|]; destruct (v >? hi) eqn:B; lia. Qed.

Lemma clamp_id lo hi v : lo <= v <= hi -> clamp lo hi v = v.
Proof. unfold clamp; intros; destruct (v <? lo) eqn:A; [lia|]; destruct (v >? hi) eqn:B; lia. Qed.

Lemma clamp_below lo hi v : v < lo -> clamp lo hi v = lo.
Proof. unfold clamp; intros; destruct (v <? lo) eqn:A; lia. Qed.

Lemma clamp_above lo hi v : lo <= hi -> hi < v -> clamp lo hi v = hi.
Proof. unfold clamp; intros; destruct (v <? lo) eqn:A; [lia|]; destruct (v >? hi) eqn:B; lia. Qed.

(** the produced value is a NEAREST point of [lo, hi] to the input *)
Lemma clamp_nearest lo hi v x : lo <= hi -> lo <= x <= hi -> Z.abs (clamp lo hi v - v) <= Z.abs (x - v).
Proof. unfold clamp; intros; destruct (v <? lo) eqn:A; [lia|]; destruct (v >? hi) eqn:B; lia. Qed.

(** it is never the wrapped value, unless wrapping happens to hit the same number *)
Lemma clamp_not_wrap lo hi v : lo <= hi -> ~ (lo <= v <= hi) ->
  clamp lo hi v = lo \/ clamp lo hi v = hi.
Proof. unfold clamp; intros; destruct (v <? lo) eqn:A; [lia|]; destruct (v >? hi) eqn:B; lia. Qed.

Lemma clampU_clamp hi v : 0 <= v -> clampU hi v = clamp 0 hi v.
Proof. unfold clampU, clamp; intros; destruct (v <? 0) eqn:A; [lia|reflexivity]. Qed.

(** * width bounds *)

Definition valid_w (w : Z) : Prop := w = 1 \/ w = 2 \/ w = 4 \/ w = 8.

Lemma valid_int_size_iff w : valid_int_size w = true <-> valid_w w.
Proof. unfold valid_int_size, valid_w; lia. Qed.

Lemma int_bounds w : valid_w w ->
  -9223372036854775808 <= int_lo w /\ int_lo w < 0 /\ 0 < int_hi w /\ int_hi w <= 9223372036854775807.
Proof. intros [->|[->|[->| ->]]]; vm_compute; repeat split; congruence. Qed.

Lemma uint_bounds w : valid_w w -> 0 < uint_hi w /\ uint_hi w <= 18446744073709551615.
Proof. intros [->|[->|[->| ->]]]; vm_compute; repeat split; congruence. Qed.

Lemma conv_int_clamp lo hi t v : lo <= 0 -> in_gty t v -> conv_int lo hi t v = clamp lo hi v.
Proof.
  intros Hlo Hin. destruct t; try reflexivity; unfold conv_int, clamp;
    unfold in_gty in Hin; cbn in Hin; destruct (v <? lo) eqn:A; try lia; reflexivity.
Qed.

Lemma clamp_clamp lo hi lo' hi' z : lo' <= lo -> lo <= hi -> hi <= hi' ->
  clamp lo hi (clamp lo' hi' z) = clamp lo hi z.
Proof.
  unfold clamp; intros.
  destruct (z <? lo') eqn:A; destruct (z >? hi') eqn:B; destruct (z <? lo) eqn:C; destruct (z >? hi) eqn:D;
    repeat match goal with |- context [if ?c then _ else _] => destruct c eqn:? end; lia.
Qed.

(** * canonical decimal strings and the strconv model *)

Definition is_dig (c : Z) : Prop := 48 <= c <= 57.
Definition dec_fold (n : Z) (ds : list Z) : Z := fold_left (fun a c => a * 10 + (c - 48)) ds n.
Definition dec_value (ds : list Z) : Z := dec_fold 0 ds.

(** digits without a leading zero (or exactly "0"): what strconv.FormatUint prints, for a number
    of ANY magnitude *)
Inductive canon_udec : list Z -> Z -> Prop :=
| CU ds : ds <> [] -> Forall is_dig ds -> (hd 0 ds <> 48 \/ ds = [48]) -> canon_udec ds (dec_value ds).

(** optional minus sign: what strconv.FormatInt / big.Int.String print *)
Inductive canon_dec : list Z -> Z -> Prop :=
| CD_pos ds v : canon_udec ds v -> canon_dec ds v
| CD_neg ds v : canon_udec ds v -> canon_dec (45 :: ds) (- v).

Lemma dec_fold_ge n ds : Forall is_dig ds -> 0 <= n -> n <= dec_fold n ds.
Proof.
  revert n; induction ds as [|c r IH]; intros n Hd Hn; cbn; [lia|].
  inversion Hd as [|? ? Hc Hr]; subst. unfold is_dig in Hc.
  specialize (IH (n * 10 + (c - 48)) Hr). unfold dec_fold in IH. lia.
Qed.

Lemma is_dig_facts c : is_dig c -> (c =? 95) = false /\ digit_val c = c - 48 /\ 0 <= c - 48 < 10.
Proof.
  unfold is_dig, digit_val, is_digit; intros H. repeat split; try lia.
  replace ((48 <=? c) && (c <=? 57)) with true by lia. reflexivity.
Qed.

Lemma uloop_dec maxv ds : forall n, Forall is_dig ds -> 0 <= n <= maxv ->
  uloop 10 maxv ds n = if dec_fold n ds <=? maxv then POk (dec_fold n ds) else PRange maxv.
Proof.
  induction ds as [|c r IH]; intros n Hd Hn.
  - cbn. replace (n <=? maxv) with true by lia. reflexivity.
  - inversion Hd as [|? ? Hc Hr]; subst.
    destruct (is_dig_facts c Hc) as (E1 & E2 & E3).
    cbn [uloop]. rewrite E1, E2.
    replace (c - 48 =? 255) with false by lia.
    replace (c - 48 >=? 10) with false by lia.
    change (dec_fold n (c :: r)) with (dec_fold (n * 10 + (c - 48)) r).
    destruct (n * 10 + (c - 48) >? maxv) eqn:A.
    + pose proof (dec_fold_ge (n * 10 + (c - 48)) r Hr ltac:(lia)).
      replace (dec_fold (n * 10 + (c - 48)) r <=? maxv) with false by lia. reflexivity.
    + apply IH; [assumption|lia].
Qed.

Lemma existsb_us_digits ds : Forall is_dig ds -> existsb (Z.eqb 95) ds = false.
Proof.
  induction 1 as [|c r Hc _ IH]; [reflexivity|]. cbn [existsb]. rewrite IH.
  unfold is_dig in Hc. replace (95 =? c) with false by lia. reflexivity.
Qed.

Lemma parse_uint64_canon ds v : canon_udec ds v ->
  parse_uint64 ds = if v <=? u64max then POk v else PRange u64max.
Proof.
  intros H. destruct H as [ds Hne Hd Hz].
  destruct ds as [|c r]; [congruence|].
  destruct Hz as [Hz|Hz].
  - cbn in Hz. unfold parse_uint64, split_base.
    replace (c =? 48) with false by lia.
    rewrite (uloop_dec u64max (c :: r) 0 Hd) by (unfold u64max; lia).
    fold (dec_value (c :: r)).
    destruct (dec_value (c :: r) <=? u64max); [|reflexivity].
    rewrite (existsb_us_digits _ Hd). reflexivity.
  - inversion Hz; subst. reflexivity.
Qed.

Lemma canon_udec_nonneg ds v : canon_udec ds v -> 0 <= v.
Proof. intros [ds' _ Hd _]. apply (dec_fold_ge 0 ds' Hd). lia. Qed.

Lemma canon_udec_head ds v : canon_udec ds v -> exists c r, ds = c :: r /\ is_dig c.
Proof.
  intros [ds' Hne Hd _]. destruct ds' as [|c r]; [congruence|].
  exists c, r. split; [reflexivity|]. inversion Hd; assumption.
Qed.

(** ParseInt(s, 0, 64) on a canonical decimal of ANY magnitude: the value, or the int64 bound of
    matching sign with ErrRange *)
Lemma parse_int64_canon s z : canon_dec s z ->
  parse_int64 s = if z >? i64max then PRange i64max
                  else if z <? i64min then PRange i64min else POk z.
Proof.
  intros H. destruct H as [ds v Hu|ds v Hu].
  - destruct (canon_udec_head _ _ Hu) as (c & r & -> & Hc).
    pose proof (canon_udec_nonneg _ _ Hu) as Hnn.
    unfold parse_int64. unfold is_dig in Hc.
    replace (c =? 43) with false by lia. replace (c =? 45) with false by lia.
    rewrite (parse_uint64_canon _ _ Hu). unfold u64max, i64max, i64min in *.
    destruct (v <=? 18446744073709551615) eqn:A; cbn [negb andb].
    + destruct (v >=? 9223372036854775808) eqn:B.
      * replace (v >? 9223372036854775807) with true by lia. reflexivity.
      * replace (v >? 9223372036854775807) with false by lia.
        replace (v <? -9223372036854775808) with false by lia. reflexivity.
    + replace (v >? 9223372036854775807) with true by lia. reflexivity.
  - pose proof (canon_udec_nonneg _ _ Hu) as Hnn.
    unfold parse_int64. change (45 =? 43) with false. change (45 =? 45) with true. cbv iota.
    rewrite (parse_uint64_canon _ _ Hu). unfold u64max, i64max, i64min in *.
    replace (- v >? 9223372036854775807) with false by lia.
    destruct (v <=? 18446744073709551615) eqn:A; cbn [negb andb].
    + destruct (v >? 9223372036854775808) eqn:B.
      * replace (- v <? -9223372036854775808) with true by lia. reflexivity.
      * replace (- v <? -9223372036854775808) with false by lia. reflexivity.
    + replace (- v <? -9223372036854775808) with true by lia. reflexivity.
Qed.

(** * What an argument list denotes: the mathematical numbers it presents, in order *)

Inductive denotes (sr : list Z -> Z -> Prop) : arg -> list Z -> Prop :=
| D_int t v : in_gty t v -> denotes sr (AInt t v) [v]
| D_ints t vs : Forall (in_gty t) vs -> denotes sr (AInts t vs) vs
| D_str s z : sr s z -> denotes sr (AStr s) [z]
| D_strs ss zs : Forall2 sr ss zs -> denotes sr (AStrs ss) zs.

Inductive denotes_all (sr : list Z -> Z -> Prop) : list arg -> list Z -> Prop :=
| DA_nil : denotes_all sr [] []
| DA_cons a zs r ws : denotes sr a zs -> denotes_all sr r ws -> denotes_all sr (a :: r) (zs ++ ws).

Lemma concat_res_ok {A B} (f : A -> res (list B)) (g : A -> list B) l :
  Forall (fun a => f a = inr (g a)) l -> concat_res f l = inr (flat_map g l).
Proof.
  induction 1 as [|a r Ha _ IH]; [reflexivity|]. cbn. rewrite Ha, IH. reflexivity.
Qed.

Lemma concat_res_singletons {A B} (f : A -> res (list B)) (R : A -> B -> Prop) (h : B -> B) l zs :
  (forall a z, R a z -> f a = inr [z]) -> Forall2 R l zs -> concat_res f l = inr zs.
Proof.
  intros Hf H. induction H as [|a z r ws Ha _ IH]; [reflexivity|].
  cbn. rewrite (Hf _ _ Ha), IH. reflexivity.
Qed.

(** ** signed *)

Lemma int_of_string_canon w s z : valid_w w -> canon_dec s z ->
  int_of_string (int_lo w) (int_hi w) s = inr [clamp (int_lo w) (int_hi w) z].
Proof.
  intros Hw Hs. destruct (int_bounds w Hw) as (B1 & B2 & B3 & B4).
  unfold int_of_string. rewrite (parse_int64_canon _ _ Hs). unfold i64max, i64min.
  destruct (z >? 9223372036854775807) eqn:A.
  - f_equal. f_equal. rewrite (clamp_above _ _ z) by lia. unfold clamp.
    destruct (9223372036854775807 <? int_lo w) eqn:C; [lia|].
    destruct (9223372036854775807 >? int_hi w) eqn:D; lia.
  - destruct (z <? -9223372036854775808) eqn:B.
    + f_equal. f_equal. rewrite (clamp_below _ _ z) by lia. unfold clamp.
      destruct (-9223372036854775808 <? int_lo w) eqn:C; [lia|].
      destruct (-9223372036854775808 >? int_hi w) eqn:D; lia.
    + reflexivity.
Qed.

Lemma int_arg_denotes w a zs : valid_w w -> denotes canon_dec a zs ->
  int_arg (int_lo w) (int_hi w) a = inr (map (clamp (int_lo w) (int_hi w)) zs).
Proof.
  intros Hw H. destruct (int_bounds w Hw) as (B1 & B2 & B3 & B4).
  destruct H as [t v Hin|t vs Hin|s z Hs|ss zs Hs]; cbn [int_arg map].
  - rewrite conv_int_clamp by (lia || assumption). reflexivity.
  - f_equal. apply map_ext_in. intros v Hv. rewrite Forall_forall in Hin.
    apply conv_int_clamp; [lia|auto].
  - apply int_of_string_canon; assumption.
  - induction Hs as [|s z r ws Hs _ IH]; [reflexivity|].
    cbn [concat_res map]. rewrite (int_of_string_canon w s z Hw Hs), IH. reflexivity.
Qed.

Lemma concat_int_denotes w args zs : valid_w w -> denotes_all canon_dec args zs ->
  concat_res (int_arg (int_lo w) (int_hi w)) args = inr (map (clamp (int_lo w) (int_hi w)) zs).
Proof.
  intros Hw H. induction H as [|a zs r ws Ha _ IH]; [reflexivity|].
  cbn [concat_res]. rewrite (int_arg_denotes w a zs Hw Ha), IH, map_app. reflexivity.
Qed.

Lemma size32_one {A} (x : A) : size32 [x] = 1.
Proof. reflexivity. Qed.

(** fast path = slow path *)
Lemma int_fast_is_slow w args v : int_scalar_fast (int_lo w) (int_hi w) args = Some v ->
  concat_res (int_arg (int_lo w) (int_hi w)) args = inr [v] /\
  IInt w 1 [v] (size_err (1 * w)) = finish_int w [v].
Proof.
  intros H. destruct args as [|a [|b r]]; try discriminate; destruct a; try discriminate.
  cbn in H. inversion H; subst. split; reflexivity.
Qed.

(** every presentation of the numbers [zs] produces the item holding [clamp lo hi] of each, in order *)
Theorem new_int_denotes w args zs : valid_w w -> denotes_all canon_dec args zs ->
  new_int w args = finish_int w (map (clamp (int_lo w) (int_hi w)) zs).
Proof.
  intros Hw H. unfold new_int.
  replace (valid_int_size w) with true by (symmetry; apply valid_int_size_iff; assumption).
  cbn [negb]. pose proof (concat_int_denotes w args zs Hw H) as C.
  destruct (int_scalar_fast (int_lo w) (int_hi w) args) as [v|] eqn:F.
  - destruct (int_fast_is_slow w args v F) as (C' & E). rewrite C in C'. injection C' as C''. rewrite C''.
    rewrite E. reflexivity.
  - rewrite C. reflexivity.
Qed.

(** the accessors see exactly the stored list when the count fits the int32 field *)
Lemma seen_stored {A} (vs : list A) : Z.of_nat (length vs) < 2 ^ 31 ->
  size32 vs = Z.of_nat (length vs) /\ seen (size32 vs) (stored (size32 vs) vs) = vs.
Proof.
  intros H. assert (E : size32 vs = Z.of_nat (length vs)).
  { unfold size32. apply wrapS_id; [lia|]. unfold inS. change (2 ^ (32 - 1)) with (2 ^ 31). lia. }
  split; [exact E|]. rewrite E. unfold seen, stored.
  destruct vs as [|a [|b r]]; try reflexivity.
  cbn [length]. replace (Z.of_nat (S (S (length r))) =? 0) with false by lia.
  replace (Z.of_nat (S (S (length r))) =? 1) with false by lia. reflexivity.
Qed.

Lemma size_err_none n : size_err n = None <-> n <= MaxByteSize.
Proof. unfold size_err. destruct (n >? MaxByteSize) eqn:A; split; intros; try discriminate; try reflexivity; lia. Qed.

Theorem clamp_int_values w args zs : valid_w w -> denotes_all canon_dec args zs ->
  Z.of_nat (length zs) < 2 ^ 31 ->
  let it := new_int w args in
  (error it = None <-> Z.of_nat (length zs) * w <= MaxByteSize) /\
  type_code it = 10 + w /\ size_of it = Z.of_nat (length zs) /\
  num_values it = map (clamp (int_lo w) (int_hi w)) zs.
Proof.
  intros Hw H Hl. cbv zeta. rewrite (new_int_denotes w args zs Hw H). unfold finish_int.
  set (vs := map (clamp (int_lo w) (int_hi w)) zs).
  assert (Hlen : length vs = length zs) by apply map_length.
  destruct (seen_stored vs ltac:(rewrite Hlen; exact Hl)) as (E1 & E2).
  cbn [error own_err type_code size_of num_values]. rewrite E2, E1, Hlen.
  replace (valid_int_size w) with true by (symmetry; apply valid_int_size_iff; assumption).
  repeat split; try reflexivity; apply size_err_none.
Qed.

(** ** unsigned *)

Lemma uint_of_string_canon w s z : valid_w w -> canon_udec s z ->
  uint_of_string (uint_hi w) s = inr [clamp 0 (uint_hi w) z].
Proof.
  intros Hw Hs. destruct (uint_bounds w Hw) as (B1 & B2).
  pose proof (canon_udec_nonneg _ _ Hs) as Hnn.
  unfold uint_of_string. rewrite (parse_uint64_canon _ _ Hs). unfold u64max.
  destruct (z <=? 18446744073709551615) eqn:A.
  - rewrite clampU_clamp by assumption. reflexivity.
  - rewrite clampU_clamp by lia. f_equal. f_equal.
    rewrite (clamp_above _ _ z) by lia. unfold clamp.
    destruct (18446744073709551615 <? 0) eqn:C; [lia|].
    destruct (18446744073709551615 >? uint_hi w) eqn:D; lia.
Qed.

Lemma conv_uint_nonneg hi t v : 0 <= v -> conv_uint hi t v = inr (clamp 0 hi v).
Proof.
  intros H. unfold conv_uint. replace (v <? 0) with false by lia. rewrite andb_false_r.
  rewrite clampU_clamp by assumption. reflexivity.
Qed.

Lemma map_res_ok {A B} (f : A -> res B) (g : A -> B) l :
  Forall (fun a => f a = inr (g a)) l -> map_res f l = inr (map g l).
Proof. induction 1 as [|a r Ha _ IH]; [reflexivity|]. cbn. rewrite Ha, IH. reflexivity. Qed.

Lemma uint_arg_denotes w a zs : valid_w w -> denotes canon_udec a zs -> Forall (fun z => 0 <= z) zs ->
  uint_arg (uint_hi w) a = inr (map (clamp 0 (uint_hi w)) zs).
Proof.
  intros Hw H Hnn. destruct H as [t v Hin|t vs Hin|s z Hs|ss zs Hs]; cbn [uint_arg map].
  - inversion Hnn; subst. rewrite conv_uint_nonneg by assumption. reflexivity.
  - apply map_res_ok. rewrite Forall_forall in *. intros v Hv. apply conv_uint_nonneg; auto.
  - apply uint_of_string_canon; assumption.
  - clear Hnn. induction Hs as [|s z r ws Hs _ IH]; [reflexivity|].
    cbn [concat_res map]. rewrite (uint_of_string_canon w s z Hw Hs), IH. reflexivity.
Qed.

Lemma concat_uint_denotes w args zs : valid_w w -> denotes_all canon_udec args zs ->
  Forall (fun z => 0 <= z) zs ->
  concat_res (uint_arg (uint_hi w)) args = inr (map (clamp 0 (uint_hi w)) zs).
Proof.
  intros Hw H. induction H as [|a zs r ws Ha _ IH]; intros Hnn; [reflexivity|].
  apply Forall_app in Hnn. destruct Hnn as (N1 & N2).
  cbn [concat_res]. rewrite (uint_arg_denotes w a zs Hw Ha N1), (IH N2), map_app. reflexivity.
Qed.

Theorem new_uint_denotes w args zs : valid_w w -> denotes_all canon_udec args zs ->
  Forall (fun z => 0 <= z) zs ->
  new_uint w args = finish_uint w (map (clamp 0 (uint_hi w)) zs).
Proof.
  intros Hw H Hnn. unfold new_uint.
  replace (valid_int_size w) with true by (symmetry; apply valid_int_size_iff; assumption).
  cbn [negb]. rewrite (concat_uint_denotes w args zs Hw H Hnn). reflexivity.
Qed.

Theorem clamp_uint_values w args zs : valid_w w -> denotes_all canon_udec args zs ->
  Forall (fun z => 0 <= z) zs -> Z.of_nat (length zs) < 2 ^ 31 ->
  let it := new_uint w args in
  (error it = None <-> Z.of_nat (length zs) * w <= MaxByteSize) /\
  type_code it = 20 + w /\ size_of it = Z.of_nat (length zs) /\
  num_values it = map (clamp 0 (uint_hi w)) zs.
Proof.
  intros Hw H Hnn Hl. cbv zeta. rewrite (new_uint_denotes w args zs Hw H Hnn). unfold finish_uint.
  set (vs := map (clamp 0 (uint_hi w)) zs).
  assert (Hlen : length vs = length zs) by apply map_length.
  destruct (seen_stored vs ltac:(rewrite Hlen; exact Hl)) as (E1 & E2).
  cbn [error own_err type_code size_of num_values]. rewrite E2, E1, Hlen.
  replace (valid_int_size w) with true by (symmetry; apply valid_int_size_iff; assumption).
  repeat split; try reflexivity; apply size_err_none.
Qed.

(** ** floats *)

(** what each accepted argument presents to a float item: the exact binary64 image of a float32 or
    of an integer with |v| <= 2^53, the float64 itself, the parsed float64 of a string; float64 and
    string inputs pass through clampF4 when the item is F4 *)
Inductive fdenotes (pf : list Z -> option Z) (w : Z) : arg -> list Z -> Prop :=
| FD_f32 b : fdenotes pf w (AF32 b) [f32_widen b]
| FD_f32s bs : fdenotes pf w (AF32s bs) (map f32_widen bs)
| FD_f64 b : fdenotes pf w (AF64 b) [f4 w b]
| FD_f64s bs : fdenotes pf w (AF64s bs) (map (f4 w) bs)
| FD_int t v : - two53 <= v <= two53 -> fdenotes pf w (AInt t v) [f64_of_Z v]
| FD_ints t vs : Forall (fun v => - two53 <= v <= two53) vs -> fdenotes pf w (AInts t vs) (map f64_of_Z vs)
| FD_str s b : pf s = Some b -> fdenotes pf w (AStr s) [f4 w b]
| FD_strs ss bs : Forall2 (fun s b => pf s = Some b) ss bs -> fdenotes pf w (AStrs ss) (map (f4 w) bs).

Inductive fdenotes_all (pf : list Z -> option Z) (w : Z) : list arg -> list Z -> Prop :=
| FDA_nil : fdenotes_all pf w [] []
| FDA_cons a xs r ys : fdenotes pf w a xs -> fdenotes_all pf w r ys -> fdenotes_all pf w (a :: r) (xs ++ ys).

Lemma conv_float_int_ok t v : - two53 <= v <= two53 -> conv_float_int t v = inr (f64_of_Z v).
Proof.
  intros H. unfold conv_float_int.
  replace (v >? two53) with false by lia. replace (v <? - two53) with false by lia.
  rewrite andb_false_r. reflexivity.
Qed.

Lemma float_arg_denotes pf w a xs : fdenotes pf w a xs -> float_arg pf w a = inr xs.
Proof.
  intros H. destruct H as [b|bs|b|bs|t v Hv|t vs Hv|s b Hs|ss bs Hs]; cbn [float_arg]; try reflexivity.
  - rewrite conv_float_int_ok by assumption. reflexivity.
  - apply map_res_ok. rewrite Forall_forall in *. intros v Hin. apply conv_float_int_ok; auto.
  - unfold float_of_string. rewrite Hs. reflexivity.
  - induction Hs as [|s b r ws Hs _ IH]; [reflexivity|].
    cbn [concat_res map]. unfold float_of_string at 1. rewrite Hs, IH. reflexivity.
Qed.

Theorem new_float_denotes pf w args xs : w = 4 \/ w = 8 -> fdenotes_all pf w args xs ->
  new_float pf w args = finish_float w xs.
Proof.
  intros Hw H. unfold new_float.
  replace (valid_float_size w) with true by (unfold valid_float_size; lia). cbn [negb].
  assert (C : concat_res (float_arg pf w) args = inr xs).
  { induction H as [|a xs r ys Ha _ IH]; [reflexivity|].
    cbn [concat_res]. rewrite (float_arg_denotes pf w a xs Ha), IH. reflexivity. }
  rewrite C. reflexivity.
Qed.

Theorem float_values pf w args xs : w = 4 \/ w = 8 -> fdenotes_all pf w args xs ->
  Z.of_nat (length xs) < 2 ^ 31 ->
  let it := new_float pf w args in
  (error it = None <-> Z.of_nat (length xs) * w <= MaxByteSize) /\
  type_code it = 30 + w /\ size_of it = Z.of_nat (length xs) /\ num_values it = xs.
Proof.
  intros Hw H Hl. cbv zeta. rewrite (new_float_denotes pf w args xs Hw H). unfold finish_float.
  destruct (seen_stored xs Hl) as (E1 & E2).
  cbn [error own_err type_code size_of num_values]. rewrite E2, E1.
  replace (valid_float_size w) with true by (unfold valid_float_size; lia).
  repeat split; try reflexivity; apply size_err_none.
Qed.

(** clampF4 on the ordered abstraction: NaN and the infinities pass; a finite value inside
    [-MaxFloat32, +MaxFloat32] is kept; a finite value outside becomes the bound of the SAME sign
    (the nearest one), never anything else. *)
Ltac zdm := Z.div_mod_to_equations; lia.

Theorem clamp_f4_spec b : 0 <= b < 2 ^ 64 ->
  (f64_special b = true -> clamp_f4 b = b) /\
  (f64_special b = false -> f64_mag b <= maxf32_mag -> clamp_f4 b = b) /\
  (f64_special b = false -> maxf32_mag < f64_mag b ->
     clamp_f4 b = f64_sign b * 2 ^ 63 + maxf32_mag /\
     f64_sign (clamp_f4 b) = f64_sign b /\ f64_mag (clamp_f4 b) = maxf32_mag /\
     f64_special (clamp_f4 b) = false).
Proof.
  intros Hb. unfold clamp_f4. repeat split; intros.
  - rewrite H. reflexivity.
  - rewrite H. replace (f64_mag b >? maxf32_mag) with false by lia. reflexivity.
  - rewrite H. replace (f64_mag b >? maxf32_mag) with true by lia. reflexivity.
  - rewrite H. replace (f64_mag b >? maxf32_mag) with true by lia.
    unfold f64_sign, maxf32_mag in *. change (2 ^ 64) with 18446744073709551616 in Hb.
    change (2 ^ 63) with 9223372036854775808. zdm.
  - rewrite H. replace (f64_mag b >? maxf32_mag) with true by lia.
    unfold f64_mag, f64_sign, maxf32_mag in *. change (2 ^ 64) with 18446744073709551616 in Hb.
    change (2 ^ 63) with 9223372036854775808. zdm.
  - rewrite H. replace (f64_mag b >? maxf32_mag) with true by lia.
    unfold f64_special, f64_exp, f64_sign, maxf32_mag in *. change (2 ^ 64) with 18446744073709551616 in Hb.
    change (2 ^ 63) with 9223372036854775808. change (2 ^ 52) with 4503599627370496.
    apply Z.eqb_neq. zdm.
Qed.

(** the result of clampF4 is always inside the F4 range (or NaN/Inf) *)
Corollary clamp_f4_bounded b : 0 <= b < 2 ^ 64 ->
  f64_special (clamp_f4 b) = true \/ f64_mag (clamp_f4 b) <= maxf32_mag.
Proof.
  intros Hb. destruct (clamp_f4_spec b Hb) as (S1 & S2 & S3).
  destruct (f64_special b) eqn:A.
  - left. rewrite S1 by reflexivity. exact A.
  - right. destruct (Z_le_gt_dec (f64_mag b) maxf32_mag) as [L|G].
    + rewrite S2 by (reflexivity || assumption). assumption.
    + destruct (S3 eq_refl ltac:(lia)) as (_ & _ & M & _). lia.
Qed.

(** * Refusals *)

Lemma concat_res_refuse {A B} (f : A -> res (list B)) l a e :
  In a l -> f a = inl e -> exists e', concat_res f l = inl e'.
Proof.
  induction l as [|x r IH]; intros Hin Hf; [contradiction|].
  cbn. destruct Hin as [->|Hin].
  - rewrite Hf. eauto.
  - destruct (f x); [eauto|]. destruct (IH Hin Hf) as (e' & ->). eauto.
Qed.

Lemma map_res_refuse {A B} (f : A -> res B) l a e :
  In a l -> f a = inl e -> exists e', map_res f l = inl e'.
Proof.
  induction l as [|x r IH]; intros Hin Hf; [contradiction|].
  cbn. destruct Hin as [->|Hin].
  - rewrite Hf. eauto.
  - destruct (f x); [eauto|]. destruct (IH Hin Hf) as (e' & ->). eauto.
Qed.

Definition refused_int (a : arg) : Prop :=
  match a with
  | AInt _ _ | AInts _ _ => False
  | AStr s => parse_int64 s = PSyntax
  | AStrs ss => exists s, In s ss /\ parse_int64 s = PSyntax
  | _ => True          (* float32/float64, bool, their slices, nil, any other type *)
  end.

Definition refused_uint (a : arg) : Prop :=
  match a with
  | AInt t v => gty_signed t = true /\ v < 0
  | AInts t vs => gty_signed t = true /\ exists v, In v vs /\ v < 0
  | AStr s => parse_uint64 s = PSyntax
  | AStrs ss => exists s, In s ss /\ parse_uint64 s = PSyntax
  | _ => True
  end.

Definition refused_float (pf : list Z -> option Z) (a : arg) : Prop :=
  match a with
  | AF32 _ | AF32s _ | AF64 _ | AF64s _ => False
  | AInt t v => needs53 t = true /\ (two53 < v \/ v < - two53)
  | AInts t vs => needs53 t = true /\ exists v, In v vs /\ (two53 < v \/ v < - two53)
  | AStr s => pf s = None
  | AStrs ss => exists s, In s ss /\ pf s = None
  | _ => True
  end.

Definition refused_bin (a : arg) : Prop :=
  match a with
  | AInt TInt v => v < 0 \/ 255 < v
  | AInt TUint8 _ => False
  | AInts TUint8 _ => False
  | AStr s => forall v, parse_int64 s = POk v -> v < 0 \/ 255 < v
  | _ => True
  end.

Definition refused_bool (a : arg) : Prop :=
  match a with ABool _ | ABools _ => False | _ => True end.

Lemma refused_int_inl lo hi a : refused_int a -> exists e, int_arg lo hi a = inl e.
Proof.
  destruct a; cbn; intros H; try contradiction; eauto.
  - unfold int_of_string. rewrite H. eauto.
  - destruct H as (s & Hin & Hs). apply (concat_res_refuse _ ss s ESyntax Hin).
    unfold int_of_string. rewrite Hs. reflexivity.
Qed.

Lemma refused_uint_inl hi a : refused_uint a -> exists e, uint_arg hi a = inl e.
Proof.
  destruct a; cbn; intros H; try contradiction; eauto.
  - destruct H as (Hs & Hv). unfold conv_uint. rewrite Hs. replace (v <? 0) with true by lia. cbn. eauto.
  - destruct H as (Hs & v & Hin & Hv). apply (map_res_refuse _ vs v ENegative Hin).
    unfold conv_uint. rewrite Hs. replace (v <? 0) with true by lia. reflexivity.
  - unfold uint_of_string. rewrite H. eauto.
  - destruct H as (s & Hin & Hs). apply (concat_res_refuse _ ss s ESyntax Hin).
    unfold uint_of_string. rewrite Hs. reflexivity.
Qed.

Lemma conv_float_int_refuse t v : needs53 t = true -> two53 < v \/ v < - two53 ->
  conv_float_int t v = inl EOverflow.
Proof.
  intros Ht Hv. unfold conv_float_int. rewrite Ht.
  replace ((v >? two53) || (v <? - two53)) with true by lia. reflexivity.
Qed.

Lemma refused_float_inl pf w a : refused_float pf a -> exists e, float_arg pf w a = inl e.
Proof.
  destruct a; cbn; intros H; try contradiction; eauto.
  - destruct H as (Ht & Hv). rewrite conv_float_int_refuse by assumption. eauto.
  - destruct H as (Ht & v & Hin & Hv). apply (map_res_refuse _ vs v EOverflow Hin).
    apply conv_float_int_refuse; assumption.
  - unfold float_of_string. rewrite H. eauto.
  - destruct H as (s & Hin & Hs). apply (concat_res_refuse _ ss s ESyntax Hin).
    unfold float_of_string. rewrite Hs. reflexivity.
Qed.

Lemma refused_bin_inl a : refused_bin a -> exists e, bin_arg a = inl e.
Proof.
  destruct a; cbn; intros H; eauto.
  - destruct t; try contradiction; eauto.
    replace ((v <? 0) || (v >? 255)) with true by lia. eauto.
  - destruct t; try contradiction; eauto.
  - destruct (parse_int64 s) as [|v|v]; eauto.
    specialize (H v eq_refl). replace ((v <? 0) || (v >? 255)) with true by lia. eauto.
Qed.

Lemma refused_bool_inl a : refused_bool a -> exists e, bool_arg a = inl e.
Proof. destruct a; cbn; intros H; try contradiction; eauto. Qed.

Lemma new_int_refuse w args a : In a args -> refused_int a -> error (new_int w args) <> None.
Proof.
  intros Hin Hr. unfold new_int. destruct (valid_int_size w); cbn [negb]; [|discriminate].
  destruct (int_scalar_fast (int_lo w) (int_hi w) args) as [v|] eqn:F.
  - destruct args as [|x [|y r]]; try discriminate; destruct x; try discriminate.
    destruct Hin as [<-|[]]. contradiction.
  - destruct (refused_int_inl (int_lo w) (int_hi w) a Hr) as (e & He).
    destruct (concat_res_refuse _ args a e Hin He) as (e' & ->). discriminate.
Qed.

Lemma new_uint_refuse w args a : In a args -> refused_uint a -> error (new_uint w args) <> None.
Proof.
  intros Hin Hr. unfold new_uint. destruct (valid_int_size w); cbn [negb]; [|discriminate].
  destruct (refused_uint_inl (uint_hi w) a Hr) as (e & He).
  destruct (concat_res_refuse _ args a e Hin He) as (e' & ->). discriminate.
Qed.

Lemma new_float_refuse pf w args a : In a args -> refused_float pf a -> error (new_float pf w args) <> None.
Proof.
  intros Hin Hr. unfold new_float. destruct (valid_float_size w); cbn [negb]; [|discriminate].
  destruct (refused_float_inl pf w a Hr) as (e & He).
  destruct (concat_res_refuse _ args a e Hin He) as (e' & ->). discriminate.
Qed.

Lemma new_binary_refuse args a : In a args -> refused_bin a -> error (new_binary args) <> None.
Proof.
  intros Hin Hr. unfold new_binary. destruct (refused_bin_inl a Hr) as (e & He).
  destruct (concat_res_refuse _ args a e Hin He) as (e' & ->). discriminate.
Qed.

Lemma new_boolean_refuse args a : In a args -> refused_bool a -> error (new_boolean args) <> None.
Proof.
  intros Hin Hr. unfold new_boolean. destruct (refused_bool_inl a Hr) as (e & He).
  destruct (concat_res_refuse _ args a e Hin He) as (e' & ->). discriminate.
Qed.

(** the documented refusals, all families at once *)
Theorem refusals pf w args a : In a args ->
  (refused_int a -> error (new_int w args) <> None) /\
  (refused_uint a -> error (new_uint w args) <> None) /\
  (refused_float pf a -> error (new_float pf w args) <> None) /\
  (refused_bin a -> error (new_binary args) <> None) /\
  (refused_bool a -> error (new_boolean args) <> None).
Proof.
  intros Hin. repeat split; intros Hr.
  - eapply new_int_refuse; eassumption.
  - eapply new_uint_refuse; eassumption.
  - eapply new_float_refuse; eassumption.
  - eapply new_binary_refuse; eassumption.
  - eapply new_boolean_refuse; eassumption.
Qed.

Theorem invalid_byte_size pf w args :
  (~ valid_w w -> error (new_int w args) <> None /\ error (new_uint w args) <> None) /\
  (~ (w = 4 \/ w = 8) -> error (new_float pf w args) <> None).
Proof.
  split; intros H.
  - assert (E : valid_int_size w = false).
    { destruct (valid_int_size w) eqn:V; [|reflexivity]. apply valid_int_size_iff in V. contradiction. }
    unfold new_int, new_uint. rewrite E. cbn. split; discriminate.
  - assert (E : valid_float_size w = false) by (unfold valid_float_size; lia).
    unfold new_float. rewrite E. cbn. discriminate.
Qed.

(** a sign is a refusal for the unsigned family also when it comes as text *)
Lemma parse_uint64_minus r : parse_uint64 (45 :: r) = PSyntax.
Proof. reflexivity. Qed.
Lemma parse_uint64_plus r : parse_uint64 (43 :: r) = PSyntax.
Proof. reflexivity. Qed.

Theorem strings_too_long s lsh : MaxByteSize < Z.of_nat (length s) ->
  error (new_ascii s) <> None /\ error (new_jis8 s) <> None /\ error (new_localized lsh s) <> None.
Proof.
  intros H. unfold new_ascii, new_jis8, new_localized.
  replace (Z.of_nat (length s) >? MaxByteSize) with true by lia.
  replace (Z.of_nat (length s) + 2 >? MaxByteSize) with true by lia. cbn. repeat split; discriminate.
Qed.

(** * Lists: the cached clean flag *)

Fixpoint first_err (l : list item) : option err :=
  match l with
  | [] => None
  | c :: r => first_some (error c) (first_err r)
  end.

Lemma error_list cs clean e :
  error (IList cs clean e) = if clean then None else first_some e (first_err cs).
Proof. reflexivity. Qed.

Definition is_leaf (it : item) : Prop := match it with IList _ _ _ => False | _ => True end.

Lemma error_leaf it : is_leaf it -> error it = own_err it.
Proof. destruct it; cbn; intros H; try reflexivity; contradiction. Qed.

Section ItemInd.
  Variable P : item -> Prop.
  Hypothesis Hleaf : forall it, is_leaf it -> P it.
  Hypothesis Hlist : forall cs clean e, Forall P cs -> P (IList cs clean e).
  Fixpoint item_ind' (it : item) : P it :=
    match it with
    | IList cs clean e =>
      Hlist cs clean e
        ((fix go (l : list item) : Forall P l :=
            match l with
            | [] => Forall_nil P
            | c :: r => Forall_cons c (item_ind' c) (go r)
            end) cs)
    | IInt w s v e => Hleaf (IInt w s v e) I
    | IUint w s v e => Hleaf (IUint w s v e) I
    | IFloat w s v e => Hleaf (IFloat w s v e) I
    | IBool s v e => Hleaf (IBool s v e) I
    | IBin v e => Hleaf (IBin v e) I
    | IAscii s e => Hleaf (IAscii s e) I
    | IJis8 s e => Hleaf (IJis8 s e) I
    | ILoc l s e => Hleaf (ILoc l s e) I
    | IEmpty => Hleaf IEmpty I
    end.
End ItemInd.

(** Items as the constructors (and the decoder) build them: the cached flag of every list is the
    conjunction of [childClean] over its children, and only the over-long list carries an own error. *)
Inductive wf_item : item -> Prop :=
| WF_leaf it : is_leaf it -> wf_item it
| WF_list cs : Forall wf_item cs -> wf_item (IList cs (forallb child_clean cs) None)
| WF_list_err e : wf_item (IList [] false (Some e)).

Lemma first_err_none l : first_err l = None <-> Forall (fun c => error c = None) l.
Proof.
  induction l as [|c r IH]; cbn; [split; [constructor|reflexivity]|].
  destruct (error c) eqn:E; cbn.
  - split; [discriminate|]. intros H. inversion H; congruence.
  - rewrite IH. split; intros H; [constructor; assumption|inversion H; assumption].
Qed.

Lemma is_none_iff {A} (o : option A) : is_none o = true <-> o = None.
Proof. destruct o; cbn; split; congruence. Qed.

(** childClean says exactly "Error() == nil" on every well-formed item *)
Lemma child_clean_iff it : wf_item it -> (child_clean it = true <-> error it = None).
Proof.
  induction it as [it Hl|cs clean e IH] using item_ind'; intros Hwf.
  - rewrite (error_leaf it Hl). destruct it; try contradiction; cbn [child_clean own_err]; try apply is_none_iff.
  - inversion Hwf as [? Hl|cs' Hcs|e']; subst; [contradiction| |].
    + rewrite error_list. cbn [child_clean is_none andb first_some].
      destruct (forallb child_clean cs) eqn:F; [split; reflexivity|].
      split; [discriminate|]. intros H. exfalso.
      apply first_err_none in H.
      assert (forallb child_clean cs = true); [|congruence].
      apply forallb_forall. intros c Hin. rewrite Forall_forall in IH, Hcs, H.
      apply IH; auto.
    + cbn. split; discriminate.
Qed.

Lemma somes_wf cs : Forall (fun o => match o with Some c => wf_item c | None => True end) cs ->
  Forall wf_item (somes cs).
Proof.
  induction 1 as [|o r Ho _ IH]; cbn; [constructor|]. destruct o; [constructor; assumption|assumption].
Qed.

Definition wf_opt (o : option item) : Prop := match o with Some c => wf_item c | None => True end.

Lemma new_list_wf cs : Forall wf_opt cs -> wf_item (new_list cs).
Proof.
  intros H. unfold new_list. destruct (Z.of_nat (length cs) >? MaxByteSize); [apply WF_list_err|].
  apply WF_list. apply somes_wf. exact H.
Qed.

(** C16_clean_flag: the O(1) cached answer is the recursive one, for every nesting *)
Theorem clean_flag cs : Forall wf_opt cs -> Z.of_nat (length cs) <= MaxByteSize ->
  (error (new_list cs) = None <-> Forall (fun c => error c = None) (somes cs)).
Proof.
  intros Hwf Hlen. unfold new_list.
  replace (Z.of_nat (length cs) >? MaxByteSize) with false by lia.
  rewrite error_list. pose proof (somes_wf cs Hwf) as W.
  destruct (forallb child_clean (somes cs)) eqn:F.
  - split; [|reflexivity]. intros _. rewrite forallb_forall in F. apply Forall_forall.
    intros c Hin. rewrite Forall_forall in W. apply child_clean_iff; auto.
  - cbn [first_some]. rewrite first_err_none. split; [auto|].
    intros H. exfalso. assert (forallb child_clean (somes cs) = true); [|congruence].
    apply forallb_forall. intros c Hin. rewrite Forall_forall in W, H. apply child_clean_iff; auto.
Qed.

Theorem list_too_long cs : MaxByteSize < Z.of_nat (length cs) -> error (new_list cs) <> None.
Proof.
  intros H. unfold new_list. replace (Z.of_nat (length cs) >? MaxByteSize) with true by lia.
  cbn. discriminate.
Qed.

(** every leaf constructor yields a well-formed item *)
Lemma leaf_constructors_wf pf w args s lsh :
  wf_item (new_int w args) /\ wf_item (new_uint w args) /\ wf_item (new_float pf w args) /\
  wf_item (new_binary args) /\ wf_item (new_boolean args) /\ wf_item (new_ascii s) /\
  wf_item (new_jis8 s) /\ wf_item (new_localized lsh s) /\ wf_item IEmpty.
Proof.
  repeat split; apply WF_leaf.
  - unfold new_int. destruct (negb (valid_int_size w)); [exact I|].
    destruct (int_scalar_fast _ _ _); [exact I|]. destruct (concat_res _ _); exact I.
  - unfold new_uint. destruct (negb (valid_int_size w)); [exact I|]. destruct (concat_res _ _); exact I.
  - unfold new_float. destruct (negb (valid_float_size w)); [exact I|]. destruct (concat_res _ _); exact I.
  - unfold new_binary. destruct (concat_res _ _); exact I.
  - unfold new_boolean. destruct (concat_res _ _); exact I.
  - unfold new_ascii. destruct (_ >? _); exact I.
  - unfold new_jis8. destruct (_ >? _); exact I.
  - unfold new_localized. destruct (_ >? _); exact I.
  - exact I.
Qed.

(** * Equal *)

Lemma equal_unfold_err a b : has_error a || has_error b = true -> equal a b = false.
Proof. intros H. destruct a; cbn [equal]; rewrite H; reflexivity. Qed.

(** C16_never_equal *)
Theorem never_equal x y : error x <> None -> equal x y = false /\ equal y x = false.
Proof.
  intros H. assert (E : has_error x = true).
  { unfold has_error. destruct (error x); [reflexivity|congruence]. }
  split; apply equal_unfold_err; rewrite E; [reflexivity|apply orb_true_r].
Qed.

Theorem never_equal_opt x y : error x <> None -> equal_opt (Some x) y = false /\ equal_opt y (Some x) = false.
Proof.
  intros H. destruct y as [y|]; cbn; [apply never_equal; assumption|split; reflexivity].
Qed.

Lemma list_eqb_refl {A} (eqb : A -> A -> bool) (l : list A) :
  (forall a, eqb a a = true) -> list_eqb eqb l l = true.
Proof. intros H. induction l as [|a r IH]; cbn; [reflexivity|]. rewrite H, IH. reflexivity. Qed.

Fixpoint all2 (l m : list item) : bool :=
  match l, m with
  | [], [] => true
  | x :: r, y :: s => equal x y && all2 r s
  | _, _ => false
  end.

Lemma equal_list ca cla ea cb clb eb :
  equal (IList ca cla ea) (IList cb clb eb) =
  if has_error (IList ca cla ea) || has_error (IList cb clb eb) then false
  else if negb (type_code (IList ca cla ea) =? type_code (IList cb clb eb))
          || negb (size_of (IList ca cla ea) =? size_of (IList cb clb eb)) then false
  else all2 ca cb.
Proof. reflexivity. Qed.

(** an error-free well-formed item is Equal to itself (so identical items are Equal) *)
Lemma equal_refl it : wf_item it -> error it = None -> equal it it = true.
Proof.
  induction it as [it Hl|cs clean e IH] using item_ind'; intros Hwf He.
  - assert (E : has_error it = false) by (unfold has_error; rewrite He; reflexivity).
    destruct it; try contradiction; cbn [equal]; rewrite E; cbn [orb];
      rewrite !Z.eqb_refl; cbn [negb orb]; try reflexivity;
      try (apply list_eqb_refl; intros; apply Z.eqb_refl).
    + destruct (w =? 4); apply list_eqb_refl; intros; apply Z.eqb_refl.
    + apply list_eqb_refl. intros []; reflexivity.
    + rewrite list_eqb_refl by (intros; apply Z.eqb_refl). reflexivity.
  - rewrite equal_list.
    assert (E : has_error (IList cs clean e) = false) by (unfold has_error; rewrite He; reflexivity).
    rewrite E. cbn [orb]. rewrite !Z.eqb_refl. cbn [negb orb].
    inversion Hwf as [? Hl|cs' Hcs|e']; subst; [contradiction| |reflexivity].
    rewrite error_list in He.
    assert (Hall : Forall (fun c => error c = None) cs).
    { destruct (forallb child_clean cs) eqn:F.
      - rewrite forallb_forall in F. apply Forall_forall. intros c Hin.
        rewrite Forall_forall in Hcs. apply child_clean_iff; auto.
      - cbn in He. apply first_err_none. exact He. }
    clear He E Hwf. induction cs as [|c r IHr]; [reflexivity|].
    inversion IH; inversion Hcs; inversion Hall; subst. cbn [all2].
    rewrite H1 by assumption. cbn. apply IHr; assumption.
Qed.

(** * The message gate *)

(** C16_refused *)
Theorem refused stream function w session sysbytes x : error x <> None ->
  exists e, new_data_message stream function w session sysbytes (Some x) = inl e.
Proof.
  intros H. unfold new_data_message. destruct (stream >? 127); [eauto|].
  destruct (error x); [eauto|congruence].
Qed.

Theorem refused_build stream function w session sysbytes x : error x <> None ->
  exists e, build stream function w session sysbytes (Some x) = inl e.
Proof. apply refused. Qed.

Definition call_item (c : send_call) : option item :=
  match c with SendData _ _ _ it | SendAsync _ _ _ it | SendSecs2 _ _ _ it | Reply _ _ _ it => it end.

(** no send entry point hands a message with an errored item to the transport *)
Theorem refused_send session sysbytes c x : call_item c = Some x -> error x <> None ->
  exists e, send session sysbytes c = (Some e, []).
Proof.
  intros Hc Hx. unfold send.
  destruct c as [s f w it|s f w it|s f w it|ps pf0 psys it]; cbn in Hc; subst it.
  - destruct (refused s f w session sysbytes x Hx) as (e & ->). eauto.
  - destruct (refused s f w session sysbytes x Hx) as (e & ->). eauto.
  - destruct (refused (s mod 128) f w session sysbytes x Hx) as (e & ->). eauto.
  - destruct (refused ps ((pf0 + 1) mod 256) false session psys x Hx) as (e & ->). eauto.
Qed.

(** everything that reaches the wire carries an error-free item *)
Theorem wire_clean session sysbytes c m : In m (snd (send session sysbytes c)) -> error (m_item m) = None.
Proof.
  unfold send.
  assert (G : forall s f w sb it mm, new_data_message s f w session sb it = inr mm -> error (m_item mm) = None).
  { intros s f w sb it mm. unfold new_data_message. destruct (s >? 127); [discriminate|].
    destruct (error (match it with Some x => x | None => IEmpty end)) eqn:E; [discriminate|].
    destruct (w && (f mod 2 =? 0)); [discriminate|]. intros H. inversion H; subst. exact E. }
  destruct c as [s f w it|s f w it|s f w it|ps pf0 psys it];
    match goal with |- In _ (snd (match ?r with _ => _ end)) -> _ => destruct r as [e|mm] eqn:R end;
    cbn; intros Hin; try contradiction; destruct Hin as [<-|[]]; eapply G; eassumption.
Qed.

(** the gate accepts exactly: stream <= 127, error-free item, no W-bit on an even function *)
Theorem gate_accepts stream function w session sysbytes x :
  (exists m, new_data_message stream function w session sysbytes (Some x) = inr m) <->
  stream <= 127 /\ error x = None /\ ~ (w = true /\ function mod 2 = 0).
Proof.
  unfold new_data_message. destruct (stream >? 127) eqn:S.
  - split; [intros (m & H); discriminate|lia].
  - destruct (error x) eqn:E.
    + split; [intros (m & H); discriminate|intros (_ & H & _); discriminate].
    + destruct (w && (function mod 2 =? 0)) eqn:W.
      * split; [intros (m & H); discriminate|]. intros (_ & _ & H). exfalso. apply H. lia.
      * split; [intros _; repeat split; lia|eauto].
Qed.

(** * The element count is stored in an int32 *)

Lemma size32_one_nonempty {A} (vs : list A) : size32 vs = 1 -> vs <> [].
Proof. intros H ->. discriminate. Qed.

(** the faithful model REFUTES "valid arguments yield exactly the supplied values" without the
    length < 2^31 premise: 2^32+1 booleans give an error-free BooleanItem of one element *)
Lemma count_wrap_bool n : Z.of_nat n = 4294967297 ->
  let it := new_boolean [ABools (repeat true n)] in
  error it = None /\ size_of it = 1 /\ length (bool_values it) = 1%nat.
Proof.
  intros Hn. cbv zeta. unfold new_boolean. cbn [concat_res bool_arg app].
  rewrite app_nil_r. unfold finish_bool.
  assert (E : size32 (repeat true n) = 1).
  { unfold size32. rewrite repeat_length, Hn. reflexivity. }
  rewrite E. cbn [error own_err size_of bool_values seen stored Z.eqb Pos.eqb].
  repeat split.
  destruct n as [|k]; [discriminate|]. reflexivity.
Qed.

Theorem count_wrap_refuted : exists vs : list bool,
  let it := new_boolean [ABools vs] in
  error it = None /\ length (bool_values it) <> length vs.
Proof.
  exists (repeat true (Z.to_nat 4294967297)).
  assert (Hn : Z.of_nat (Z.to_nat 4294967297) = 4294967297) by (apply Z2Nat.id; lia).
  destruct (count_wrap_bool _ Hn) as (E & _ & L). cbv zeta. split; [exact E|].
  rewrite L, repeat_length. intros C. apply (f_equal Z.of_nat) in C. rewrite Hn in C. discriminate.
Qed.

(** * Order and shape: every presentation of the same numbers gives the same item *)

Theorem shape_int w a1 a2 zs : denotes_all canon_dec a1 zs -> denotes_all canon_dec a2 zs ->
  new_int w a1 = new_int w a2.
Proof.
  intros H1 H2. destruct (valid_int_size w) eqn:V.
  - apply valid_int_size_iff in V. rewrite (new_int_denotes w a1 zs V H1), (new_int_denotes w a2 zs V H2).
    reflexivity.
  - unfold new_int. rewrite V. reflexivity.
Qed.

Theorem shape_uint w a1 a2 zs : denotes_all canon_udec a1 zs -> denotes_all canon_udec a2 zs ->
  Forall (fun z => 0 <= z) zs -> new_uint w a1 = new_uint w a2.
Proof.
  intros H1 H2 Hnn. destruct (valid_int_size w) eqn:V.
  - apply valid_int_size_iff in V.
    rewrite (new_uint_denotes w a1 zs V H1 Hnn), (new_uint_denotes w a2 zs V H2 Hnn). reflexivity.
  - unfold new_uint. rewrite V. reflexivity.
Qed.

Theorem shape_float pf w a1 a2 xs : fdenotes_all pf w a1 xs -> fdenotes_all pf w a2 xs ->
  new_float pf w a1 = new_float pf w a2.
Proof.
  intros H1 H2. destruct (valid_float_size w) eqn:V.
  - assert (Hw : w = 4 \/ w = 8) by (unfold valid_float_size in V; lia).
    rewrite (new_float_denotes pf w a1 xs Hw H1), (new_float_denotes pf w a2 xs Hw H2). reflexivity.
  - unfold new_float. rewrite V. reflexivity.
Qed.

Corollary shape_equal x y : x = y -> wf_item x -> error x = None -> equal x y = true.
Proof. intros <- W E. apply equal_refl; assumption. Qed.

Theorem shape_int_equal w a1 a2 zs : denotes_all canon_dec a1 zs -> denotes_all canon_dec a2 zs ->
  error (new_int w a1) = None -> equal (new_int w a1) (new_int w a2) = true.
Proof.
  intros H1 H2 E. apply shape_equal; [eapply shape_int; eassumption| |exact E].
  apply (leaf_constructors_wf (fun _ => None) w a1 [] 0).
Qed.

Theorem shape_uint_equal w a1 a2 zs : denotes_all canon_udec a1 zs -> denotes_all canon_udec a2 zs ->
  Forall (fun z => 0 <= z) zs ->
  error (new_uint w a1) = None -> equal (new_uint w a1) (new_uint w a2) = true.
Proof.
  intros H1 H2 Hnn E. apply shape_equal; [eapply shape_uint; eassumption| |exact E].
  apply (leaf_constructors_wf (fun _ => None) w a1 [] 0).
Qed.

Theorem shape_float_equal pf w a1 a2 xs : fdenotes_all pf w a1 xs -> fdenotes_all pf w a2 xs ->
  error (new_float pf w a1) = None -> equal (new_float pf w a1) (new_float pf w a2) = true.
Proof.
  intros H1 H2 E. apply shape_equal; [eapply shape_float; eassumption| |exact E].
  apply (leaf_constructors_wf pf w a1 [] 0).
Qed.

(** * The constructor fold's error is sticky *)

(** first error wins: once an argument has been refused, nothing that follows can clear it *)
Lemma concat_res_sticky {A B} (f : A -> res (list B)) pre a post e :
  f a = inl e -> exists e', concat_res f (pre ++ a :: post) = inl e'.
Proof. intros H. apply (concat_res_refuse f (pre ++ a :: post) a e); [apply in_elt|exact H]. Qed.

(** an invalid argument at ANY position of ANY argument list, whatever precedes and follows it *)
Theorem refusals_any_position pf w pre a post :
  (refused_int a -> error (new_int w (pre ++ a :: post)) <> None) /\
  (refused_uint a -> error (new_uint w (pre ++ a :: post)) <> None) /\
  (refused_float pf a -> error (new_float pf w (pre ++ a :: post)) <> None) /\
  (refused_bin a -> error (new_binary (pre ++ a :: post)) <> None) /\
  (refused_bool a -> error (new_boolean (pre ++ a :: post)) <> None).
Proof. apply refusals. apply in_elt. Qed.

(** ... and such an item is neither Equal to the item of the remaining arguments nor accepted by the
    message gate *)
Corollary forgotten_argument_impossible w pre a post stream function wb session sysbytes :
  refused_int a ->
  let it := new_int w (pre ++ a :: post) in
  equal it (new_int w (pre ++ post)) = false /\ equal (new_int w (pre ++ post)) it = false /\
  exists e, new_data_message stream function wb session sysbytes (Some it) = inl e.
Proof.
  intros Hr. cbv zeta.
  destruct (refusals_any_position (fun _ => None) w pre a post) as (Hi & _).
  specialize (Hi Hr).
  destruct (never_equal _ (new_int w (pre ++ post)) Hi) as (E1 & E2).
  repeat split; try assumption. apply refused. exact Hi.
Qed.
