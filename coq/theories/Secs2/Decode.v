(** Model of secs2.Decode / DecodeOwned (decode.go). The remaining input [bs] stands for
    [owned[pos:]]; [len(owned)-pos] is [length bs]. Every check is in the order the Go code
    performs it. Fuel is explicit; [ErrFuel] is excluded by the theorems. *)
From Coq Require Import ZArith List Bool.
From GoSecs Require Import Base.BytesBE Secs2.Item.
Import ListNotations.
Open Scope Z_scope.

Inductive derr :=
| ErrEndFormat    (* need format byte *)
| ErrZeroLen      (* length-byte count is zero *)
| ErrEndLength    (* truncated length bytes *)
| ErrDepth        (* nesting deeper than MaxListDepth *)
| ErrListCount    (* child count * 2 exceeds remaining bytes *)
| ErrEndPayload   (* truncated payload *)
| ErrMultiple     (* payload not a multiple of the element width *)
| ErrLocShort     (* localized string shorter than its 2-byte header *)
| ErrUnknownFc    (* unknown format code *)
| ErrFuel.

Inductive res (A : Type) :=
| Ok (a : A)
| Err (e : derr).
Arguments Ok {A} a.
Arguments Err {A} e.

(** [w]-byte big-endian elements of a payload; fuel = number of bytes is always enough. *)
Fixpoint elems (fuel : nat) (w : nat) (bs : list Z) : list Z :=
  match fuel with
  | O => []
  | S f => match bs with
           | [] => []
           | _ => be_dec (firstn w bs) :: elems f w (skipn w bs)
           end
  end.

Definition payload_elems (w : width) (p : list Z) : list Z := elems (length p) (wnat w) p.

Inductive numkind := KInt | KUint | KFloat.

Definition decode_num (k : numkind) (w : width) (len : Z) (bs : list Z) : res (item * list Z) :=
  if negb (len mod wz w =? 0) then Err ErrMultiple
  else match split_at len bs with
       | None => Err ErrEndPayload
       | Some (p, r) =>
           let us := payload_elems w p in
           Ok (match k with
               | KInt => IInt w (map (to_signed (wmod w)) us)
               | KUint => IUint w us
               | KFloat => IFloat w us
               end, r)
       end.

Definition decode_leaf (fc len : Z) (bs : list Z) : res (item * list Z) :=
  if fc =? fc_ascii then
    match split_at len bs with
    | None => Err ErrEndPayload
    | Some (p, r) => Ok (IAscii p, r)
    end
  else if fc =? fc_jis8 then
    match split_at len bs with
    | None => Err ErrEndPayload
    | Some (p, r) => Ok (IJis8 p, r)
    end
  else if fc =? fc_binary then
    match split_at len bs with
    | None => Err ErrEndPayload
    | Some (p, r) => Ok (IBinary p, r)
    end
  else if fc =? fc_boolean then
    match split_at len bs with
    | None => Err ErrEndPayload
    | Some (p, r) => Ok (IBoolean (map byte_bool p), r)
    end
  else if fc =? fc_localized then
    if len <? 2 then Err ErrLocShort
    else match split_at len bs with
         | None => Err ErrEndPayload
         | Some (p, r) => Ok (ILocalized (be_dec (firstn 2 p)) (skipn 2 p), r)
         end
  else if fc =? fc_int W1 then decode_num KInt W1 len bs
  else if fc =? fc_int W2 then decode_num KInt W2 len bs
  else if fc =? fc_int W4 then decode_num KInt W4 len bs
  else if fc =? fc_int W8 then decode_num KInt W8 len bs
  else if fc =? fc_uint W1 then decode_num KUint W1 len bs
  else if fc =? fc_uint W2 then decode_num KUint W2 len bs
  else if fc =? fc_uint W4 then decode_num KUint W4 len bs
  else if fc =? fc_uint W8 then decode_num KUint W8 len bs
  else if fc =? fc_float W4 then decode_num KFloat W4 len bs
  else if fc =? fc_float W8 then decode_num KFloat W8 len bs
  else Err ErrUnknownFc.

Fixpoint decode_item (fuel : nat) (depth : Z) (bs : list Z) {struct fuel} : res (item * list Z) :=
  match fuel with
  | O => Err ErrFuel
  | S f =>
      match bs with
      | [] => Err ErrEndFormat
      | fb :: r1 =>
          let fc := fb / 4 in
          let nl := fb mod 4 in
          if nl =? 0 then Err ErrZeroLen
          else match split_at nl r1 with
               | None => Err ErrEndLength
               | Some (lb, r2) =>
                   let len := be_dec lb in
                   if fc =? fc_list then
                     if depth + 1 >? max_depth then Err ErrDepth
                     else if negb (has_len (len * 2) r2) then Err ErrListCount
                     else match decode_children f (depth + 1) len r2 with
                          | Ok (cs, r3) => Ok (IList cs, r3)
                          | Err e => Err e
                          end
                   else decode_leaf fc len r2
               end
      end
  end
with decode_children (fuel : nat) (depth : Z) (n : Z) (bs : list Z) {struct fuel}
  : res (list item * list Z) :=
  match fuel with
  | O => Err ErrFuel
  | S f =>
      if n <=? 0 then Ok ([], bs)
      else match decode_item f depth bs with
           | Err e => Err e
           | Ok (c, r) =>
               match decode_children f depth (n - 1) r with
               | Err e => Err e
               | Ok (cs, r') => Ok (c :: cs, r')
               end
           end
  end.

(** secs2.Decode / secs2.DecodeOwned: empty input yields the EmptyItem. *)
Definition decode (bs : list Z) : res (item * list Z) :=
  match bs with
  | [] => Ok (IEmpty, [])
  | _ => decode_item (S (length bs)) 0 bs
  end.

(** ToBytes of a decoded item: the retained raw bytes = the consumed prefix. *)
Definition consumed (bs rest : list Z) : list Z := firstn (length bs - length rest) bs.
