(** Proofs for the once-cell LTS: in every interleaving of any number of readers the body runs at most
    once, nobody reads before it has run, and every read returns that single run's result. *)
From Coq Require Import ZArith Bool List Lia PeanoNat.
From GoSecs Require Import Alias.Once.
Import ListNotations.

Definition in_critical (p : pc) : Prop := p = Locked \/ p = RanBody \/ p = StoredDone.

Record OInv (s : ostate) (reads : list Z) : Prop := {
  J_hold : forall t, in_critical (pcs s t) -> holder s = Some t;
  J_runs : runs s <= 1;
  J_res0 : runs s = 0 -> result s = None;
  J_res1 : runs s = 1 -> exists v, result s = Some v;
  J_done : done s = true -> runs s = 1;
  J_ran : forall t, pcs s t = RanBody -> runs s = 1 /\ done s = false;
  J_once : runs s = 1 -> done s = true \/ exists t, pcs s t = RanBody;
  J_stored : forall t, pcs s t = StoredDone -> done s = true;
  J_ret : forall t, pcs s t = Returned -> done s = true;
  J_reads : Forall (fun r => result s = Some r) reads
}.

Lemma OInv_init : OInv oinit [].
Proof.
  constructor; cbn; intros; try discriminate; try lia; try reflexivity; try constructor.
  - destruct H as [H|[H|H]]; discriminate.
Qed.

Lemma upd_same f t p : upd f t p t = p.
Proof. unfold upd. rewrite Nat.eqb_refl. reflexivity. Qed.

Lemma upd_other f t p u : u <> t -> upd f t p u = f u.
Proof. unfold upd. intros H. apply Nat.eqb_neq in H. rewrite H. reflexivity. Qed.

Ltac upd_cases u t :=
  destruct (Nat.eq_dec u t) as [->|?]; [rewrite upd_same in *|rewrite upd_other in * by assumption].

Lemma exec_inv s a s' ov reads : OInv s reads -> exec s a = Some (s', ov) ->
  OInv s' (match ov with Some v => reads ++ [v] | None => reads end) /\
  runs s <= runs s' /\
  (forall v, ov = Some v -> result s = Some v /\ done s = true).
Proof.
  intros I E. destruct I as [Jh Jr J0 J1 Jd Jn Jo Js Jt Jrd].
  destruct a as [t k v]. unfold exec in E. cbn [a_tid a_kind a_val] in E.
  destruct k; destruct (pcs s t) eqn:Pt; try discriminate.
  - (* AFast at Idle *)
    inversion E; subst; clear E. split; [|split; [cbn; lia|intros; discriminate]].
    constructor; cbn; try assumption.
    + intros u Hu. upd_cases u t.
      * destruct (done s); destruct Hu as [H|[H|H]]; discriminate.
      * eauto.
    + intros u Hu. upd_cases u t; [destruct (done s); discriminate|apply (Jn u Hu)].
    + intros Hr. destruct (Jo Hr) as [D|(u & Hu)]; [left; exact D|right].
      exists u. rewrite upd_other; [exact Hu|]. intros ->. congruence.
    + intros u Hu. upd_cases u t; [destruct (done s); discriminate|eauto].
    + intros u Hu. upd_cases u t; [destruct (done s) eqn:D; [reflexivity|discriminate]|eauto].
  - (* ALock at Slow *)
    destruct (holder s) eqn:H; [discriminate|]. inversion E; subst; clear E.
    assert (Nocrit : forall u, ~ in_critical (pcs s u)).
    { intros u Hu. specialize (Jh u Hu). congruence. }
    split; [|split; [cbn; lia|intros; discriminate]].
    constructor; cbn; try assumption.
    + intros u Hu. upd_cases u t; [reflexivity|]. exfalso. apply (Nocrit u Hu).
    + intros u Hu. upd_cases u t; [discriminate|eauto].
    + intros Hr. destruct (Jo Hr) as [D|(u & Hu)]; [left; exact D|].
      exfalso. apply (Nocrit u). right; left; exact Hu.
    + intros u Hu. upd_cases u t; [discriminate|eauto].
    + intros u Hu. upd_cases u t; [discriminate|eauto].
  - (* ACheck at Locked *)
    assert (Ht : holder s = Some t) by (apply Jh; left; exact Pt).
    destruct (done s) eqn:D.
    + inversion E; subst; clear E. split; [|split; [cbn; lia|intros; discriminate]].
      constructor; cbn; try assumption.
      * intros u Hu. upd_cases u t; [exact Ht|eauto].
      * intros u Hu. upd_cases u t; [discriminate|eauto].
      * intros Hr. left. reflexivity.
      * intros u Hu. reflexivity.
      * intros; reflexivity.
    + (* the body runs: it has not run before *)
      assert (R0 : runs s = 0).
      { destruct (Nat.eq_dec (runs s) 0) as [Z0|NZ]; [exact Z0|exfalso].
        assert (R1 : runs s = 1) by lia. destruct (Jo R1) as [D'|(u & Hu)]; [congruence|].
        assert (Hh : holder s = Some u) by (apply Jh; right; left; exact Hu).
        assert (u = t) by congruence. subst u. congruence. }
      inversion E; subst; clear E. split; [|split; [cbn; lia|intros; discriminate]].
      constructor; cbn; try lia.
      * intros u Hu. upd_cases u t; [exact Ht|eauto].
      * intros _. eauto.
      * intros _. right. exists t. apply upd_same.
      * intros u Hu. upd_cases u t; [discriminate|]. specialize (Js u Hu). congruence.
      * intros u Hu. upd_cases u t; [discriminate|]. specialize (Jt u Hu). congruence.
      * (* nobody has read yet: the result was None *)
        rewrite (J0 R0) in Jrd. destruct reads as [|r rs]; [constructor|].
        inversion Jrd; discriminate.
  - (* AStore at RanBody *)
    inversion E; subst; clear E. destruct (Jn t Pt) as (R1 & D0).
    assert (Ht : holder s = Some t) by (apply Jh; right; left; exact Pt).
    split; [|split; [cbn; lia|intros; discriminate]].
    constructor; cbn; try assumption.
    + intros u Hu. upd_cases u t; [exact Ht|eauto].
    + intros _. exact R1.
    + intros u Hu. upd_cases u t; [discriminate|]. exfalso.
      assert (holder s = Some u) by (apply Jh; right; left; exact Hu). congruence.
    + intros _. left. reflexivity.
    + intros; reflexivity.
    + intros; reflexivity.
  - (* AUnlock at StoredDone *)
    inversion E; subst; clear E.
    assert (Ht : holder s = Some t) by (apply Jh; right; right; exact Pt).
    assert (D : done s = true) by (exact (Js t Pt)).
    split; [|split; [cbn; lia|intros; discriminate]].
    constructor; cbn; try assumption.
    + intros u Hu. upd_cases u t; [destruct Hu as [H|[H|H]]; discriminate|].
      exfalso. assert (holder s = Some u) by (apply Jh; exact Hu). congruence.
    + intros u Hu. upd_cases u t; [discriminate|eauto].
    + intros _. left. exact D.
    + intros u Hu. exact D.
    + intros u Hu. exact D.
  - (* ARead at Returned *)
    inversion E; subst; clear E.
    assert (D : done s' = true) by (exact (Jt t Pt)).
    destruct (J1 (Jd D)) as (v0 & Hv0).
    split; [|split; [lia|]].
    + rewrite Hv0. constructor; try assumption.
      apply Forall_app. split; [exact Jrd|]. constructor; [exact Hv0|constructor].
    + intros v1 Hv1. split; [exact Hv1|exact D].
  - (* AAgain at Returned *)
    inversion E; subst; clear E.
    assert (D : done s = true) by (exact (Jt t Pt)).
    split; [|split; [cbn; lia|intros; discriminate]].
    constructor; cbn; try assumption.
    + intros u Hu. upd_cases u t; [destruct Hu as [H|[H|H]]; discriminate|eauto].
    + intros u Hu. upd_cases u t; [discriminate|eauto].
    + intros _. left. exact D.
    + intros u Hu. exact D.
    + intros u Hu. exact D.
Qed.

Lemma orun_inv acts : forall s reads s' reads', OInv s reads -> orun s acts reads = Some (s', reads') ->
  OInv s' reads'.
Proof.
  induction acts as [|a r IH]; intros s reads s' reads' I H; cbn in H.
  - inversion H; subst. exact I.
  - destruct (exec s a) as [[s1 ov]|] eqn:E; [|discriminate].
    destruct (exec_inv s a s1 ov reads I E) as (I1 & _ & _).
    destruct ov as [v|]; eapply IH; eassumption.
Qed.

(** C12_once: for EVERY schedule of EVERY number of reader threads (including threads that call Do
    again and again), the body has run at most once, and all values read are that run's result. *)
Theorem once_all_schedules acts s reads :
  orun oinit acts [] = Some (s, reads) ->
  runs s <= 1 /\
  (reads <> [] -> runs s = 1) /\
  (exists v, Forall (fun r => r = v) reads) /\
  all_same reads = true.
Proof.
  intros H. pose proof (orun_inv acts oinit [] s reads OInv_init H) as I.
  destruct I as [Jh Jr J0 J1 Jd Jn Jo Js Jt Jrd].
  assert (Hsame : exists v, Forall (fun r => r = v) reads).
  { destruct (result s) as [v|] eqn:R.
    - exists v. eapply Forall_impl; [|exact Jrd]. intros r Hr. congruence.
    - exists 0%Z. eapply Forall_impl; [|exact Jrd]. intros r Hr. discriminate. }
  repeat split; try assumption.
  - intros Hne. destruct reads as [|r rs]; [congruence|]. inversion Jrd as [|? ? Hr _]; subst.
    destruct (Nat.eq_dec (runs s) 0) as [Z0|NZ]; [rewrite (J0 Z0) in Hr; discriminate|lia].
  - destruct Hsame as (v & Hv). clear - Hv. induction reads as [|a [|b r] IH]; try reflexivity.
    inversion Hv as [|? ? Ha Hr]; subst. inversion Hr as [|? ? Hb _]; subst.
    cbn [all_same]. rewrite Z.eqb_refl. cbn. apply IH. exact Hr.
Qed.

(** nobody gets past Do before the body has run and its completion was published *)
Theorem no_early_read acts s reads t :
  orun oinit acts [] = Some (s, reads) -> pcs s t = Returned -> done s = true /\ runs s = 1.
Proof.
  intros H Ht. pose proof (orun_inv acts oinit [] s reads OInv_init H) as I.
  destruct I. split; [exact (J_ret0 t Ht)|apply J_done0; exact (J_ret0 t Ht)].
Qed.

(** non-vacuity: two threads racing on the first call; the loser reads the winner's result *)
Example once_two_threads :
  let A k := {| a_tid := 0; a_kind := k; a_val := 41 |} in
  let B k := {| a_tid := 1; a_kind := k; a_val := 42 |} in
  exists s, orun oinit [A AFast; B AFast; B ALock; B ACheck; B AStore; B AUnlock; A ALock; A ACheck;
                        A AUnlock; A ARead; B ARead] [] = Some (s, [42%Z; 42%Z]) /\ runs s = 1.
Proof. cbv zeta. eexists. split; reflexivity. Qed.
