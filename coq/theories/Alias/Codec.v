(** Caller-side mutable handles on top of the ownership heap (C12): [hsms.DataMessageCodec] (a
    pointer slot the caller can re-point) and [hsms.DataMessageBuilder] (a scratch record).  They are
    NOT objects: the only mutator-looking public methods on items and messages —
    [DataMessageCodec.UnmarshalBinary] (pointer receiver), the exported field [DataMessageCodec.Message], and
    [DataMessageBuilder.WithStream/WithFunction/WithWaitBit/WithItem/WithSessionID/
    WithSystemBytes/WithID] (pointer receiver) — assign to the HANDLE.  [UnmarshalBinary] decodes (copying) into a FRESH
    message object and re-points the codec's slot; [Build] constructs a fresh message.  Nothing
    previously reachable is written. *)
From Coq Require Import ZArith Bool List Lia PeanoNat.
From GoSecs Require Import Alias.Heap Alias.HeapProofs.
Import ListNotations.

Record cstate : Type := { cs_st : state; cs_codecs : list (option nat) }.  (* slot -> wrapped object *)

Definition cinit : cstate := {| cs_st := init; cs_codecs := [] |}.

Inductive cop : Type :=
| CBase (p : op)
| CCodec (o : option nat)                               (* msg.Codec() / &DataMessageCodec{Message: msg} / zero value *)
| CUnmarshal (k cv : nat) (kd : lkind) (skip hl : nat)  (* c.UnmarshalBinary(frame): copying decode, then re-point slot k *)
| CBuild (o : nat).                                     (* builder.Build(): a fresh message sharing nothing mutable with the handle *)

Fixpoint set_slot (l : list (option nat)) (k : nat) (x : option nat) : list (option nat) :=
  match l, k with
  | [], _ => []
  | _ :: r, O => x :: r
  | a :: r, S j => a :: set_slot r j x
  end.

Definition cstep (cs : cstate) (p : cop) : cstate :=
  match p with
  | CBase q => {| cs_st := step (cs_st cs) q; cs_codecs := cs_codecs cs |}
  | CCodec o => {| cs_st := cs_st cs; cs_codecs := cs_codecs cs ++ [o] |}
  | CUnmarshal k cv kd skip hl =>
    let st' := step (cs_st cs) (ODecode cv kd skip hl) in
    let fresh := length (st_objs (cs_st cs)) in
    {| cs_st := st';
       cs_codecs := if Nat.ltb fresh (length (st_objs st')) then set_slot (cs_codecs cs) k (Some fresh)
                    else cs_codecs cs |}
  | CBuild o => {| cs_st := step (cs_st cs) (OShare o); cs_codecs := cs_codecs cs |}
  end.

Definition crun (cs : cstate) (ps : list cop) : cstate := fold_left cstep ps cs.

(** the heap-level operation a handle operation performs *)
Definition erase (p : cop) : list op :=
  match p with
  | CBase q => [q]
  | CCodec _ => []
  | CUnmarshal _ cv kd skip hl => [ODecode cv kd skip hl]
  | CBuild o => [OShare o]
  end.

Definition c_owned (p : cop) : bool := match p with CBase q => is_owned q | _ => false end.

Lemma crun_erase ps : forall cs, cs_st (crun cs ps) = run (cs_st cs) (flat_map erase ps).
Proof.
  induction ps as [|p r IH]; intros cs; [reflexivity|].
  unfold crun in *. cbn [fold_left flat_map]. rewrite IH. unfold run. rewrite fold_left_app.
  destruct p; reflexivity.
Qed.

Lemma erase_not_owned ps : forallb (fun p => negb (c_owned p)) ps = true ->
  forallb (fun p => negb (is_owned p)) (flat_map erase ps) = true.
Proof.
  induction ps as [|p r IH]; intros H; [reflexivity|]. cbn in H. apply andb_prop in H. destruct H as (Hp & Hr).
  cbn [flat_map]. rewrite forallb_app, (IH Hr), andb_true_r. destruct p; cbn in *; try reflexivity.
  rewrite Hp. reflexivity.
Qed.

(** Handle operations (codec re-pointing, builder reuse) included: every observation of every
    object — in particular of the message a codec wrapped BEFORE UnmarshalBinary and of every copy
    derived from it before or after — equals its observation at creation. *)
Theorem codec_noninterference pre post o g :
  forallb (fun p => negb (c_owned p)) (pre ++ post) = true ->
  o < length (st_objs (cs_st (crun cinit pre))) ->
  obs (cs_st (crun cinit (pre ++ post))) o g = obs (cs_st (crun cinit pre)) o g.
Proof.
  intros F L. rewrite !crun_erase in *. rewrite flat_map_app.
  apply noninterference; [|exact L]. rewrite <- flat_map_app. apply erase_not_owned. exact F.
Qed.

Lemma set_slot_same l k x : k < length l -> nth_error (set_slot l k x) k = Some x.
Proof. revert k; induction l as [|a r IH]; intros k H; cbn in *; [lia|]. destruct k; [reflexivity|]. apply IH. lia. Qed.

(** UnmarshalBinary re-points the slot at a FRESH object: the index it stores did not exist before,
    so it is none of the previously reachable messages *)
Theorem unmarshal_rebinds_to_fresh cs k cv kd skip hl v :
  k < length (cs_codecs cs) -> caller_view (cs_st cs) cv = Some v ->
  let cs' := cstep cs (CUnmarshal k cv kd skip hl) in
  nth_error (cs_codecs cs') k = Some (Some (length (st_objs (cs_st cs)))) /\
  length (st_objs (cs_st cs')) = S (length (st_objs (cs_st cs))).
Proof.
  intros Hk Hv. cbv zeta. unfold cstep. cbn [step]. rewrite Hv.
  destruct (alloc (st_heap (cs_st cs)) (Obj (length (st_bodies (cs_st cs)))) (read (st_heap (cs_st cs)) v)) as [h1 a].
  destruct (alloc h1 _ _) as [h2 t]. cbn [cs_st cs_codecs add_object st_objs].
  rewrite app_length. cbn [length].
  replace (Nat.ltb (length (st_objs (cs_st cs))) (length (st_objs (cs_st cs)) + 1)) with true
    by (symmetry; apply Nat.ltb_lt; lia).
  split; [apply set_slot_same; exact Hk|lia].
Qed.
