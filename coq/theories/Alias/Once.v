(** The lazy body of a message as a once-cell (C12_once).

    Both lazy computations of the message layer — [treeBody.encoded] (internal/wire/body.go: encode
    the item tree) and [DataMessage.decode] (hsms/data_msg.go: decode the raw frame body) — run
    under a [sync.Once] that lives in a heap cell SHARED by every re-stamped copy of the message
    ([WithSessionID] / [WithSystemBytes] copy the pointer, never the Once). The model is the
    interleaving LTS of any number of reader threads executing Go's [sync.Once.Do]:

        if done.Load() == 0 { m.Lock(); if done.Load() == 0 { f(); done.Store(1) }; m.Unlock() }

    followed by reads of the memoised result. Every atomic step of every thread is an action; the
    body's result value is chosen by the environment at the step that runs it. *)
From Coq Require Import ZArith Bool List Lia PeanoNat.
Import ListNotations.

Inductive pc : Type :=
| Idle          (* before Do *)
| Slow          (* saw done = 0 on the fast path, about to lock *)
| Locked        (* holds the mutex, about to re-check *)
| RanBody       (* ran the body, about to store done *)
| StoredDone    (* about to unlock (either stored done, or saw done = 1 under the lock) *)
| Returned.     (* Do has returned: may read the result *)

Record ostate : Type := {
  done : bool;
  holder : option nat;
  runs : nat;                 (* how many times the body has run *)
  result : option Z;
  pcs : nat -> pc
}.

Definition oinit : ostate :=
  {| done := false; holder := None; runs := 0; result := None; pcs := fun _ => Idle |}.

Inductive akind : Type := AFast | ALock | ACheck | AStore | AUnlock | ARead | AAgain.

(** an action: thread, kind, and (for the step that runs the body) the value the body produces *)
Record action : Type := { a_tid : nat; a_kind : akind; a_val : Z }.

Definition upd (f : nat -> pc) (t : nat) (p : pc) : nat -> pc := fun u => if Nat.eqb u t then p else f u.

Definition pc_eqb (a b : pc) : bool :=
  match a, b with
  | Idle, Idle | Slow, Slow | Locked, Locked | RanBody, RanBody | StoredDone, StoredDone | Returned, Returned => true
  | _, _ => false
  end.

(** [exec s a] = the successor state and the value read (for ARead), or None when [a] is not enabled *)
Definition exec (s : ostate) (a : action) : option (ostate * option Z) :=
  let t := a_tid a in
  let set p := {| done := done s; holder := holder s; runs := runs s; result := result s; pcs := upd (pcs s) t p |} in
  match a_kind a, pcs s t with
  | AFast, Idle => Some (set (if done s then Returned else Slow), None)
  | ALock, Slow =>
    match holder s with
    | None => Some ({| done := done s; holder := Some t; runs := runs s; result := result s;
                       pcs := upd (pcs s) t Locked |}, None)
    | Some _ => None
    end
  | ACheck, Locked =>
    if done s then Some (set StoredDone, None)
    else Some ({| done := false; holder := holder s; runs := S (runs s); result := Some (a_val a);
                  pcs := upd (pcs s) t RanBody |}, None)
  | AStore, RanBody =>
    Some ({| done := true; holder := holder s; runs := runs s; result := result s;
             pcs := upd (pcs s) t StoredDone |}, None)
  | AUnlock, StoredDone =>
    Some ({| done := done s; holder := None; runs := runs s; result := result s;
             pcs := upd (pcs s) t Returned |}, None)
  | ARead, Returned => Some (s, result s)
  | AAgain, Returned => Some (set Idle, None)
  | _, _ => None
  end.

(** run a schedule; collect the values the readers saw *)
Fixpoint orun (s : ostate) (acts : list action) (reads : list Z) : option (ostate * list Z) :=
  match acts with
  | [] => Some (s, reads)
  | a :: r =>
    match exec s a with
    | None => None
    | Some (s', None) => orun s' r reads
    | Some (s', Some v) => orun s' r (reads ++ [v])
    end
  end.

(** monitor for recorded histories: every reader saw the same result *)
Fixpoint all_same (l : list Z) : bool :=
  match l with
  | [] => true
  | [_] => true
  | a :: ((b :: _) as r) => Z.eqb a b && all_same r
  end.
