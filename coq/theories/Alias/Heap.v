(** Ownership-heap model for C12 (items and messages are immutable and alias-free).

    A heap of byte cells, each tagged with an owner: the CALLER (any slice or array the application
    passed in or got back) or an OBJECT (storage retained by an item / message).  A Go slice is a
    [view] (cell, offset, length).  The API operations follow the copying discipline the code
    documents:

    - constructors ([New*Item], [NewDataMessage], [With*], [Derive().Build()]) COPY every slice
      argument into object-owned cells; array arguments ([4]byte, [10]byte) are values;
    - [secs2.Decode] clones its input, [hsms.DecodeHSMSMessage] / [DecodeHSMSPayload] copy the frame;
    - accessors and serialisers ([To*], [ToBytes], [HeaderBytes], [SystemBytes], [MarshalBinary])
      return FRESH caller-owned cells (or values);
    - [AppendTo] / [AppendBinaryTo] / [AppendBodyTo] write only into the caller's destination;
    - re-stamped and derived copies SHARE one body (its cells AND its encode memo);
    - the lazy encode memo of a constructed message body ([treeBody.enc]) is an OBJECT-owned cell,
      allocated by whichever serialiser call comes first; that call, like every later one, hands the
      caller a fresh caller-owned copy (or appends into the caller's destination) — never the memo;
    - [DecodeOwned] / [DecodeOwnedHSMSPayload] transfer ownership: the object's views alias the
      caller's cell (binary and string leaves alias the payload, numeric and boolean leaves build a
      typed copy). The property statement excludes these entry points; they are in the model as the
      positive control (mutating the buffer afterwards DOES change observations, exactly where the
      model says).

    The caller can overwrite any element of any buffer it holds.  No proofs here. *)
From Coq Require Import ZArith Bool List Lia PeanoNat.
Import ListNotations.

Inductive owner : Type := Caller | Obj (id : nat).

Record cell : Type := { c_owner : owner; c_data : list Z }.

Definition heap : Type := list cell.       (* address = index; allocation appends *)

Record view : Type := { v_cell : nat; v_off : nat; v_len : nat }.

(** the lazy encode memo of a body *)
Inductive memo : Type :=
| MNone                 (* no memo: items, control messages, raw-frame (decoded) bodies *)
| MUnfired              (* constructed message body, nobody has serialised it yet *)
| MFired (v : view).    (* the memoised encoding *)

(** a body retains views, arranged in observation groups: group 0 = what the value accessors read
    (To*, *At, iterators, Size, ToSML, Item()), group 1 = what the serialisers read (ToBytes,
    AppendTo, AppendBodyTo, EncodedLen, MarshalBinary) — through the memo once it has fired *)
Record body : Type := { b_groups : list (list view); b_memo : memo }.

(** an object (item or message) is a reference to a body; re-stamped / derived copies share it *)
Record state : Type := {
  st_heap : heap;
  st_bodies : list body;
  st_objs : list nat;
  st_caller : list view        (* the buffers the caller holds, in order of appearance *)
}.

Definition init : state := {| st_heap := []; st_bodies := []; st_objs := []; st_caller := [] |}.

Inductive lkind : Type :=
| KAlias     (* binary / ASCII / JIS-8 / localized leaf: the value aliases the decode buffer *)
| KTyped.    (* numeric / boolean leaf, or a list: typed values are built, only raw aliases *)

Inductive op : Type :=
| ONew (data : list Z)
| OWrite (cv i : nat) (v : Z)
| OConstruct (cvs : list nat) (lazy : bool)   (* lazy = a data message: body encoded on first use *)
| ODecode (cv : nat) (k : lkind) (skip hl : nat)
| ODecodeOwned (cv : nat) (k : lkind) (skip hl : nat)
| OGet (o g : nat)
| OAppend (o g cv : nat)
| OShare (o : nat).

Definition is_owned (p : op) : bool := match p with ODecodeOwned _ _ _ _ => true | _ => false end.

(** ** reading and writing *)

Definition sub {A : Type} (l : list A) (off len : nat) : list A := firstn len (skipn off l).

Definition cell_data (h : heap) (a : nat) : list Z :=
  match nth_error h a with Some c => c_data c | None => [] end.

Definition cell_owner (h : heap) (a : nat) : option owner :=
  match nth_error h a with Some c => Some (c_owner c) | None => None end.

Definition read (h : heap) (v : view) : list Z := sub (cell_data h (v_cell v)) (v_off v) (v_len v).

Fixpoint set_nth {A : Type} (l : list A) (i : nat) (x : A) : list A :=
  match l, i with
  | [], _ => []
  | _ :: r, O => x :: r
  | a :: r, S j => a :: set_nth r j x
  end.

Definition update_cell (h : heap) (a : nat) (f : list Z -> list Z) : heap :=
  match nth_error h a with
  | Some c => set_nth h a {| c_owner := c_owner c; c_data := f (c_data c) |}
  | None => h
  end.

Definition alloc (h : heap) (o : owner) (d : list Z) : heap * nat :=
  (h ++ [{| c_owner := o; c_data := d |}], length h).

Definition whole (a : nat) (n : nat) : view := {| v_cell := a; v_off := 0; v_len := n |}.

Definition group (b : body) (g : nat) : list view := nth g (b_groups b) [].

Definition obs_body (h : heap) (b : body) (g : nat) : list Z :=
  match g, b_memo b with
  | 1, MFired m => read h m
  | _, _ => flat_map (read h) (group b g)
  end.

Definition body_of (st : state) (o : nat) : option body :=
  match nth_error (st_objs st) o with
  | Some bi => nth_error (st_bodies st) bi
  | None => None
  end.

(** observation of group [g] of object [o] *)
Definition obs (st : state) (o g : nat) : list Z :=
  match body_of st o with
  | Some b => obs_body (st_heap st) b g
  | None => []
  end.

(** ** the operations *)

(** copy each caller buffer into a fresh cell owned by object [id] *)
Fixpoint copy_in (h : heap) (id : nat) (vs : list view) : heap * list view :=
  match vs with
  | [] => (h, [])
  | v :: r =>
    let d := read h v in
    let '(h1, a) := alloc h (Obj id) d in
    let '(h2, ws) := copy_in h1 id r in
    (h2, whole a (length d) :: ws)
  end.

Definition caller_view (st : state) (cv : nat) : option view := nth_error (st_caller st) cv.

Fixpoint pick {A : Type} (l : list A) (ix : list nat) : list A :=
  match ix with
  | [] => []
  | i :: r => match nth_error l i with Some a => a :: pick l r | None => pick l r end
  end.

(** views of a decoded object over the buffer cell [a] of length [n] *)
Definition decoded_groups (k : lkind) (a n skip hl : nat) (typed_cell : nat) : list (list view) :=
  let raw := {| v_cell := a; v_off := skip; v_len := n - skip |} in
  let payload := n - skip - hl in
  match k with
  | KAlias => [[{| v_cell := a; v_off := skip + hl; v_len := payload |}]; [raw]]
  | KTyped => [[whole typed_cell payload]; [raw]]
  end.

(** a serialiser call on object [o]: if its body's memo has not fired, encode into a fresh
    OBJECT-owned cell and keep that as the memo *)
Definition fire (st : state) (o g : nat) : state :=
  if negb (Nat.eqb g 1) then st else
  match nth_error (st_objs st) o with
  | Some bi =>
    match nth_error (st_bodies st) bi with
    | Some b =>
      match b_memo b with
      | MUnfired =>
        let d := flat_map (read (st_heap st)) (group b 1) in
        let '(h1, a) := alloc (st_heap st) (Obj bi) d in
        {| st_heap := h1;
           st_bodies := set_nth (st_bodies st) bi {| b_groups := b_groups b; b_memo := MFired (whole a (length d)) |};
           st_objs := st_objs st; st_caller := st_caller st |}
      | _ => st
      end
    | None => st
    end
  | None => st
  end.

Definition add_object (st : state) (h : heap) (b : body) : state :=
  {| st_heap := h; st_bodies := st_bodies st ++ [b]; st_objs := st_objs st ++ [length (st_bodies st)];
     st_caller := st_caller st |}.

Definition step (st : state) (p : op) : state :=
  let h := st_heap st in
  let id := length (st_bodies st) in
  match p with
  | ONew d =>
    let '(h1, a) := alloc h Caller d in
    {| st_heap := h1; st_bodies := st_bodies st; st_objs := st_objs st; st_caller := st_caller st ++ [whole a (length d)] |}
  | OWrite cv i x =>
    match caller_view st cv with
    | Some v =>
      if Nat.ltb i (v_len v) then
        {| st_heap := update_cell h (v_cell v) (fun d => set_nth d (v_off v + i) x);
           st_bodies := st_bodies st; st_objs := st_objs st; st_caller := st_caller st |}
      else st
    | None => st
    end
  | OConstruct cvs lazy =>
    let '(h1, ws) := copy_in h id (pick (st_caller st) cvs) in
    add_object st h1 {| b_groups := [ws; ws]; b_memo := if lazy then MUnfired else MNone |}
  | ODecode cv k skip hl =>
    match caller_view st cv with
    | Some v =>
      let d := read h v in
      let '(h1, a) := alloc h (Obj id) d in                       (* the clone *)
      let '(h2, t) := alloc h1 (Obj id) (sub d (skip + hl) (length d - skip - hl)) in   (* typed values *)
      add_object st h2 {| b_groups := decoded_groups k a (length d) skip hl t; b_memo := MNone |}
    | None => st
    end
  | ODecodeOwned cv k skip hl =>
    match caller_view st cv with
    | Some v =>
      let d := read h v in
      let '(h1, t) := alloc h (Obj id) (sub d (skip + hl) (length d - skip - hl)) in
      let gs := decoded_groups k (v_cell v) (v_len v) skip hl t in
      (* the body's views alias the CALLER's cell, shifted by the caller view's offset *)
      let shift := map (map (fun w => if Nat.eqb (v_cell w) (v_cell v)
                                       then {| v_cell := v_cell w; v_off := v_off v + v_off w; v_len := v_len w |}
                                       else w)) gs in
      add_object st h1 {| b_groups := shift; b_memo := MNone |}
    | None => st
    end
  | OGet o g =>
    let st1 := fire st o g in
    let d := obs st1 o g in
    let '(h1, a) := alloc (st_heap st1) Caller d in
    {| st_heap := h1; st_bodies := st_bodies st1; st_objs := st_objs st1;
       st_caller := st_caller st1 ++ [whole a (length d)] |}
  | OAppend o g cv =>
    let st1 := fire st o g in
    match caller_view st1 cv with
    | Some v =>
      (* append writes behind the destination's elements, inside the caller's cell *)
      let d := obs st1 o g in
      {| st_heap := update_cell (st_heap st1) (v_cell v) (fun old => firstn (v_off v + v_len v) old ++ d);
         st_bodies := st_bodies st1; st_objs := st_objs st1;
         st_caller := st_caller st1 ++ [{| v_cell := v_cell v; v_off := v_off v; v_len := v_len v + length d |}] |}
    | None => st1
    end
  | OShare o =>
    match nth_error (st_objs st) o with
    | Some bi => {| st_heap := h; st_bodies := st_bodies st; st_objs := st_objs st ++ [bi]; st_caller := st_caller st |}
    | None => st
    end
  end.

Definition run (st : state) (ops : list op) : state := fold_left step ops st.

(** all observations of all objects, for the correspondence driver *)
Definition obs_all (st : state) : list (list Z * list Z) :=
  map (fun o => (obs st o 0, obs st o 1)) (seq 0 (length (st_objs st))).
