(** Proofs for the ownership-heap model: non-interference of caller writes and API calls with every
    observation of every object, for all operation sequences that avoid the ownership-transferring
    entry points; and the positive control (ownership transfer does interfere). *)
From Coq Require Import ZArith Bool List Lia PeanoNat.
From GoSecs Require Import Alias.Heap.
Import ListNotations.

(** * heap frames *)

Definition obj_owned (h : heap) (v : view) : Prop := exists id, cell_owner h (v_cell v) = Some (Obj id).
Definition caller_owned (h : heap) (v : view) : Prop := cell_owner h (v_cell v) = Some Caller.

(** [h'] extends [h]: owners never change, object-owned cells keep their contents *)
Definition preserves (h h' : heap) : Prop :=
  forall a o, cell_owner h a = Some o ->
    cell_owner h' a = Some o /\ (forall id, o = Obj id -> cell_data h' a = cell_data h a).

Lemma preserves_refl h : preserves h h.
Proof. intros a o H. split; [exact H|reflexivity]. Qed.

Lemma preserves_trans h1 h2 h3 : preserves h1 h2 -> preserves h2 h3 -> preserves h1 h3.
Proof.
  intros A B a o H. destruct (A a o H) as (A1 & A2). destruct (B a o A1) as (B1 & B2).
  split; [exact B1|]. intros id E. rewrite (B2 id E). apply (A2 id E).
Qed.

Lemma cell_owner_lt h a o : cell_owner h a = Some o -> a < length h.
Proof.
  unfold cell_owner. destruct (nth_error h a) eqn:E; [|discriminate].
  intros _. apply nth_error_Some. congruence.
Qed.

Lemma preserves_alloc h o d : preserves h (fst (alloc h o d)).
Proof.
  intros a o' H. pose proof (cell_owner_lt h a o' H) as L. cbn.
  unfold cell_owner, cell_data in *. rewrite nth_error_app1 by assumption.
  split; [exact H|reflexivity].
Qed.

Lemma alloc_owner h o d : cell_owner (fst (alloc h o d)) (snd (alloc h o d)) = Some o.
Proof.
  cbn. unfold cell_owner. rewrite nth_error_app2 by lia. rewrite Nat.sub_diag. reflexivity.
Qed.

Lemma alloc_data h o d : cell_data (fst (alloc h o d)) (snd (alloc h o d)) = d.
Proof.
  cbn. unfold cell_data. rewrite nth_error_app2 by lia. rewrite Nat.sub_diag. reflexivity.
Qed.

Lemma set_nth_same {A} (l : list A) i x : i < length l -> nth_error (set_nth l i x) i = Some x.
Proof.
  revert i; induction l as [|a r IH]; intros i H; cbn in *; [lia|].
  destruct i; [reflexivity|]. cbn. apply IH. lia.
Qed.

Lemma set_nth_other {A} (l : list A) i j x : i <> j -> nth_error (set_nth l i x) j = nth_error l j.
Proof.
  revert i j; induction l as [|a r IH]; intros i j H; cbn; [reflexivity|].
  destruct i, j; cbn; try reflexivity; try congruence. apply IH. congruence.
Qed.

(** rewriting the contents of a CALLER-owned cell is a frame step *)
Lemma preserves_update_caller h a f : cell_owner h a = Some Caller -> preserves h (update_cell h a f).
Proof.
  intros Ha b o Hb. unfold update_cell.
  pose proof (cell_owner_lt h a _ Ha) as La.
  unfold cell_owner in Ha. destruct (nth_error h a) as [c|] eqn:E; [|discriminate].
  inversion Ha as [Hc].
  destruct (Nat.eq_dec a b) as [<-|Hne].
  - unfold cell_owner, cell_data in *. rewrite set_nth_same by assumption. rewrite E in Hb.
    cbn. inversion Hb as [Ho]. split; [reflexivity|]. intros id Eid. congruence.
  - unfold cell_owner, cell_data in *. rewrite set_nth_other by assumption.
    split; [exact Hb|reflexivity].
Qed.

Lemma read_preserved h h' v : preserves h h' -> obj_owned h v -> read h' v = read h v.
Proof.
  intros P (id & O). unfold read. destruct (P _ _ O) as (_ & D). rewrite (D id eq_refl). reflexivity.
Qed.

Lemma obj_owned_preserved h h' v : preserves h h' -> obj_owned h v -> obj_owned h' v.
Proof. intros P (id & O). exists id. apply (P _ _ O). Qed.

Lemma caller_owned_preserved h h' v : preserves h h' -> caller_owned h v -> caller_owned h' v.
Proof. intros P O. apply (P _ _ O). Qed.

(** * the invariant: caller-reachable cells and object-retained cells are disjoint by ownership *)

Definition memo_ok (h : heap) (b : body) : Prop :=
  match b_memo b with
  | MFired m => obj_owned h m /\ read h m = flat_map (read h) (group b 1)
  | _ => True
  end.

Definition body_ok (h : heap) (b : body) : Prop :=
  Forall (Forall (obj_owned h)) (b_groups b) /\ memo_ok h b.

Definition inv (st : state) : Prop :=
  Forall (body_ok (st_heap st)) (st_bodies st) /\
  Forall (caller_owned (st_heap st)) (st_caller st) /\
  Forall (fun bi => bi < length (st_bodies st)) (st_objs st).

Lemma inv_init : inv init.
Proof. repeat split; constructor. Qed.

Lemma group_owned h b g : Forall (Forall (obj_owned h)) (b_groups b) -> Forall (obj_owned h) (group b g).
Proof.
  intros H. unfold group. destruct (Nat.lt_ge_cases g (length (b_groups b))) as [L|L].
  - rewrite Forall_forall in H. apply H. apply nth_In. exact L.
  - rewrite nth_overflow by assumption. constructor.
Qed.

Lemma flat_read_preserved h h' vs : preserves h h' -> Forall (obj_owned h) vs ->
  flat_map (read h') vs = flat_map (read h) vs.
Proof.
  intros P H. induction H as [|v r Hv _ IH]; [reflexivity|]. cbn.
  rewrite (read_preserved _ _ v P Hv), IH. reflexivity.
Qed.

Lemma body_ok_preserved h h' b : preserves h h' -> body_ok h b -> body_ok h' b.
Proof.
  intros P (G & M). split.
  - eapply Forall_impl; [|exact G]. intros vs Hvs. eapply Forall_impl; [|exact Hvs].
    intros v. apply obj_owned_preserved; assumption.
  - unfold memo_ok in *. destruct (b_memo b) as [| |m]; try exact I.
    destruct M as (Om & Em). split; [eapply obj_owned_preserved; eassumption|].
    rewrite (read_preserved _ _ m P Om), Em. symmetry. apply flat_read_preserved; [exact P|].
    apply group_owned. exact G.
Qed.

Lemma obs_body_preserved h h' b g : preserves h h' -> body_ok h b -> obs_body h' b g = obs_body h b g.
Proof.
  intros P (G & M). unfold obs_body.
  assert (F : flat_map (read h') (group b g) = flat_map (read h) (group b g))
    by (apply flat_read_preserved; [exact P|apply group_owned; exact G]).
  destruct g as [|[|g]]; try exact F.
  unfold memo_ok in M. destruct (b_memo b) as [| |m]; try exact F.
  destruct M as (Om & _). apply read_preserved; assumption.
Qed.

Lemma copy_in_spec vs : forall h id h' ws, copy_in h id vs = (h', ws) ->
  preserves h h' /\ Forall (obj_owned h') ws.
Proof.
  induction vs as [|v r IH]; intros h id h' ws H; cbn [copy_in] in H.
  - inversion H; subst. split; [apply preserves_refl|constructor].
  - remember (alloc h (Obj id) (read h v)) as al eqn:Ea. destruct al as [h1 a].
    destruct (copy_in h1 id r) as [h2 ws2] eqn:Ec. injection H as E1 E2. subst h' ws.
    destruct (IH h1 id h2 ws2 Ec) as (P2 & F2).
    assert (P1 : preserves h h1).
    { pose proof (preserves_alloc h (Obj id) (read h v)) as P. rewrite <- Ea in P. exact P. }
    split; [eapply preserves_trans; eassumption|].
    constructor; [|exact F2].
    assert (O1 : cell_owner h1 a = Some (Obj id)).
    { pose proof (alloc_owner h (Obj id) (read h v)) as O. rewrite <- Ea in O. exact O. }
    exists id. apply (P2 _ _ O1).
Qed.

(** [st'] extends [st]: frame heap, old bodies kept, old objects kept *)
Definition extends (st st' : state) : Prop :=
  preserves (st_heap st) (st_heap st') /\
  (exists nb, st_bodies st' = st_bodies st ++ nb) /\
  (exists no, st_objs st' = st_objs st ++ no).

Lemma obs_extends st st' o g : inv st -> extends st st' -> o < length (st_objs st) ->
  obs st' o g = obs st o g.
Proof.
  intros (Ib & _ & Io) (P & (nb & Eb) & (no & Eo)) L. unfold obs, body_of.
  rewrite Eo, Eb. rewrite nth_error_app1 by assumption.
  destruct (nth_error (st_objs st) o) as [bi|] eqn:E; [|reflexivity].
  rewrite Forall_forall in Io. pose proof (Io bi (nth_error_In _ _ E)) as Lb.
  rewrite nth_error_app1 by assumption.
  destruct (nth_error (st_bodies st) bi) as [b|] eqn:Eb'; [|reflexivity].
  apply obs_body_preserved; [exact P|]. rewrite Forall_forall in Ib. apply Ib. eapply nth_error_In. exact Eb'.
Qed.

Lemma inv_extends st st' nb no ncv :
  inv st -> preserves (st_heap st) (st_heap st') ->
  st_bodies st' = st_bodies st ++ nb -> Forall (body_ok (st_heap st')) nb ->
  st_objs st' = st_objs st ++ no -> Forall (fun bi => bi < length (st_bodies st')) no ->
  st_caller st' = st_caller st ++ ncv -> Forall (caller_owned (st_heap st')) ncv ->
  inv st' /\ extends st st'.
Proof.
  intros (Ib & Ic & Io) P Eb Fb Eo Fo Ec Fc. split; [split; [|split]|].
  - rewrite Eb. apply Forall_app. split; [|exact Fb].
    eapply Forall_impl; [|exact Ib]. intros b. apply body_ok_preserved. exact P.
  - rewrite Ec. apply Forall_app. split; [|exact Fc].
    eapply Forall_impl; [|exact Ic]. intros v. apply caller_owned_preserved. exact P.
  - rewrite Eo. apply Forall_app. split; [|exact Fo].
    eapply Forall_impl; [|exact Io]. intros bi Hbi. rewrite Eb, app_length. cbn in *. lia.
  - split; [exact P|]. split; eauto.
Qed.

Lemma set_nth_length {A} (l : list A) i x : length (set_nth l i x) = length l.
Proof. revert i; induction l as [|a r IH]; intros i; cbn; [reflexivity|]. destruct i; cbn; [reflexivity|]. rewrite IH. reflexivity. Qed.

Lemma Forall_set_nth {A} (P : A -> Prop) (l : list A) i x : Forall P l -> P x -> Forall P (set_nth l i x).
Proof.
  intros H Hx. revert i. induction H as [|a r Ha Hr IH]; intros i; cbn; [constructor|].
  destruct i; constructor; auto.
Qed.

(** firing the memo: an object-owned cell appears, nothing anybody can observe changes *)
Lemma fire_spec st o g : inv st ->
  inv (fire st o g) /\ preserves (st_heap st) (st_heap (fire st o g)) /\
  st_objs (fire st o g) = st_objs st /\ st_caller (fire st o g) = st_caller st /\
  (forall o' g', obs (fire st o g) o' g' = obs st o' g').
Proof.
  intros I. assert (I0 := I). destruct I0 as (Ib & Ic & Io).
  assert (Same : inv st /\ preserves (st_heap st) (st_heap st) /\ st_objs st = st_objs st /\
                 st_caller st = st_caller st /\ (forall o' g', obs st o' g' = obs st o' g')).
  { split; [exact I|split; [apply preserves_refl|split; [reflexivity|split; [reflexivity|intros; reflexivity]]]]. }
  unfold fire. destruct (negb (Nat.eqb g 1)); [exact Same|].
  destruct (nth_error (st_objs st) o) as [bi|] eqn:Eo; [|exact Same].
  destruct (nth_error (st_bodies st) bi) as [b|] eqn:Eb; [|exact Same].
  destruct (b_memo b) eqn:Em; try exact Same.
  set (d := flat_map (read (st_heap st)) (group b 1)).
  pose proof (preserves_alloc (st_heap st) (Obj bi) d) as P.
  pose proof (alloc_owner (st_heap st) (Obj bi) d) as O.
  pose proof (alloc_data (st_heap st) (Obj bi) d) as D.
  destruct (alloc (st_heap st) (Obj bi) d) as [h1 a] eqn:Ea. cbn [fst snd] in P, O, D. cbn [st_heap st_objs st_caller st_bodies].
  assert (Lbi : bi < length (st_bodies st)) by (apply nth_error_Some; congruence).
  assert (Bok : body_ok (st_heap st) b).
  { rewrite Forall_forall in Ib. apply Ib. eapply nth_error_In. exact Eb. }
  assert (Rm : read h1 (whole a (length d)) = d).
  { unfold read, whole, sub. cbn. rewrite D. rewrite firstn_all. reflexivity. }
  assert (Fd : flat_map (read h1) (group b 1) = d).
  { unfold d. apply flat_read_preserved; [exact P|]. apply group_owned. apply Bok. }
  set (b' := {| b_groups := b_groups b; b_memo := MFired (whole a (length d)) |}).
  assert (Bok' : body_ok h1 b').
  { destruct (body_ok_preserved _ _ b P Bok) as (G & _). split; [exact G|].
    unfold memo_ok, b'. cbn [b_memo]. split; [exists bi; exact O|]. rewrite Rm. symmetry. exact Fd. }
  split; [split; [|split]|split; [exact P|split; [reflexivity|split; [reflexivity|]]]].
  - cbn. apply Forall_set_nth; [|exact Bok'].
    eapply Forall_impl; [|exact Ib]. intros x. apply body_ok_preserved. exact P.
  - cbn. eapply Forall_impl; [|exact Ic]. intros v. apply caller_owned_preserved. exact P.
  - cbn. rewrite set_nth_length. exact Io.
  - intros o' g'. unfold obs, body_of. cbn.
    destruct (nth_error (st_objs st) o') as [bj|] eqn:Eo'; [|reflexivity].
    destruct (Nat.eq_dec bi bj) as [<-|Hne].
    + rewrite set_nth_same by assumption. rewrite Eb.
      unfold obs_body. cbn [b_memo b']. rewrite Em.
      destruct g' as [|[|g'']]; cbn [b_groups b' group]; unfold group; cbn [b_groups].
      * apply flat_read_preserved; [exact P|]. apply (group_owned _ b 0). apply Bok.
      * rewrite Rm. reflexivity.
      * apply flat_read_preserved; [exact P|]. apply (group_owned _ b (S (S g''))). apply Bok.
    + rewrite set_nth_other by assumption.
      destruct (nth_error (st_bodies st) bj) as [bb|] eqn:Ebj; [|reflexivity].
      apply obs_body_preserved; [exact P|]. rewrite Forall_forall in Ib. apply Ib. eapply nth_error_In. exact Ebj.
Qed.

Definition obs_stable (st st' : state) : Prop :=
  length (st_objs st) <= length (st_objs st') /\
  forall o g, o < length (st_objs st) -> obs st' o g = obs st o g.

Lemma extends_stable st st' : inv st -> extends st st' -> obs_stable st st'.
Proof.
  intros I E. split.
  - destruct E as (_ & _ & (no & ->)). rewrite app_length. lia.
  - intros o g L. apply obs_extends; assumption.
Qed.

(** one API call or caller write (not an ownership transfer) keeps the invariant and every
    observation of every existing object *)
Ltac prem := cbn [st_heap st_bodies st_objs st_caller add_object];
  first [ assumption | apply preserves_refl | (rewrite app_nil_r; reflexivity) | reflexivity
        | (apply Forall_nil) | idtac ].

Lemma step_frame st p : inv st -> is_owned p = false -> inv (step st p) /\ obs_stable st (step st p).
Proof.
  intros I Hp. assert (I0 := I). destruct I0 as (Ib & Ic & Io).
  assert (Same : inv st /\ obs_stable st st) by (split; [exact I|split; [lia|reflexivity]]).
  destruct p as [d|cv i x|cvs lz|cv k skip hl|cv k skip hl|o g|o g cv|o]; try discriminate; cbn [step].
  - (* ONew *)
    pose proof (preserves_alloc (st_heap st) Caller d) as P.
    pose proof (alloc_owner (st_heap st) Caller d) as O.
    destruct (alloc (st_heap st) Caller d) as [h1 a] eqn:Ea. cbn [fst snd] in P, O.
    match goal with |- inv ?S /\ _ => assert (X : inv S /\ extends st S) end.
    { apply (inv_extends st _ [] [] [whole a (length d)] I); prem.
      constructor; [exact O|constructor]. }
    destruct X as (I' & E). split; [exact I'|apply extends_stable; assumption].
  - (* OWrite *)
    unfold caller_view. destruct (nth_error (st_caller st) cv) as [v|] eqn:Ev; [|exact Same].
    destruct (Nat.ltb i (v_len v)); [|exact Same].
    assert (Ic' := Ic). rewrite Forall_forall in Ic'. pose proof (Ic' v (nth_error_In _ _ Ev)) as Hv.
    pose proof (preserves_update_caller (st_heap st) (v_cell v) (fun d => set_nth d (v_off v + i) x) Hv) as P.
    match goal with |- inv ?S /\ _ => assert (X : inv S /\ extends st S) end.
    { apply (inv_extends st _ [] [] [] I); prem. }
    destruct X as (I' & E). split; [exact I'|apply extends_stable; assumption].
  - (* OConstruct *)
    destruct (copy_in (st_heap st) (length (st_bodies st)) (pick (st_caller st) cvs)) as [h1 ws] eqn:Ec.
    destruct (copy_in_spec _ _ _ _ _ Ec) as (P & F).
    set (b := {| b_groups := [ws; ws]; b_memo := if lz then MUnfired else MNone |}).
    assert (X : inv (add_object st h1 b) /\ extends st (add_object st h1 b)).
    { apply (inv_extends st _ [b] [length (st_bodies st)] [] I); prem.
      - constructor; [|constructor]. split; [repeat constructor; exact F|].
        unfold memo_ok, b. cbn [b_memo]. destruct lz; exact Logic.I.
      - constructor; [|constructor]. rewrite app_length. cbn. lia. }
    destruct X as (I' & E). split; [exact I'|apply extends_stable; assumption].
  - (* ODecode *)
    unfold caller_view. destruct (nth_error (st_caller st) cv) as [v|] eqn:Ev; [|exact Same].
    set (d := read (st_heap st) v). set (id := length (st_bodies st)).
    pose proof (preserves_alloc (st_heap st) (Obj id) d) as P1.
    pose proof (alloc_owner (st_heap st) (Obj id) d) as O1.
    destruct (alloc (st_heap st) (Obj id) d) as [h1 a] eqn:Ea. cbn [fst snd] in P1, O1.
    set (d2 := sub d (skip + hl) (length d - skip - hl)).
    pose proof (preserves_alloc h1 (Obj id) d2) as P2.
    pose proof (alloc_owner h1 (Obj id) d2) as O2.
    destruct (alloc h1 (Obj id) d2) as [h2 t] eqn:Et. cbn [fst snd] in P2, O2.
    assert (P : preserves (st_heap st) h2) by (eapply preserves_trans; eassumption).
    assert (Oa : cell_owner h2 a = Some (Obj id)) by (apply (P2 _ _ O1)).
    set (b := {| b_groups := decoded_groups k a (length d) skip hl t; b_memo := MNone |}).
    assert (X : inv (add_object st h2 b) /\ extends st (add_object st h2 b)).
    { apply (inv_extends st _ [b] [length (st_bodies st)] [] I); prem.
      - constructor; [|constructor]. split; [|exact Logic.I]. unfold b, decoded_groups. cbn [b_groups].
        destruct k; repeat constructor; exists id; cbn; assumption.
      - constructor; [|constructor]. rewrite app_length. cbn. lia. }
    destruct X as (I' & E). split; [exact I'|apply extends_stable; assumption].
  - (* OGet *)
    destruct (fire_spec st o g I) as (I1 & P1 & Eo1 & Ec1 & Obs1).
    set (st1 := fire st o g) in *. set (d := obs st1 o g).
    pose proof (preserves_alloc (st_heap st1) Caller d) as P.
    pose proof (alloc_owner (st_heap st1) Caller d) as O.
    destruct (alloc (st_heap st1) Caller d) as [h1 a] eqn:Ea. cbn [fst snd] in P, O.
    match goal with |- inv ?S /\ _ => assert (X : inv S /\ extends st1 S) end.
    { apply (inv_extends st1 _ [] [] [whole a (length d)] I1); prem.
      constructor; [exact O|constructor]. }
    destruct X as (I' & E). split; [exact I'|].
    destruct (extends_stable _ _ I1 E) as (L2 & S2). cbn [st_objs] in L2. split.
    + cbn [st_objs]. rewrite Eo1. lia.
    + intros o' g' L. rewrite S2 by (rewrite Eo1; exact L). apply Obs1.
  - (* OAppend *)
    destruct (fire_spec st o g I) as (I1 & P1 & Eo1 & Ec1 & Obs1).
    set (st1 := fire st o g) in *.
    assert (Same1 : inv st1 /\ obs_stable st st1).
    { split; [exact I1|]. split; [rewrite Eo1; lia|]. intros; apply Obs1. }
    unfold caller_view. destruct (nth_error (st_caller st1) cv) as [v|] eqn:Ev; [|exact Same1].
    assert (I1' := I1). destruct I1' as (_ & Ic1 & _).
    rewrite Forall_forall in Ic1. pose proof (Ic1 v (nth_error_In _ _ Ev)) as Hv.
    set (d := obs st1 o g).
    pose proof (preserves_update_caller (st_heap st1) (v_cell v)
                  (fun old => firstn (v_off v + v_len v) old ++ d) Hv) as P.
    match goal with |- inv ?S /\ _ => assert (X : inv S /\ extends st1 S) end.
    { apply (inv_extends st1 _ [] [] [{| v_cell := v_cell v; v_off := v_off v; v_len := v_len v + length d |}] I1); prem.
      constructor; [|constructor]. unfold caller_owned. cbn [v_cell]. apply (P _ _ Hv). }
    destruct X as (I' & E). split; [exact I'|].
    destruct (extends_stable _ _ I1 E) as (L2 & S2). cbn [st_objs] in L2. split.
    + cbn [st_objs]. rewrite Eo1. lia.
    + intros o' g' L. rewrite S2 by (rewrite Eo1; exact L). apply Obs1.
  - (* OShare *)
    destruct (nth_error (st_objs st) o) as [bi|] eqn:Eo; [|exact Same].
    match goal with |- inv ?S /\ _ => assert (X : inv S /\ extends st S) end.
    { apply (inv_extends st _ [] [bi] [] I); prem.
      constructor; [|constructor]. rewrite ?app_nil_r. rewrite Forall_forall in Io. apply Io.
      eapply nth_error_In. exact Eo. }
    destruct X as (I' & E). split; [exact I'|apply extends_stable; assumption].
Qed.

Lemma run_frame ops : forall st, inv st -> forallb (fun p => negb (is_owned p)) ops = true ->
  inv (run st ops) /\ obs_stable st (run st ops).
Proof.
  induction ops as [|p r IH]; intros st I F; unfold run in *; cbn [fold_left forallb] in *.
  - split; [exact I|split; [lia|reflexivity]].
  - apply andb_prop in F. destruct F as (Fp & Fr). apply negb_true_iff in Fp.
    destruct (step_frame st p I Fp) as (I' & (L1 & S1)).
    destruct (IH (step st p) I' Fr) as (I'' & (L2 & S2)).
    split; [exact I''|]. split; [lia|]. intros o g L. rewrite S2 by lia. apply S1. exact L.
Qed.

(** C12_noninterference: whatever the caller writes into any buffer it holds — arguments it passed,
    results it got back (including the result of the call that FIRED the encode memo), append
    destinations and scratch buffers — and whatever API calls follow, every observation of every
    object equals its observation when the object was created. *)
Theorem noninterference pre post o g :
  forallb (fun p => negb (is_owned p)) (pre ++ post) = true ->
  o < length (st_objs (run init pre)) ->
  obs (run init (pre ++ post)) o g = obs (run init pre) o g.
Proof.
  intros F L. rewrite forallb_app in F. apply andb_prop in F. destruct F as (Fpre & Fpost).
  unfold run at 1. rewrite fold_left_app. fold (run init pre). fold (run (run init pre) post).
  destruct (run_frame pre init inv_init Fpre) as (I & _).
  destruct (run_frame post (run init pre) I Fpost) as (_ & (_ & S)). apply S. exact L.
Qed.

(** the disjointness the theorem rests on, as a reachable-state invariant: every cell a body
    retains — its value cells AND its encode memo — is object-owned, every buffer the caller holds
    is caller-owned *)
Theorem disjoint_ownership ops : forallb (fun p => negb (is_owned p)) ops = true -> inv (run init ops).
Proof. intros F. apply (run_frame ops init inv_init F). Qed.

(** The call that FIRES the encode memo returns a fresh caller-owned cell: after the first
    serialiser call on a constructed message, the memo is an object-owned cell, the slice handed to
    the caller is a different, caller-owned cell, and both hold the encoding. *)
Theorem memo_firing_call_returns_fresh_cell st o bi b : inv st ->
  nth_error (st_objs st) o = Some bi -> nth_error (st_bodies st) bi = Some b -> b_memo b = MUnfired ->
  let st' := step st (OGet o 1) in
  exists v m b',
    st_caller st' = st_caller st ++ [v] /\ caller_owned (st_heap st') v /\
    body_of st' o = Some b' /\ b_memo b' = MFired m /\ obj_owned (st_heap st') m /\
    v_cell v <> v_cell m /\
    read (st_heap st') v = read (st_heap st') m /\
    read (st_heap st') m = obs st o 1.
Proof.
  intros I Eo Eb Em. cbv zeta. cbn [step].
  destruct (fire_spec st o 1 I) as (I1 & P1 & Eo1 & Ec1 & Obs1).
  assert (Lbi : bi < length (st_bodies st)) by (apply nth_error_Some; congruence).
  (* what fire did *)
  assert (Hf : exists m, body_of (fire st o 1) o = Some {| b_groups := b_groups b; b_memo := MFired m |}).
  { unfold fire, body_of. cbn [negb Nat.eqb]. rewrite Eo, Eb, Em.
    destruct (alloc (st_heap st) (Obj bi) (flat_map (read (st_heap st)) (group b 1))) as [h1 a] eqn:Ea.
    cbn. rewrite Eo. rewrite set_nth_same by assumption. eauto. }
  destruct Hf as (m & Hb'). set (st1 := fire st o 1) in *.
  set (b' := {| b_groups := b_groups b; b_memo := MFired m |}) in *.
  assert (Bok' : body_ok (st_heap st1) b').
  { destruct I1 as (Ib1 & _ & _). unfold body_of in Hb'. rewrite Eo1, Eo in Hb'.
    rewrite Forall_forall in Ib1. apply Ib1. eapply nth_error_In. exact Hb'. }
  destruct Bok' as (_ & (Om & Em')). cbn [b_memo b'] in Om, Em'.
  set (d := obs st1 o 1).
  assert (Dm : d = read (st_heap st1) m).
  { unfold d, obs. rewrite Hb'. reflexivity. }
  pose proof (preserves_alloc (st_heap st1) Caller d) as P.
  pose proof (alloc_owner (st_heap st1) Caller d) as O.
  pose proof (alloc_data (st_heap st1) Caller d) as D.
  destruct (alloc (st_heap st1) Caller d) as [h1 a] eqn:Ea. cbn [fst snd] in P, O, D.
  exists (whole a (length d)), m, b'. cbn [st_caller st_heap].
  assert (Om1 : obj_owned h1 m) by (eapply obj_owned_preserved; eassumption).
  assert (Rv : read h1 (whole a (length d)) = d).
  { unfold read, whole, sub. cbn. rewrite D, firstn_all. reflexivity. }
  assert (Rm : read h1 m = read (st_heap st1) m) by (apply read_preserved; assumption).
  repeat split.
  - rewrite Ec1. reflexivity.
  - exact O.
  - unfold body_of in *. cbn. exact Hb'.
  - exact Om1.
  - intros C. destruct Om1 as (id & Hid). unfold whole in C. cbn in C. rewrite <- C in Hid. congruence.
  - rewrite Rv, Rm. exact Dm.
  - rewrite Rm, <- Dm. unfold d. apply Obs1.
Qed.

(** Positive control: with the ownership-transferring entry point the same caller write DOES change
    an observation — the exclusion in the statement is necessary, and the model is not blind. *)
Theorem owned_interferes : exists pre post o g,
  o < length (st_objs (run init pre)) /\
  obs (run init (pre ++ post)) o g <> obs (run init pre) o g.
Proof.
  exists [ONew [33%Z; 2%Z; 7%Z; 8%Z]; ODecodeOwned 0 KAlias 0 2], [OWrite 0 3 9%Z], 0, 0.
  split; [cbn; lia|]. cbv. discriminate.
Qed.
