(** Proofs for the ownership-heap model: non-interference of caller writes and API calls with every
    observation of every object, for all operation sequences that avoid the ownership-transferring
    entry points; and the positive control (ownership transfer does interfere). *)
From Coq Require Import ZArith Bool List Lia PeanoNat.
From GoSecs Require Import Alias.Heap.
Import ListNotations.

(** * heap frames *)

Definition obj_owned (h : heap) (v : view) : Prop := exists id, cell_owner h (v_cell v) = Some (Obj id).
Definition caller_owned (h : heap) (v : view) : Prop := cell_owner h (v_cell v) = Some Caller.

(** [h'] extends [h]: owners never change, object-owned cells keep their contents *)
Definition preserves (h h' : heap) : Prop :=
  forall a o, cell_owner h a = Some o ->
    cell_owner h' a = Some o /\ (forall id, o = Obj id -> cell_data h' a = cell_data h a).

Lemma preserves_refl h : preserves h h.
Proof. intros a o H. split; [exact H|reflexivity]. Qed.

Lemma preserves_trans h1 h2 h3 : preserves h1 h2 -> preserves h2 h3 -> preserves h1 h3.
Proof.
  intros A B a o H. destruct (A a o H) as (A1 & A2). destruct (B a o A1) as (B1 & B2).
  split; [exact B1|]. intros id E. rewrite (B2 id E). apply (A2 id E).
Qed.

Lemma cell_owner_lt h a o : cell_owner h a = Some o -> a < length h.
Proof.
  unfold cell_owner. destruct (nth_error h a) eqn:E; [|discriminate].
  intros _. apply nth_error_Some. congruence.
Qed.

Lemma preserves_alloc h o d : preserves h (fst (alloc h o d)).
Proof.
  intros a o' H. pose proof (cell_owner_lt h a o' H) as L. cbn.
  unfold cell_owner, cell_data in *. rewrite nth_error_app1 by assumption.
  split; [exact H|reflexivity].
Qed.

Lemma alloc_owner h o d : cell_owner (fst (alloc h o d)) (snd (alloc h o d)) = Some o.
Proof.
  cbn. unfold cell_owner. rewrite nth_error_app2 by lia. rewrite Nat.sub_diag. reflexivity.
Qed.

Lemma alloc_data h o d : cell_data (fst (alloc h o d)) (snd (alloc h o d)) = d.
Proof.
  cbn. unfold cell_data. rewrite nth_error_app2 by lia. rewrite Nat.sub_diag. reflexivity.
Qed.

Lemma set_nth_same {A} (l : list A) i x : i < length l -> nth_error (set_nth l i x) i = Some x.
Proof.
  revert i; induction l as [|a r IH]; intros i H; cbn in *; [lia|].
  destruct i; [reflexivity|]. cbn. apply IH. lia.
Qed.

Lemma set_nth_other {A} (l : list A) i j x : i <> j -> nth_error (set_nth l i x) j = nth_error l j.
Proof.
  revert i j; induction l as [|a r IH]; intros i j H; cbn; [reflexivity|].
  destruct i, j; cbn; try reflexivity; try congruence. apply IH. congruence.
Qed.

(** rewriting the contents of a CALLER-owned cell is a frame step *)
Lemma preserves_update_caller h a f : cell_owner h a = Some Caller -> preserves h (update_cell h a f).
Proof.
  intros Ha b o Hb. unfold update_cell.
  pose proof (cell_owner_lt h a _ Ha) as La.
  unfold cell_owner in Ha. destruct (nth_error h a) as [c|] eqn:E; [|discriminate].
  inversion Ha as [Hc].
  destruct (Nat.eq_dec a b) as [<-|Hne].
  - unfold cell_owner, cell_data in *. rewrite set_nth_same by assumption. rewrite E in Hb.
    cbn. inversion Hb as [Ho]. split; [reflexivity|]. intros id Eid. congruence.
  - unfold cell_owner, cell_data in *. rewrite set_nth_other by assumption.
    split; [exact Hb|reflexivity].
Qed.

Lemma read_preserved h h' v : preserves h h' -> obj_owned h v -> read h' v = read h v.
Proof.
  intros P (id & O). unfold read. destruct (P _ _ O) as (_ & D). rewrite (D id eq_refl). reflexivity.
Qed.

Lemma obj_owned_preserved h h' v : preserves h h' -> obj_owned h v -> obj_owned h' v.
Proof. intros P (id & O). exists id. apply (P _ _ O). Qed.

Lemma caller_owned_preserved h h' v : preserves h h' -> caller_owned h v -> caller_owned h' v.
Proof. intros P O. apply (P _ _ O). Qed.

(** * the invariant: caller-reachable cells and object-retained cells are disjoint by ownership *)

Definition obj_ok (h : heap) (ob : object) : Prop := Forall (Forall (obj_owned h)) (o_groups ob).

Definition inv (st : state) : Prop :=
  Forall (obj_ok (st_heap st)) (st_objs st) /\ Forall (caller_owned (st_heap st)) (st_caller st).

Lemma inv_init : inv init.
Proof. split; constructor. Qed.

Lemma obj_ok_preserved h h' ob : preserves h h' -> obj_ok h ob -> obj_ok h' ob.
Proof.
  intros P H. unfold obj_ok in *. eapply Forall_impl; [|exact H].
  intros vs Hvs. eapply Forall_impl; [|exact Hvs]. intros v. apply obj_owned_preserved; assumption.
Qed.

Lemma copy_in_spec vs : forall h id h' ws, copy_in h id vs = (h', ws) ->
  preserves h h' /\ Forall (obj_owned h') ws.
Proof.
  induction vs as [|v r IH]; intros h id h' ws H; cbn [copy_in] in H.
  - inversion H; subst. split; [apply preserves_refl|constructor].
  - remember (alloc h (Obj id) (read h v)) as al eqn:Ea. destruct al as [h1 a].
    destruct (copy_in h1 id r) as [h2 ws2] eqn:Ec. injection H as E1 E2. subst h' ws.
    destruct (IH h1 id h2 ws2 Ec) as (P2 & F2).
    assert (P1 : preserves h h1).
    { pose proof (preserves_alloc h (Obj id) (read h v)) as P. rewrite <- Ea in P. exact P. }
    split; [eapply preserves_trans; eassumption|].
    constructor; [|exact F2].
    assert (O1 : cell_owner h1 a = Some (Obj id)).
    { pose proof (alloc_owner h (Obj id) (read h v)) as O. rewrite <- Ea in O. exact O. }
    exists id. apply (P2 _ _ O1).
Qed.

Lemma obs_preserved st st' o g :
  preserves (st_heap st) (st_heap st') ->
  (forall ob, nth_error (st_objs st) o = Some ob -> nth_error (st_objs st') o = Some ob) ->
  inv st -> o < length (st_objs st) -> obs st' o g = obs st o g.
Proof.
  intros P Hobjs (Io & _) Lo. unfold obs.
  destruct (nth_error (st_objs st) o) as [ob|] eqn:E; [|apply nth_error_None in E; lia].
  rewrite (Hobjs ob eq_refl).
  rewrite Forall_forall in Io. pose proof (Io ob (nth_error_In _ _ E)) as Hob.
  unfold obj_ok, group in *.
  assert (Hg : Forall (obj_owned (st_heap st)) (nth g (o_groups ob) [])).
  { destruct (Nat.lt_ge_cases g (length (o_groups ob))) as [L|L].
    - rewrite Forall_forall in Hob. apply Hob. apply nth_In. exact L.
    - rewrite nth_overflow by assumption. constructor. }
  induction Hg as [|v r Hv _ IH]; [reflexivity|]. cbn.
  rewrite (read_preserved _ _ v P Hv), IH. reflexivity.
Qed.

Lemma nth_error_app_keep {A} (l : list A) x o ob :
  nth_error l o = Some ob -> nth_error (l ++ [x]) o = Some ob.
Proof. intros H. rewrite nth_error_app1; [exact H|]. apply nth_error_Some. congruence. Qed.

Lemma frame_intro st st' newobjs newcv :
  preserves (st_heap st) (st_heap st') ->
  st_objs st' = st_objs st ++ newobjs -> Forall (obj_ok (st_heap st')) newobjs ->
  st_caller st' = st_caller st ++ newcv -> Forall (caller_owned (st_heap st')) newcv ->
  inv st ->
  inv st' /\ preserves (st_heap st) (st_heap st') /\
  (forall o ob, nth_error (st_objs st) o = Some ob -> nth_error (st_objs st') o = Some ob).
Proof.
  intros P Eo Fo Ec Fc (Io & Ic). split; [split|split; [exact P|]].
  - rewrite Eo. apply Forall_app. split; [|exact Fo].
    eapply Forall_impl; [|exact Io]. intros ob. apply obj_ok_preserved. exact P.
  - rewrite Ec. apply Forall_app. split; [|exact Fc].
    eapply Forall_impl; [|exact Ic]. intros v. apply caller_owned_preserved. exact P.
  - intros o ob H. rewrite Eo. rewrite nth_error_app1; [exact H|]. apply nth_error_Some. congruence.
Qed.

Lemma frame_same st : inv st ->
  inv st /\ preserves (st_heap st) (st_heap st) /\
  (forall o ob, nth_error (st_objs st) o = Some ob -> nth_error (st_objs st) o = Some ob).
Proof. intros I. split; [exact I|split; [apply preserves_refl|auto]]. Qed.

(** one API call or caller write (not an ownership transfer): the invariant is kept, the heap is
    only extended or rewritten in caller-owned cells, existing objects stay what they are *)
Lemma step_frame st p : inv st -> is_owned p = false ->
  inv (step st p) /\ preserves (st_heap st) (st_heap (step st p)) /\
  (forall o ob, nth_error (st_objs st) o = Some ob -> nth_error (st_objs (step st p)) o = Some ob).
Proof.
  intros I Hp. assert (I0 := I). destruct I0 as (Io & Ic).
  destruct p as [d|cv i x|cvs|cv k skip hl|cv k skip hl|o g|o g cv|o]; try discriminate; cbn [step].
  - (* ONew *)
    pose proof (preserves_alloc (st_heap st) Caller d) as P.
    pose proof (alloc_owner (st_heap st) Caller d) as O.
    destruct (alloc (st_heap st) Caller d) as [h1 a] eqn:Ea. cbn [fst snd] in P, O.
    apply (frame_intro st _ [] [whole a (length d)]); cbn; try assumption;
      try (rewrite app_nil_r; reflexivity); try reflexivity; try constructor; try assumption; constructor.
  - (* OWrite *)
    unfold caller_view. destruct (nth_error (st_caller st) cv) as [v|] eqn:Ev; [|apply frame_same; exact I].
    destruct (Nat.ltb i (v_len v)); [|apply frame_same; exact I].
    rewrite Forall_forall in Ic. pose proof (Ic v (nth_error_In _ _ Ev)) as Hv.
    pose proof (preserves_update_caller (st_heap st) (v_cell v) (fun d => set_nth d (v_off v + i) x) Hv) as P.
    apply (frame_intro st _ [] []); cbn; try assumption; try (rewrite app_nil_r; reflexivity); constructor.
  - (* OConstruct *)
    destruct (copy_in (st_heap st) (length (st_objs st)) (pick (st_caller st) cvs)) as [h1 ws] eqn:Ec.
    destruct (copy_in_spec _ _ _ _ _ Ec) as (P & F).
    apply (frame_intro st _ [{| o_groups := [ws; ws] |}] []); cbn; try assumption;
      try (rewrite app_nil_r; reflexivity); try reflexivity; [|constructor].
    constructor; [|constructor]. unfold obj_ok. cbn. repeat constructor; exact F.
  - (* ODecode *)
    unfold caller_view. destruct (nth_error (st_caller st) cv) as [v|] eqn:Ev; [|apply frame_same; exact I].
    set (d := read (st_heap st) v). set (id := length (st_objs st)).
    pose proof (preserves_alloc (st_heap st) (Obj id) d) as P1.
    pose proof (alloc_owner (st_heap st) (Obj id) d) as O1.
    destruct (alloc (st_heap st) (Obj id) d) as [h1 a] eqn:Ea. cbn [fst snd] in P1, O1.
    set (d2 := sub d (skip + hl) (length d - skip - hl)).
    pose proof (preserves_alloc h1 (Obj id) d2) as P2.
    pose proof (alloc_owner h1 (Obj id) d2) as O2.
    destruct (alloc h1 (Obj id) d2) as [h2 t] eqn:Et. cbn [fst snd] in P2, O2.
    assert (P : preserves (st_heap st) h2) by (eapply preserves_trans; eassumption).
    assert (Oa : cell_owner h2 a = Some (Obj id)) by (apply (P2 _ _ O1)).
    apply (frame_intro st _ [{| o_groups := decoded_groups k a (length d) skip hl t |}] []); cbn; try assumption;
      try (rewrite app_nil_r; reflexivity); try reflexivity; [|constructor].
    constructor; [|constructor]. unfold obj_ok, decoded_groups.
    destruct k; repeat constructor; exists id; cbn; assumption.
  - (* OGet *)
    set (d := obs st o g).
    pose proof (preserves_alloc (st_heap st) Caller d) as P.
    pose proof (alloc_owner (st_heap st) Caller d) as O.
    destruct (alloc (st_heap st) Caller d) as [h1 a] eqn:Ea. cbn [fst snd] in P, O.
    apply (frame_intro st _ [] [whole a (length d)]); cbn; try assumption;
      try (rewrite app_nil_r; reflexivity); try reflexivity; try constructor; try assumption; constructor.
  - (* OAppend *)
    unfold caller_view. destruct (nth_error (st_caller st) cv) as [v|] eqn:Ev; [|apply frame_same; exact I].
    assert (Ic' := Ic). rewrite Forall_forall in Ic'. pose proof (Ic' v (nth_error_In _ _ Ev)) as Hv.
    pose proof (preserves_update_caller (st_heap st) (v_cell v)
                  (fun old => firstn (v_off v + v_len v) old ++ obs st o g) Hv) as P.
    apply (frame_intro st _ [] [{| v_cell := v_cell v; v_off := v_off v; v_len := v_len v + length (obs st o g) |}]);
      cbn; try assumption; try (rewrite app_nil_r; reflexivity); try reflexivity; try constructor; try constructor.
    unfold caller_owned. cbn. apply (P _ _ Hv).
  - (* OShare *)
    destruct (nth_error (st_objs st) o) as [ob|] eqn:Eo; [|apply frame_same; exact I].
    apply (frame_intro st _ [ob] []); cbn; try apply preserves_refl; try assumption;
      try (rewrite app_nil_r; reflexivity); try reflexivity; [|constructor].
    constructor; [|constructor]. rewrite Forall_forall in Io. apply Io. eapply nth_error_In. exact Eo.
Qed.

Lemma objs_monotone st p o : o < length (st_objs st) -> o < length (st_objs (step st p)).
Proof.
  intros L. destruct p; cbn [step]; unfold caller_view;
    repeat match goal with
           | |- context [match ?x with _ => _ end] => destruct x eqn:?
           end; cbn; try rewrite app_length; cbn; try lia.
Qed.

Lemma run_frame ops : forall st o g, inv st -> forallb (fun p => negb (is_owned p)) ops = true ->
  o < length (st_objs st) ->
  inv (run st ops) /\ obs (run st ops) o g = obs st o g /\ o < length (st_objs (run st ops)).
Proof.
  induction ops as [|p r IH]; intros st o g I F L; unfold run in *; cbn [fold_left forallb] in *; [split; [exact I|split; [reflexivity|exact L]]|].
  apply andb_prop in F. destruct F as (Fp & Fr). apply negb_true_iff in Fp.
  destruct (step_frame st p I Fp) as (I' & P & K).
  pose proof (objs_monotone st p o L) as L'.
  destruct (IH (step st p) o g I' Fr L') as (I'' & E & L'').
  split; [exact I''|split; [|exact L'']]. rewrite E.
  apply obs_preserved; try assumption. intros ob. apply K.
Qed.

(** C12_noninterference: whatever the caller writes into any buffer it holds — arguments it passed,
    results it got back, append destinations — and whatever API calls follow, every observation of
    every object equals its observation when the object was created. *)
Theorem noninterference pre post o g :
  forallb (fun p => negb (is_owned p)) (pre ++ post) = true ->
  o < length (st_objs (run init pre)) ->
  obs (run init (pre ++ post)) o g = obs (run init pre) o g.
Proof.
  intros F L. rewrite forallb_app in F. apply andb_prop in F. destruct F as (Fpre & Fpost).
  unfold run at 1. rewrite fold_left_app. fold (run init pre). fold (run (run init pre) post).
  assert (I : inv (run init pre)).
  { destruct pre as [|p r]; [apply inv_init|].
    (* run_frame needs an existing object only for the obs part; the invariant part is generic *)
    clear L Fpost. revert Fpre. generalize (p :: r). intros ops. generalize inv_init. generalize init.
    induction ops as [|q s IH]; intros st I F; cbn in *; [exact I|].
    apply andb_prop in F. destruct F as (Fq & Fs). apply negb_true_iff in Fq.
    apply IH; [apply (step_frame st q I Fq)|exact Fs]. }
  apply (run_frame post (run init pre) o g I Fpost L).
Qed.

(** the disjointness the theorem rests on, as a reachable-state invariant *)
Theorem disjoint_ownership ops : forallb (fun p => negb (is_owned p)) ops = true -> inv (run init ops).
Proof.
  generalize inv_init. generalize init. induction ops as [|q s IH]; intros st I F; cbn in *; [exact I|].
  apply andb_prop in F. destruct F as (Fq & Fs). apply negb_true_iff in Fq.
  apply IH; [apply (step_frame st q I Fq)|exact Fs].
Qed.

(** Positive control: with the ownership-transferring entry point the same caller write DOES change
    an observation — the exclusion in the statement is necessary, and the model is not blind. *)
Theorem owned_interferes : exists pre post o g,
  o < length (st_objs (run init pre)) /\
  obs (run init (pre ++ post)) o g <> obs (run init pre) o g.
Proof.
  exists [ONew [33%Z; 2%Z; 7%Z; 8%Z]; ODecodeOwned 0 KAlias 0 2], [OWrite 0 3 9%Z], 0, 0.
  split; [cbn; lia|]. cbv. discriminate.
Qed.
