(** Bridge for the lifecycle / backoff models (C10, C11).

    nextBackoffDelay itself is float64 code, outside the translator's subset: it is modelled by hand
    (Hsms/Backoff.v) and tied to the source by the bit-exact hook differential and the source-shape
    guard of checks/C11.py. What the translator regenerates from the current source on every check
    are the package constants the lifecycle model and its harness logs name: the ConnState and
    OpenMode values (case lines and monitors carry these codes), the closed bit the supervisor ORs
    into its state word when it latches evClose (the fence behind [lc_latch] in [lc_tcpup]), and the
    poll interval of waitSelected. If one changes in the source, a lemma here stops compiling. *)
From Coq Require Import ZArith.
From GoSecs Require Import Gen.Gen Hsms.Lifecycle.
Open Scope Z_scope.

Definition Backoff_cstate_code (c : lc_cstate) : Z :=
  match c with LcNC => 0 | LcNS => 1 | LcSEL => 2 end.
Definition Backoff_omode_code (m : lc_omode) : Z :=
  match m with LcWaitSel => 0 | LcBackground => 1 end.

Lemma bridge_NotConnectedState : Gen.hsms.NotConnectedState = Backoff_cstate_code LcNC.
Proof. reflexivity. Qed.
Lemma bridge_NotSelectedState : Gen.hsms.NotSelectedState = Backoff_cstate_code LcNS.
Proof. reflexivity. Qed.
Lemma bridge_SelectedState : Gen.hsms.SelectedState = Backoff_cstate_code LcSEL.
Proof. reflexivity. Qed.
Lemma bridge_OpenWaitSelected : Gen.hsms.OpenWaitSelected = Backoff_omode_code LcWaitSel.
Proof. reflexivity. Qed.
Lemma bridge_OpenBackground : Gen.hsms.OpenBackground = Backoff_omode_code LcBackground.
Proof. reflexivity. Qed.

(** the closed bit lies outside every ConnState value, so a CAS on a plain state value can never
    succeed on a latched word (the fence modelled by [lc_latch]) *)
Lemma bridge_stateClosedBit : Gen.hsms.stateClosedBit = 256 /\
  forall c, Z.land (Backoff_cstate_code c) Gen.hsms.stateClosedBit = 0.
Proof. split; [reflexivity|]. intros []; reflexivity. Qed.

Lemma bridge_selectPollInterval : Gen.hsms.selectPollInterval = 2000000.
Proof. reflexivity. Qed.

Lemma bridge_lifecycle_constants :
  Gen.hsms.NotConnectedState = 0 /\ Gen.hsms.NotSelectedState = 1 /\ Gen.hsms.SelectedState = 2 /\
  Gen.hsms.OpenWaitSelected = 0 /\ Gen.hsms.OpenBackground = 1 /\ Gen.hsms.stateClosedBit = 256.
Proof. repeat split; reflexivity. Qed.
