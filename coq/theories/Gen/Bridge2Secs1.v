(** Bridge (translator v2): the SECS-I block functions REGENERATED from secs1/block.go into
    [Gen/Gen2.v] ([buildHeader], [block.appendTo], [parseBlock]; plus internal/wire's [Chunk]) equal
    the hand-written model of Secs1/Block.v. [Gen2.v] is rewritten from the current source by
    [bin/vtie2] (translator flag -out2); a change to one of these functions changes the generated
    definition and a lemma here stops compiling.

    Every generated function returns [gres]: [GOk v] = returns [v], [GPanic] = the Go function
    panics. Each bridge lemma therefore also states that the function does not panic on the
    inputs it covers. *)
From Coq Require Import String.
From Coq Require Import ZArith Bool List Lia ZifyBool.
From GoSecs Require Import Base.GoInt Base.BytesBE Base.GoSlice Gen.Gen2 Secs1.Block.
Import ListNotations.
Open Scope Z_scope.

(** ** byte-level arithmetic facts *)

Lemma wrapU8_wrapS64 x : wrapU 8 (wrapS 64 x) = x mod 256.
Proof.
  unfold wrapU, wrapS. cbv zeta.
  change (2 ^ 8) with 256. change (2 ^ 64) with 18446744073709551616.
  change (2 ^ (64 - 1)) with 9223372036854775808.
  destruct (x mod 18446744073709551616 <? 9223372036854775808);
    Z.div_mod_to_equations; lia.
Qed.

Lemma wrapS64_small x : - 2 ^ 63 <= x < 2 ^ 63 -> wrapS 64 x = x.
Proof. intros. apply wrapS_id; [lia|]. unfold inS. change (64 - 1) with 63. lia. Qed.

Lemma shrU16_8 x : shrU 16 x 8 = x / 256.
Proof. unfold shrU. cbn [Z.ltb Z.compare Pos.compare Pos.compare_cont]. rewrite Z.shiftr_div_pow2 by lia. reflexivity. Qed.

Lemma wrapU8 x : wrapU 8 x = x mod 256.
Proof. reflexivity. Qed.

Lemma land127 x : Z.land x 127 = x mod 128.
Proof. change 127 with (Z.ones 7). rewrite Z.land_ones by lia. reflexivity. Qed.

Lemma land65535 x : Z.land x 65535 = x mod 65536.
Proof. change 65535 with (Z.ones 16). rewrite Z.land_ones by lia. reflexivity. Qed.

Lemma lor128_byte y : 0 <= y < 256 -> Z.lor y 128 = y mod 128 + 128.
Proof.
  intros H.
  assert (A : allb_upto 256 (fun y => Z.lor y 128 =? y mod 128 + 128) = true) by (vm_compute; reflexivity).
  apply (allb_upto_spec _ _ A) in H. lia.
Qed.

Lemma hi_flag_gen v (f : bool) :
  (if f then Z.lor (wrapU 8 (shrU 16 v 8)) 128 else wrapU 8 (shrU 16 v 8)) = hi_flag v f.
Proof.
  unfold hi_flag. rewrite shrU16_8, wrapU8. destruct f; [|reflexivity].
  rewrite lor128_byte by (apply Z.mod_pos_bound; lia).
  f_equal. Z.div_mod_to_equations; lia.
Qed.

Lemma stream_flag_gen s (w : bool) :
  (if w then Z.lor (Z.land s 127) 128 else Z.land s 127) = s mod 128 + (if w then 128 else 0).
Proof.
  rewrite land127. destruct w; [|lia].
  rewrite lor128_byte by (Z.div_mod_to_equations; lia).
  f_equal. Z.div_mod_to_equations; lia.
Qed.

(** ** correspondence of values *)
Definition mh_of (h : mheader) : Gen2.secs1.messageHeader :=
  Gen2.secs1.mk_messageHeader (h_dev h) (h_rbit h) (h_stream h) (h_func h) (h_wbit h) (h_sys h).

Definition blk_of (b : block) : Gen2.secs1.block :=
  Gen2.secs1.mk_block (b_hdr b) (Gen2.wire.mk_Chunk (b_body b)).

(** ** buildHeader.  Hypotheses = the Go types of the operands ([function] is a [uint8], the
    system bytes a [[4]byte]); [deviceID], [blockNumber], [stream] may be any integers. *)
Lemma bridge_buildHeader h num last :
  0 <= h_func h < 256 -> length (h_sys h) = 4%nat ->
  Gen2.secs1.buildHeader (mh_of h) num last = GOk (build_header h num last).
Proof.
  destruct h as [dev rbit stream fn wbit sys]. cbn [h_func h_sys]. intros Hf Hs.
  destruct sys as [|s0 [|s1 [|s2 [|s3 [|? ?]]]]]; try discriminate.
  unfold build_header, mh_of. cbn [h_dev h_rbit h_stream h_func h_wbit h_sys app].
  rewrite <- (hi_flag_gen dev rbit), <- (hi_flag_gen num last), <- (stream_flag_gen stream wbit).
  rewrite (Z.mod_small fn 256) by lia.
  change (dev mod 256) with (wrapU 8 dev). change (num mod 256) with (wrapU 8 num).
  unfold Gen2.secs1.buildHeader.
  cbn [Gen2.secs1.messageHeader_deviceID Gen2.secs1.messageHeader_rBit Gen2.secs1.messageHeader_stream
       Gen2.secs1.messageHeader_function Gen2.secs1.messageHeader_waitBit Gen2.secs1.messageHeader_systemBytes].
  generalize (wrapU 8 (shrU 16 dev 8)) (wrapU 8 (shrU 16 num 8)) (Z.land stream 127) (wrapU 8 dev) (wrapU 8 num).
  intros a b c d e.
  destruct rbit, wbit, last; reflexivity.
Qed.

(** ** block.appendTo — for EVERY block and destination (no hypothesis): never panics, and the
    bytes appended are exactly [append_block]. *)
Lemma checksum_loop (l : list Z) (R : Type) :
  range_loop (R := R) (fun _ v sum => GOk (LNext (wrapU 32 (sum + wrapU 32 v)))) 0 l 0
  = GOk (LDone (wrapU 32 (sum_bytes l))).
Proof.
  rewrite (range_loop_fold _ (fun s v => wrapU 32 (s + wrapU 32 v))) by reflexivity.
  rewrite fold_wrapped_sum_ranged by lia. reflexivity.
Qed.

Lemma checksum_gen l : wrapU 16 (Z.land (wrapU 32 (sum_bytes l)) 65535) = checksum l.
Proof.
  unfold checksum. rewrite land65535. unfold wrapU.
  change (2 ^ 16) with 65536. change (2 ^ 32) with 4294967296.
  Z.div_mod_to_equations; lia.
Qed.

Lemma bridge_appendTo b dst :
  Gen2.secs1.block_appendTo (blk_of b) dst = GOk (dst ++ append_block b).
Proof.
  destruct b as [hdr body]. unfold blk_of, append_block. cbn [b_hdr b_body].
  unfold Gen2.secs1.block_appendTo, Gen2.wire.Chunk_Len, Gen2.wire.Chunk_AppendTo.
  cbn [Gen2.secs1.block_body Gen2.secs1.block_header Gen2.wire.Chunk_b gbind].
  set (d1 := dst ++ [wrapU 8 (wrapS 64 (10 + go_len body))]).
  replace ((d1 ++ hdr) ++ body) with (d1 ++ (hdr ++ body)) by (rewrite app_assoc; reflexivity).
  rewrite go_len_app.
  rewrite go_slice_ok by (rewrite ?go_len_app; pose proof (go_len_nonneg d1); pose proof (go_len_nonneg hdr); pose proof (go_len_nonneg body); lia).
  rewrite sub_app_r. cbn [gbind].
  rewrite checksum_loop. cbn [loop_k].
  rewrite checksum_gen. rewrite shrU16_8, !wrapU8.
  subst d1. rewrite wrapU8_wrapS64. unfold block_header_size, zlen, go_len.
  rewrite <- !app_assoc. cbn [app]. reflexivity.
Qed.

(** ** parseBlock — for every length byte (a Go [byte]) and every slice: never panics; same
    block, same error class. *)
Definition zero_block : Gen2.secs1.block := Gen2.secs1.mk_block (go_zeros 10) (Gen2.wire.mk_Chunk []).

Definition parse_result_of (r : result block) : Gen2.secs1.block * goerror :=
  match r with
  | Ok b => (blk_of b, ErrNil)
  | Err EChecksum => (zero_block, ErrIs "ErrChecksumMismatch"%string)
  | Err _ => (zero_block, ErrIs "ErrInvalidLength"%string)
  end.

Lemma sub_two (l : list Z) n : (S (S n) = length l)%nat ->
  sub l (Z.of_nat n) (Z.of_nat n + 2) = [nth n l 0; nth (S n) l 0].
Proof.
  intros H. unfold sub. replace (Z.of_nat n + 2 - Z.of_nat n) with 2 by lia. rewrite Nat2Z.id.
  rewrite <- (firstn_skipn n l) at 1.
  assert (L : length (firstn n l) = n) by (rewrite firstn_length; lia).
  rewrite skipn_app, skipn_all2 by lia. rewrite L, Nat.sub_diag. cbn [skipn app].
  assert (L2 : length (skipn n l) = 2%nat) by (rewrite skipn_length; lia).
  rewrite <- (firstn_skipn n l) at 2 3.
  rewrite !app_nth2 by lia. rewrite L. replace (n - n)%nat with 0%nat by lia. replace (S n - n)%nat with 1%nat by lia.
  destruct (skipn n l) as [|x [|y [|? ?]]]; try discriminate. reflexivity.
Qed.

Lemma be_get_two a b : be_get 2 [a; b] = GOk (a * 256 + b).
Proof.
  unfold be_get. replace (go_len [a; b] <? Z.of_nat 2) with false by reflexivity.
  cbn [firstn]. rewrite be_dec_2. reflexivity.
Qed.

Lemma copy_header rest : 10 <= go_len rest ->
  splice (go_zeros 10) 0 (go_copy (go_zeros 10) (sub rest 0 10)) = firstn 10 rest.
Proof.
  intros H. rewrite sub_prefix. unfold splice, go_copy, go_zeros. change (Z.to_nat 10) with 10%nat.
  assert (L10 : length (firstn 10 rest) = 10%nat) by (rewrite firstn_length; unfold go_len in H; lia).
  rewrite repeat_length, L10. rewrite firstn_firstn. change (Nat.min 10 10) with 10%nat.
  rewrite skipn_all2 by (rewrite repeat_length; lia). rewrite app_nil_r, L10.
  change (Z.to_nat 0) with 0%nat. cbn [firstn app Nat.add].
  rewrite skipn_all2 by (rewrite repeat_length; lia). apply app_nil_r.
Qed.

Lemma bridge_parseBlock lb rest :
  0 <= lb < 256 ->
  Gen2.secs1.parseBlock lb rest = GOk (parse_result_of (parse_block lb rest)).
Proof.
  intros Hlb. unfold Gen2.secs1.parseBlock, parse_block.
  unfold min_block_length, max_block_length, checksum_size, zlen.
  rewrite wrapS64_small by lia. cbv zeta.
  destruct (orb (lb <? 10) (lb >? 254)) eqn:C1.
  { replace (orb (Z.ltb lb 10) (Z.gtb lb 254)) with true. reflexivity. }
  replace (orb (Z.ltb lb 10) (Z.gtb lb 254)) with false.
  rewrite wrapS64_small by lia. fold (go_len rest).
  destruct (negb (go_len rest =? lb + 2)) eqn:C2; [reflexivity|].
  assert (Hlen : go_len rest = lb + 2) by lia.
  assert (Hn : Z.of_nat (Z.to_nat lb) = lb) by lia.
  rewrite go_slice_ok by lia. cbn [gbind]. rewrite sub_prefix.
  rewrite checksum_loop. cbn [loop_k].
  rewrite go_slice_ok by lia. cbn [gbind].
  rewrite <- Hn at 1 2. rewrite sub_two by (unfold go_len in Hlen; lia).
  rewrite be_get_two. cbn [gbind].
  rewrite checksum_gen.
  destruct (negb (checksum (firstn (Z.to_nat lb) rest) =? nth (Z.to_nat lb) rest 0 * 256 + nth (S (Z.to_nat lb)) rest 0)) eqn:C3;
    [reflexivity|].
  rewrite go_slice_ok by lia. cbn [gbind].
  rewrite go_slice_ok by lia. cbn [gbind]. unfold Gen2.wire.ChunkOf. cbn [gbind].
  cbn [parse_result_of]. unfold blk_of. cbn [b_hdr b_body]. do 3 f_equal.
  - (* header: copy(hdr[:], rest[:10]) *)
    apply copy_header. lia.
  - (* body: rest[10:n] *)
    f_equal. unfold sub. rewrite skipn_firstn_comm. f_equal. lia.
Qed.
