(** Bridge (translator v2): the E37 supervisor REGENERATED from hsms/supervisor.go ([Gen2.hsms]:
    transition, the three commits, inject / requestClose, emit, fireTransition, step) against the
    hand model Hsms/Supervisor.v, one atomic step of the model per translated call.

    The Go record is the image [sup_of] of a model state: state word = state number + 256 when the
    closed bit is set; events / notify = the model's queue / notification buffer (capacity 16);
    pendingUps = the number of TCP-up echoes queued (a coupling: the code keeps a counter where the
    model looks at the queue); droppedNotify = the model's drop count. The reaction callback is an
    outgoing call, logged; [testHookAfterStateLoad] likewise when installed (it is the seam between
    the model's [StepLoad] and [StepFinish]: the regenerated [step] is their composition, nothing
    happening in between).

    Trusted: sync/atomic operations as single sequential steps; the channel model [gchan]
    (Base/GoSlice.v): a blocking send on a full channel is GPanic, so every lemma that enqueues
    carries "there is room"; [runDone] is open (the supervisor goroutine is live); the pinned
    epoch's teardown is outside the hand model (dropped). *)
From Coq Require Import String.
From Coq Require Import ZArith Bool List Lia.
From GoSecs Require Import Base.GoInt Base.GoSlice Gen.Gen Gen.Gen2 Hsms.Supervisor Gen.BridgeSupervisor.
Import ListNotations.
Open Scope Z_scope.
Module G := Gen2.hsms.

Definition word (c : cstate) (b : bool) : Z := cstate_z c + (if b then 256 else 0).
Definition sc_of (x : cstate * cstate) : G.stateChange := G.mk_stateChange (cstate_z (fst x)) (cstate_z (snd x)).
Definition count_upc (q : list event) : nat := length (filter is_upc q).

(** what the Go record holds beyond the model state *)
Record env := { e_cap : Z; e_hook : bool; e_epoch : option G.epoch; e_lld : Z;
                e_reacts : list (Z * Z); e_hooks : list Z }.

Definition sup_of (m : sup) (pend : Z) (e : env) : G.supervisor :=
  G.mk_supervisor (word (st m) (clbit m)) pend (cstate_z (lastr m)) (closed m)
    (mk_gchan (map event_z (queue m)) (e_cap e))
    (mk_gchan (map sc_of (nbuf m)) 16) (Z.of_nat (dropped m)) true (e_epoch e) (e_lld e) (e_hook e)
    (e_reacts e) (e_hooks e).

Definition pend_of (q : list event) : Z := Z.of_nat (count_upc q).

(** * the transition table *)
Lemma bridge2_transition c e :
  G.transition (cstate_z c) (event_z e) = GOk (cstate_z (fst (transition c e)), snd (transition c e)).
Proof. destruct c, e; vm_compute; reflexivity. Qed.

Lemma bridge2_isCommitEcho e : G.isCommitEcho (event_z e) = GOk (is_echo e).
Proof. destruct e; vm_compute; reflexivity. Qed.

Lemma cur_of c b : wrapU 32 (Z.land (word c b) (wrapU 32 (Z.lnot 256))) = cstate_z c.
Proof. destruct c, b; vm_compute; reflexivity. Qed.

Lemma bridge2_State m p e : G.supervisor_State (Some (sup_of m p e)) = GOk (cstate_z (st m)).
Proof. unfold G.supervisor_State, sup_of. cbn [go_deref gbind G.supervisor_state]. rewrite cur_of. reflexivity. Qed.

(** * inject *)
Definition enq (m : sup) (ev : event) : sup :=
  {| st := st m; clbit := clbit m; queue := queue m ++ [ev]; pc := pc m; lastr := lastr m;
     closed := closed m; nbuf := nbuf m; dropped := dropped m |}.

Lemma bridge_inject m p e ev : Z.of_nat (length (queue m)) < e_cap e ->
  G.supervisor_inject (Some (sup_of m p e)) (event_z ev) = GOk (Some (sup_of (enq m ev) p e), tt).
Proof.
  intros H. unfold G.supervisor_inject, sup_of. cbn [go_deref gbind G.supervisor_events].
  unfold ch_send, ch_room, ch_len. cbn [ch_buf ch_cap]. rewrite map_length.
  replace (Z.of_nat (length (queue m)) <? e_cap e) with true by lia.
  cbn [gbind go_deref]. unfold ch_push, enq. cbn [ch_buf ch_cap queue st clbit lastr closed nbuf dropped].
  rewrite map_app. reflexivity.
Qed.

(** * the three synchronous commits = the model's [commit] on (state word, queue) *)
Definition committed (o : list obs) : bool := match o with [] => false | _ => true end.

Lemma count_upc_app q ev : count_upc (q ++ [ev]) = (count_upc q + (if is_upc ev then 1 else 0))%nat.
Proof. unfold count_upc. rewrite filter_app, app_length. cbn [filter]. destruct (is_upc ev); reflexivity. Qed.

Lemma count_upc_le q : (count_upc q <= length q)%nat.
Proof.
  unfold count_upc. induction q as [|x q IH]; [apply le_n|]. cbn [filter length].
  destruct (is_upc x); cbn [length]; lia.
Qed.

Lemma pend_inc q : Z.of_nat (length q) < 2 ^ 31 - 1 -> wrapS 32 (pend_of q + 1) = pend_of (q ++ [EvUpC]).
Proof.
  intros H. unfold pend_of. rewrite count_upc_app. cbn [is_upc]. pose proof (count_upc_le q).
  rewrite wrapS_id; [lia|lia|]. unfold inS. change (32 - 1) with 31. lia.
Qed.

Lemma pend_same q ev : is_upc ev = false -> pend_of (q ++ [ev]) = pend_of q.
Proof. intros H. unfold pend_of. rewrite count_upc_app, H. f_equal. lia. Qed.

Ltac words := repeat match goal with |- context [word ?a ?b] =>
  let v := eval vm_compute in (word a b) in change (word a b) with v end.
Ltac czs := repeat match goal with |- context [cstate_z ?a] =>
  is_constructor a; let v := eval vm_compute in (cstate_z a) in change (cstate_z a) with v end.

Lemma room_true (A : Type) (l : list A) c : Z.of_nat (length l) < c -> ch_room (mk_gchan l c) = true.
Proof. intros H. unfold ch_room, ch_len. cbn [ch_buf ch_cap]. lia. Qed.

Lemma bridge_CommitConnected m e :
  Z.of_nat (length (queue m)) < e_cap e -> e_cap e < 2 ^ 31 ->
  G.supervisor_CommitConnected (Some (sup_of m (pend_of (queue m)) e)) =
  let '(m', o) := commit NC NS EvUpC m in GOk (Some (sup_of m' (pend_of (queue m')) e), committed o).
Proof.
  intros Hr Hc. destruct m as [s b q p l c nb d]. cbn [queue] in *.
  assert (R : ch_room (mk_gchan (map event_z q) (e_cap e)) = true) by (apply room_true; rewrite map_length; lia).
  destruct s, b; unfold G.supervisor_CommitConnected, G.supervisor_inject, sup_of, commit;
    cbn [st clbit queue pc lastr closed nbuf dropped cstate_beq andb negb committed]; words;
    cbn -[pend_of wrapS Z.add]; try reflexivity.
  unfold ch_send. cbn [G.supervisor_events]. rewrite R. cbn -[pend_of wrapS Z.add].
  rewrite pend_inc by lia. unfold ch_push. cbn [ch_buf ch_cap]. rewrite map_app. reflexivity.
Qed.

Lemma bridge_CommitSelected m e :
  Z.of_nat (length (queue m)) < e_cap e ->
  G.supervisor_CommitSelected (Some (sup_of m (pend_of (queue m)) e)) =
  let '(m', o) := commit NS SEL EvSelAccC m in GOk (Some (sup_of m' (pend_of (queue m')) e), committed o).
Proof.
  intros Hr. destruct m as [s b q p l c nb d]. cbn [queue] in *.
  assert (R : ch_room (mk_gchan (map event_z q) (e_cap e)) = true) by (apply room_true; rewrite map_length; lia).
  destruct s, b; unfold G.supervisor_CommitSelected, G.supervisor_inject, sup_of, commit;
    cbn [st clbit queue pc lastr closed nbuf dropped cstate_beq andb negb committed]; words;
    cbn -[pend_of wrapS Z.add]; try reflexivity.
  unfold ch_send. cbn [G.supervisor_events]. rewrite R. cbn -[pend_of wrapS Z.add].
  rewrite pend_same by reflexivity. unfold ch_push. cbn [ch_buf ch_cap]. rewrite map_app. reflexivity.
Qed.

Lemma bridge_CommitSelectLost m e :
  Z.of_nat (length (queue m)) < e_cap e ->
  G.supervisor_CommitSelectLost (Some (sup_of m (pend_of (queue m)) e)) =
  let '(m', o) := commit SEL NS EvSelLostC m in GOk (Some (sup_of m' (pend_of (queue m')) e), committed o).
Proof.
  intros Hr. destruct m as [s b q p l c nb d]. cbn [queue] in *.
  assert (R : ch_room (mk_gchan (map event_z q) (e_cap e)) = true) by (apply room_true; rewrite map_length; lia).
  destruct s, b; unfold G.supervisor_CommitSelectLost, G.supervisor_inject, sup_of, commit;
    cbn [st clbit queue pc lastr closed nbuf dropped cstate_beq andb negb committed]; words;
    cbn -[pend_of wrapS Z.add]; try reflexivity.
  unfold ch_send. cbn [G.supervisor_events]. rewrite R. cbn -[pend_of wrapS Z.add].
  rewrite pend_same by reflexivity. unfold ch_push. cbn [ch_buf ch_cap]. rewrite map_app. reflexivity.
Qed.

(** * emit / fireTransition = the model's [emit_buf] / [fire] on the notification buffer *)
Lemma bridge_emit w p lr cl evs nb d ce ll h rl hl x :
  (length nb <= 16)%nat -> Z.of_nat d < 2 ^ 64 - 1 ->
  G.supervisor_emit (Some (G.mk_supervisor w p lr cl evs (mk_gchan (map sc_of nb) 16) (Z.of_nat d) true ce ll h rl hl)) (sc_of x) =
  let '(nb', _, dd) := emit_buf nb x in
  GOk (Some (G.mk_supervisor w p lr cl evs (mk_gchan (map sc_of nb') 16) (Z.of_nat (d + dd)) true ce ll h rl hl), tt).
Proof.
  intros Hn Hd. unfold G.supervisor_emit, emit_buf, notify_cap.
  cbn [go_deref gbind G.supervisor_notify]. unfold ch_room at 1, ch_len. cbn [ch_buf ch_cap]. rewrite map_length.
  destruct (Nat.ltb (length nb) 16) eqn:C.
  - apply Nat.ltb_lt in C. replace (Z.of_nat (length nb) <? 16) with true by lia.
    cbn [gbind go_deref G.set_supervisor_notify G.supervisor_state G.supervisor_pendingUps G.supervisor_lastReacted
         G.supervisor_closed G.supervisor_events G.supervisor_notify G.supervisor_droppedNotify G.supervisor_react
         G.supervisor_closeEpoch G.supervisor_lastLoggedDropped G.supervisor_testHookAfterStateLoad
         G.supervisor_react_log G.supervisor_testHookAfterStateLoad_log].
    unfold ch_push. cbn [ch_buf ch_cap]. rewrite map_app, Nat.add_0_r. reflexivity.
  - apply Nat.ltb_ge in C. replace (Z.of_nat (length nb) <? 16) with false by lia.
    destruct nb as [|o r]; [cbn [length] in C; lia|].
    cbn [length] in Hn, C. assert (Lr : length r = 15%nat) by lia.
    cbn [gbind go_deref map G.supervisor_notify]. unfold ch_nonempty at 1. cbn [ch_buf].
    cbn [gbind go_deref G.set_supervisor_notify G.set_supervisor_droppedNotify G.supervisor_state G.supervisor_pendingUps G.supervisor_lastReacted
         G.supervisor_closed G.supervisor_events G.supervisor_notify G.supervisor_droppedNotify G.supervisor_react
         G.supervisor_closeEpoch G.supervisor_lastLoggedDropped G.supervisor_testHookAfterStateLoad
         G.supervisor_react_log G.supervisor_testHookAfterStateLoad_log].
    unfold ch_pop. cbn [ch_buf ch_cap tl]. unfold ch_send.
    rewrite room_true by (rewrite map_length; lia).
    cbn [gbind go_deref G.set_supervisor_notify G.set_supervisor_droppedNotify G.supervisor_state G.supervisor_pendingUps G.supervisor_lastReacted
         G.supervisor_closed G.supervisor_events G.supervisor_notify G.supervisor_droppedNotify G.supervisor_react
         G.supervisor_closeEpoch G.supervisor_lastLoggedDropped G.supervisor_testHookAfterStateLoad
         G.supervisor_react_log G.supervisor_testHookAfterStateLoad_log].
    unfold ch_push. cbn [ch_buf ch_cap]. rewrite map_app.
    replace (wrapU 64 (Z.of_nat d + 1)) with (Z.of_nat (d + 1)); [reflexivity|].
    rewrite wrapU_id; [lia|]. unfold inU. lia.
Qed.

Lemma bridge_fire w p lr cl evs nb d ce ll h rl hl a b :
  (length nb <= 16)%nat -> Z.of_nat d < 2 ^ 64 - 1 ->
  G.supervisor_fireTransition (Some (G.mk_supervisor w p lr cl evs (mk_gchan (map sc_of nb) 16) (Z.of_nat d) true ce ll h rl hl))
                              (cstate_z a) (cstate_z b) =
  let '(nb', _, dd) := fire nb a b in
  GOk (Some (G.mk_supervisor w p lr cl evs (mk_gchan (map sc_of nb') 16) (Z.of_nat (d + dd)) true ce ll h
                             (rl ++ [(cstate_z a, cstate_z b)]) hl), tt).
Proof.
  intros Hn Hd. unfold G.supervisor_fireTransition, fire.
  change (G.mk_stateChange (cstate_z a) (cstate_z b)) with (sc_of (a, b)).
  destruct (Z.eqb (cstate_z b) 0) eqn:C.
  - rewrite bridge_emit by assumption. destruct (emit_buf nb (a, b)) as [[nb' eo] dd].
    cbn [gbind go_deref G.supervisor_react G.set_supervisor_react_log G.supervisor_state G.supervisor_pendingUps G.supervisor_lastReacted
         G.supervisor_closed G.supervisor_events G.supervisor_notify G.supervisor_droppedNotify G.supervisor_react
         G.supervisor_closeEpoch G.supervisor_lastLoggedDropped G.supervisor_testHookAfterStateLoad
         G.supervisor_react_log G.supervisor_testHookAfterStateLoad_log].
    destruct b; try discriminate C; reflexivity.
  - cbn [gbind go_deref G.supervisor_react G.set_supervisor_react_log G.supervisor_state G.supervisor_pendingUps G.supervisor_lastReacted
         G.supervisor_closed G.supervisor_events G.supervisor_notify G.supervisor_droppedNotify G.supervisor_react
         G.supervisor_closeEpoch G.supervisor_lastLoggedDropped G.supervisor_testHookAfterStateLoad
         G.supervisor_react_log G.supervisor_testHookAfterStateLoad_log].
    unfold G.set_supervisor_react_log.
    cbn [G.supervisor_state G.supervisor_pendingUps G.supervisor_lastReacted
         G.supervisor_closed G.supervisor_events G.supervisor_notify G.supervisor_droppedNotify G.supervisor_react
         G.supervisor_closeEpoch G.supervisor_lastLoggedDropped G.supervisor_testHookAfterStateLoad
         G.supervisor_react_log G.supervisor_testHookAfterStateLoad_log].
    rewrite bridge_emit by assumption. destruct (emit_buf nb (a, b)) as [[nb' eo] dd].
    cbn [gbind go_deref]. destruct b; try discriminate C; reflexivity.
Qed.

(** the order inside fireTransition (not visible in the final record, whose reaction log and
    notification buffer are separate fields): for a terminal NotConnected the notification is put
    on the buffer BEFORE the reaction callback runs; for every other transition after it. *)
Lemma fire_order_terminal s p :
  G.supervisor_fireTransition s p 0 =
  gbind (G.supervisor_emit s (G.mk_stateChange p 0)) (fun r =>
    let '(t2, _) := r in
    gbind (go_deref t2) (fun t4 =>
      gbind (go_deref (Some t4)) (fun t5 =>
        gbind (if G.supervisor_react t5 then GOk tt else GPanic) (fun _ =>
          GOk (Some (G.set_supervisor_react_log t5 (G.supervisor_react_log t5 ++ [(p, 0)])), tt))))).
Proof. reflexivity. Qed.

Lemma fire_order_other s p n : (n =? 0) = false ->
  G.supervisor_fireTransition s p n =
  gbind (go_deref s) (fun t7 =>
    gbind (if G.supervisor_react t7 then GOk tt else GPanic) (fun _ =>
      gbind (G.supervisor_emit (Some (G.set_supervisor_react_log t7 (G.supervisor_react_log t7 ++ [(p, n)])))
                               (G.mk_stateChange p n)) (fun r =>
        let '(t10, _) := r in gbind (go_deref t10) (fun t12 => GOk (Some t12, tt))))).
Proof. intros H. unfold G.supervisor_fireTransition. rewrite H. reflexivity. Qed.

(** * step = StepLoad ; StepFinish *)
Definition cz (z : Z) : cstate := if z =? 0 then NC else if z =? 1 then NS else SEL.

Lemma bridge_fire_z w p lr cl evs nb d ce ll h rl hl pz nz :
  (length nb <= 16)%nat -> Z.of_nat d < 2 ^ 64 - 1 ->
  (pz = 0 \/ pz = 1 \/ pz = 2) -> (nz = 0 \/ nz = 1 \/ nz = 2) ->
  G.supervisor_fireTransition (Some (G.mk_supervisor w p lr cl evs (mk_gchan (map sc_of nb) 16) (Z.of_nat d) true ce ll h rl hl)) pz nz =
  let '(nb', _, dd) := fire nb (cz pz) (cz nz) in
  GOk (Some (G.mk_supervisor w p lr cl evs (mk_gchan (map sc_of nb') 16) (Z.of_nat (d + dd)) true ce ll h
                             (rl ++ [(pz, nz)]) hl), tt).
Proof.
  intros Hn Hd Hp Hz.
  destruct Hp as [ -> | [ -> | -> ] ]; destruct Hz as [ -> | [ -> | -> ] ].
  - exact (bridge_fire w p lr cl evs nb d ce ll h rl hl NC NC Hn Hd).
  - exact (bridge_fire w p lr cl evs nb d ce ll h rl hl NC NS Hn Hd).
  - exact (bridge_fire w p lr cl evs nb d ce ll h rl hl NC SEL Hn Hd).
  - exact (bridge_fire w p lr cl evs nb d ce ll h rl hl NS NC Hn Hd).
  - exact (bridge_fire w p lr cl evs nb d ce ll h rl hl NS NS Hn Hd).
  - exact (bridge_fire w p lr cl evs nb d ce ll h rl hl NS SEL Hn Hd).
  - exact (bridge_fire w p lr cl evs nb d ce ll h rl hl SEL NC Hn Hd).
  - exact (bridge_fire w p lr cl evs nb d ce ll h rl hl SEL NS Hn Hd).
  - exact (bridge_fire w p lr cl evs nb d ce ll h rl hl SEL SEL Hn Hd).
Qed.

Definition reacts_of (o : list obs) : list (Z * Z) :=
  flat_map (fun x => match x with React a b => [(cstate_z a, cstate_z b)] | _ => [] end) o.

Definition env_after (e : env) (was_closed : bool) (ev : event) (o : list obs) : env :=
  {| e_cap := e_cap e; e_hook := e_hook e; e_epoch := e_epoch e; e_lld := e_lld e;
     e_reacts := e_reacts e ++ reacts_of o;
     e_hooks := e_hooks e ++ (if e_hook e && negb was_closed then [event_z ev] else []) |}.

Lemma pend_dec q : Z.of_nat (length q) < 2 ^ 31 -> wrapS 32 (pend_of (EvUpC :: q) + -1) = pend_of q.
Proof.
  intros H. unfold pend_of, count_upc. cbn [filter is_upc length]. pose proof (count_upc_le q). unfold count_upc in *.
  rewrite wrapS_id; [lia|lia|]. unfold inS. change (32 - 1) with 31. lia.
Qed.

Lemma pend_gtb q : (pend_of q >? 0) = existsb is_upc q.
Proof.
  unfold pend_of, count_upc. induction q as [|x q IH]; [reflexivity|]. cbn [filter existsb].
  destruct (is_upc x); cbn [length orb]; [lia|exact IH].
Qed.

Lemma pend_cons q ev : is_upc ev = false -> pend_of (ev :: q) = pend_of q.
Proof. intros H. unfold pend_of, count_upc. cbn [filter]. rewrite H. reflexivity. Qed.

Ltac islit x := lazymatch x with Z0 => idtac | Zpos _ => idtac | Zneg _ => idtac end.
Ltac lits := repeat match goal with
  | |- context [wrapU ?b (Z.land ?w (wrapU ?b (Z.lnot ?k)))] =>
      islit w; let t := constr:(wrapU b (Z.land w (wrapU b (Z.lnot k)))) in
      let v := eval vm_compute in t in change t with v
  | |- context [wrapU ?b ?x] =>
      islit x; let t := constr:(wrapU b x) in let v := eval vm_compute in t in change t with v
  end.

Definition deq (m : sup) (q : list event) : sup :=
  {| st := st m; clbit := clbit m; queue := q; pc := None; lastr := lastr m;
     closed := closed m; nbuf := nbuf m; dropped := dropped m |}.

Definition step2 (m : sup) : sup * list obs :=
  let '(m1, o1) := exec m StepLoad in let '(m2, o2) := exec m1 StepFinish in (m2, o1 ++ o2).

Lemma fire_reacts nb a b nb2 o2 dd : fire nb a b = (nb2, o2, dd) -> reacts_of o2 = [(cstate_z a, cstate_z b)].
Proof.
  unfold fire, emit_buf. intros H.
  destruct (Nat.ltb (length nb) notify_cap); [|destruct nb as [|o r]]; destruct b; inversion H; reflexivity.
Qed.

Ltac setters := unfold G.set_supervisor_state, G.set_supervisor_pendingUps, G.set_supervisor_lastReacted,
  G.set_supervisor_closed, G.set_supervisor_events, G.set_supervisor_notify, G.set_supervisor_droppedNotify,
  G.set_supervisor_closeEpoch, G.set_supervisor_testHookAfterStateLoad_log, G.set_supervisor_react_log.
Ltac norm := repeat (progress (cbn -[G.supervisor_fireTransition pend_of wrapS wrapU Z.land Z.lnot Z.add Z.of_nat
                                     fire existsb word cstate_z Nat.add]; setters; lits)).

(** [clbit m = closed m]: the closed bit of the state word and the run-owned latch are set together
    (and only) by the close step, so every reachable model state satisfies it (lemma
    [run_clbit_closed] below). It is needed because a plain [state.Store(next)] in the code writes
    the whole word (closed bit included) where the model's [step_finish] keeps [clbit]. *)
Theorem bridge_step m ev q e :
  pc m = None -> queue m = ev :: q -> clbit m = closed m ->
  Z.of_nat (length q) < 2 ^ 31 -> (length (nbuf m) <= 16)%nat -> Z.of_nat (dropped m) < 2 ^ 64 - 1 ->
  G.supervisor_step (Some (sup_of (deq m q) (pend_of (ev :: q)) e)) (event_z ev) =
  let '(m2, o) := step2 m in
  GOk (Some (sup_of m2 (pend_of q) (env_after e (closed m) ev o)), tt).
Proof.
  intros Hpc Hq Hcl HQ Hn Hd. destruct m as [s b q0 p l c nb d]. cbn [pc queue nbuf dropped clbit closed] in *. subst p q0 b.
  destruct e as [cap hk ep lld rl hl].
  destruct c.
  - (* latched closed: every event is ignored *)
    destruct ev; unfold G.supervisor_step, sup_of, deq, env_after, step2, exec;
      cbn [st clbit queue pc lastr closed nbuf dropped e_cap e_hook e_epoch e_lld e_reacts e_hooks];
      norm; rewrite ?pend_dec by assumption; rewrite ?pend_cons by reflexivity;
      rewrite ?andb_false_r, ?app_nil_r; reflexivity.
  - destruct ev, s, l, hk.
    all: unfold G.supervisor_step, sup_of, deq, env_after, step2, exec, step_finish;
      cbn [st clbit queue pc lastr closed nbuf dropped e_cap e_hook e_epoch e_lld e_reacts e_hooks]; words; czs.
    all: norm.
    all: rewrite ?pend_dec by assumption; rewrite ?pend_cons by reflexivity; rewrite ?pend_gtb.
    all: try destruct (existsb is_upc q); norm.
    all: rewrite ?bridge_fire_z by (first [assumption | auto]).
    all: change (cz 0) with NC; change (cz 1) with NS; change (cz 2) with SEL.
    all: try match goal with |- context [fire ?n ?a ?b] =>
           let F := fresh "F" in destruct (fire n a b) as [[nb2 o2] dd] eqn:F; apply fire_reacts in F end.
    all: norm.
    all: unfold reacts_of in *; rewrite ?flat_map_app; cbn [flat_map app]; rewrite ?F.
    all: rewrite ?app_nil_r; try reflexivity.
    all: try (destruct ep; reflexivity).
Qed.

(** * requestClose = the model's [Inject IClose] (the pinned epoch is outside the model) *)
Definition with_epoch (e : env) (ep : option G.epoch) : env :=
  {| e_cap := e_cap e; e_hook := e_hook e; e_epoch := ep; e_lld := e_lld e; e_reacts := e_reacts e; e_hooks := e_hooks e |}.

Lemma bridge_requestClose m p e ep : Z.of_nat (length (queue m)) < e_cap e ->
  G.supervisor_requestClose (Some (sup_of m p e)) ep =
  GOk (Some (sup_of (fst (exec m (Inject IClose))) p (with_epoch e ep)), tt).
Proof.
  intros H. unfold G.supervisor_requestClose.
  change (G.set_supervisor_closeEpoch (sup_of m p e) ep) with (sup_of m p (with_epoch e ep)) at 1 || idtac.
  cbn [go_deref gbind].
  change (G.set_supervisor_closeEpoch (sup_of m p e) ep) with (sup_of m p (with_epoch e ep)).
  change 4 with (event_z EvClose).
  rewrite (bridge_inject m p (with_epoch e ep) EvClose) by exact H. reflexivity.
Qed.

(** * the side condition of [bridge_step] holds in every reachable model state *)
Lemma exec_clbit_closed s a : clbit s = closed s -> clbit (fst (exec s a)) = closed (fst (exec s a)).
Proof.
  intros H. destruct s as [s b q p l c nb d]. cbn [clbit closed] in H. subst b.
  destruct a; cbn [exec]; unfold commit; cbn [st clbit queue pc lastr closed nbuf dropped].
  - destruct (cstate_beq s NC && negb c); reflexivity.
  - destruct (cstate_beq s NS && negb c); reflexivity.
  - destruct (cstate_beq s SEL && negb c); reflexivity.
  - reflexivity.
  - destruct p; [reflexivity|]. destruct q; [reflexivity|]. destruct c; reflexivity.
  - destruct p as [[ev cur]|]; [|reflexivity]. unfold step_finish.
    cbn [st clbit queue pc lastr closed nbuf dropped].
    destruct (existsb is_upc q); destruct ev, cur, s, l, c; cbn;
      repeat match goal with |- context [fire ?n ?a ?b] => destruct (fire n a b) as [[? ?] ?] end; reflexivity.
  - destruct nb; reflexivity.
Qed.

Lemma run_clbit_closed acts s : clbit s = closed s -> clbit (fst (run s acts)) = closed (fst (run s acts)).
Proof.
  revert s. induction acts as [|a r IH]; intros s H; [exact H|]. cbn [run].
  pose proof (exec_clbit_closed s a H) as H1. destruct (exec s a) as [s1 o1]. cbn [fst] in H1.
  specialize (IH s1 H1). destruct (run s1 r) as [s2 o2]. exact IH.
Qed.

Lemma fire_len nb a b : (length nb <= 16)%nat -> (length (fst (fst (fire nb a b))) <= 16)%nat.
Proof.
  unfold fire, emit_buf, notify_cap. intros H. destruct (Nat.ltb (length nb) 16) eqn:C.
  - apply Nat.ltb_lt in C. cbn [fst]. rewrite app_length. cbn [length]. lia.
  - destruct nb as [|o r]; cbn [fst length] in *; [lia|]. rewrite app_length. cbn [length]. lia.
Qed.

Lemma exec_nbuf_le s a : (length (nbuf s) <= 16)%nat -> (length (nbuf (fst (exec s a))) <= 16)%nat.
Proof.
  intros H. destruct s as [s b q p l c nb d]. cbn [nbuf] in H.
  destruct a; cbn [exec]; unfold commit; cbn [st clbit queue pc lastr closed nbuf dropped].
  - destruct (cstate_beq s NC && negb b); exact H.
  - destruct (cstate_beq s NS && negb b); exact H.
  - destruct (cstate_beq s SEL && negb b); exact H.
  - exact H.
  - destruct p; [exact H|]. destruct q; [exact H|]. destruct c; exact H.
  - destruct p as [[ev cur]|]; [|exact H]. unfold step_finish.
    cbn [st clbit queue pc lastr closed nbuf dropped].
    destruct (existsb is_upc q); destruct ev, cur, s, l, b; cbn;
      repeat match goal with |- context [fire ?n ?a ?b] =>
        let L := fresh "L" in pose proof (fire_len n a b H) as L; destruct (fire n a b) as [[? ?] ?]; cbn [fst] in L end;
      cbn; assumption.
  - destruct nb; cbn [fst nbuf length] in *; lia.
Qed.

Lemma run_nbuf_le acts s : (length (nbuf s) <= 16)%nat -> (length (nbuf (fst (run s acts))) <= 16)%nat.
Proof.
  revert s. induction acts as [|a r IH]; intros s H; [exact H|]. cbn [run].
  pose proof (exec_nbuf_le s a H) as H1. destruct (exec s a) as [s1 o1]. cbn [fst] in H1.
  specialize (IH s1 H1). destruct (run s1 r) as [s2 o2]. exact IH.
Qed.

Lemma run_side_conditions acts :
  let s := fst (run init acts) in clbit s = closed s /\ (length (nbuf s) <= 16)%nat.
Proof. split; [exact (run_clbit_closed acts init eq_refl)|exact (run_nbuf_le acts init (Nat.le_0_l 16))]. Qed.
