(** Bridge (translator v2): [appendHeaderBytesFC] REGENERATED from secs2/item.go into [Gen/Gen2.v]
    equals [header] of Secs2/Encode.v (format byte + minimal big-endian length bytes), and refuses
    a length field above [MaxByteSize] with an anonymous error, leaving [dst] unchanged. *)
From Coq Require Import String.
From Coq Require Import ZArith Bool List Lia ZifyBool.
From GoSecs Require Import Base.GoInt Base.BytesBE Base.GoSlice Gen.Gen2 Secs2.Encode.
Import ListNotations.
Open Scope Z_scope.

Lemma shrS64 x n : 0 <= n < 64 -> shrS 64 x n = x / 2 ^ n.
Proof. intros. unfold shrS. destruct (n <? 64) eqn:C; [|lia]. apply Z.shiftr_div_pow2. lia. Qed.

Lemma format_byte fc k : 0 <= fc < 64 -> 1 <= k <= 3 ->
  wrapU 8 (shlU 8 (wrapU 8 fc) 2 + wrapU 8 k) = fc * 4 + k.
Proof.
  intros Hf Hk. unfold shlU. cbn [Z.ltb Z.compare Pos.compare Pos.compare_cont].
  rewrite Z.shiftl_mul_pow2 by lia. unfold wrapU. change (2 ^ 8) with 256. change (2 ^ 2) with 4.
  rewrite (Z.mod_small fc 256), (Z.mod_small k 256), (Z.mod_small (fc * 4) 256) by lia.
  apply Z.mod_small. lia.
Qed.

(** For every destination, every 6-bit format code and EVERY length field (an [int]): no panic;
    above [MaxByteSize] an error and [dst] untouched, otherwise [dst ++ header fc n]. *)
Lemma bridge_appendHeaderBytesFC dst fc n :
  0 <= fc < 64 ->
  Gen2.secs2.appendHeaderBytesFC dst fc n =
  GOk (if n >? 16777215 then (dst, ErrNew "size limit exceeded"%string) else (dst ++ header fc n, ErrNil)).
Proof.
  intros Hf. unfold Gen2.secs2.appendHeaderBytesFC, header.
  destruct (n >? 16777215) eqn:C0.
  { replace (Z.gtb n 16777215) with true. reflexivity. }
  replace (Z.gtb n 16777215) with false.
  rewrite !shrS64 by lia. change (2 ^ 16) with 65536. change (2 ^ 8) with 256.
  change (wrapU 8 (n / 65536)) with ((n / 65536) mod 256).
  change (wrapU 8 (n / 256)) with ((n / 256) mod 256).
  change (wrapU 8 n) with (n mod 256).
  cbv zeta.
  set (b0 := (n / 65536) mod 256). set (b1 := (n / 256) mod 256). set (b2 := n mod 256).
  clearbody b0 b1 b2.
  change (arr_get [b0; b1; b2] 0) with b0. change (arr_get [b0; b1; b2] 1) with b1.
  change (wrapS 64 (3 - 1)) with 2. change (wrapS 64 (2 - 1)) with 1.
  destruct (b0 =? 0) eqn:C1.
  - replace (Z.eqb b0 0) with true.
    destruct (b1 =? 0) eqn:C2.
    + replace (Z.eqb b1 0) with true. cbn [gbind].
      change (wrapS 64 (3 - 1)) with 2. rewrite format_byte by lia.
      change (go_slice [b0; b1; b2] 2 3) with (GOk [b2]). cbn [gbind].
      rewrite <- app_assoc. reflexivity.
    + replace (Z.eqb b1 0) with false. cbn [gbind].
      change (wrapS 64 (3 - 2)) with 1. rewrite format_byte by lia.
      change (go_slice [b0; b1; b2] 1 3) with (GOk [b1; b2]). cbn [gbind].
      rewrite <- app_assoc. reflexivity.
  - replace (Z.eqb b0 0) with false. cbn [gbind].
    change (wrapS 64 (3 - 3)) with 0. rewrite format_byte by lia.
    change (go_slice [b0; b1; b2] 0 3) with (GOk [b0; b1; b2]). cbn [gbind].
    rewrite <- app_assoc. reflexivity.
Qed.
