(** Bridge (translator v2), part 2 of hsms: the three decode entry points and [decodeOwnedFrame]
    (hsms/decode.go), [NewRejectReq] and [GetRejectReasonCode] (control_msg.go), REGENERATED into
    [Gen/Gen2.v], equal [decode_message] / [decode_payload] / [decode_owned] of Hsms/Frame.v and
    [new_reject_req] / [get_reject_reason] of Hsms/Header.v — for EVERY byte slice: in particular no
    decode entry point panics on any input (the instrumented twins [*_chk] of Frame.v state the same
    about a hand-written instrumentation; here the bounds checks come from the translator).

    The Go interface [hsms.Message] is the sum of its two implementations (+ nil); an error is
    compared by its [errors.Is] class. *)
From Coq Require Import String.
From Coq Require Import ZArith Bool List Lia ZifyBool.
From GoSecs Require Import Base.GoInt Base.BytesBE Base.GoSlice Gen.Gen2 Hsms.Header Hsms.HeaderProofs Hsms.Frame
  Gen.Bridge2Frames.
Import ListNotations.
Open Scope Z_scope.

(** ** the abstraction of [wire.Body] discharged for the implementation [AdoptBody] builds:
    [rawFrameBody{body}.Len() = len body], [AppendTo(dst) = dst ++ body] *)
Lemma bridge_rawFrameBody_Len body :
  Gen2.wire.rawFrameBody_Len (Gen2.wire.mk_rawFrameBody body) = GOk (go_len body).
Proof. reflexivity. Qed.
Lemma bridge_rawFrameBody_AppendTo body dst :
  Gen2.wire.rawFrameBody_AppendTo (Gen2.wire.mk_rawFrameBody body) dst = GOk (dst ++ body).
Proof. reflexivity. Qed.

(** ** correspondence of values *)
Definition dec0 : option Gen2.hsms.decodeState := Some (Gen2.hsms.mk_decodeState Gen2.secs2.Item_nil ErrNil).

Definition msg_of (dec : option Gen2.hsms.decodeState) (m : msg) : Gen2.hsms.Message :=
  match m with
  | MData d => Gen2.hsms.Message_DataMessage (dm_of d dec)
  | MCtrl c => Gen2.hsms.Message_ControlMessage (cm_of c)
  end.

Definition derr_of (big : string) (e : derr) : goerror :=
  match e with
  | ETooShort | ELenSmall | ELenMismatch => ErrIs "ErrInvalidHeaderLength"
  | ELenBig => ErrNew big
  | EPType => ErrIs "ErrInvalidPType"
  | ESType => ErrIs "ErrInvalidControlMsgSType"
  end.

Definition dres_of (big : string) (r : result msg derr) : Gen2.hsms.Message * goerror :=
  match r with
  | Ok m => (msg_of dec0 m, ErrNil)
  | Err e => (Gen2.hsms.Message_nil, derr_of big e)
  end.

(** ** decodeOwnedFrame *)
Lemma go_len_cons10 (a0 a1 a2 a3 a4 a5 a6 a7 a8 a9 : Z) l :
  go_len (a0 :: a1 :: a2 :: a3 :: a4 :: a5 :: a6 :: a7 :: a8 :: a9 :: l) = 10 + go_len l.
Proof. unfold go_len. cbn [length]. lia. Qed.

Lemma bridge_decodeOwnedFrame owned big : bytes_ok owned ->
  Gen2.hsms.decodeOwnedFrame owned = GOk (dres_of big (decode_owned owned)).
Proof.
  intros Hb. unfold Gen2.hsms.decodeOwnedFrame.
  do 10 (destruct owned as [|? owned]; [reflexivity|]).
  rename z into a0, z0 into a1, z1 into a2, z2 into a3, z3 into a4, z4 into a5, z5 into a6, z6 into a7,
         z7 into a8, z8 into a9.
  assert (B5 : 0 <= a5 < 256).
  { unfold bytes_ok in Hb. do 5 (apply Forall_inv_tail in Hb). exact (Forall_inv Hb). }
  pose proof (go_len_nonneg owned) as N.
  rewrite go_len_cons10.
  replace (Z.ltb (10 + go_len owned) 10) with false by lia.
  rewrite go_slice_ok by (rewrite ?go_len_cons10; lia). cbn [gbind].
  change (sub (a0 :: a1 :: a2 :: a3 :: a4 :: a5 :: a6 :: a7 :: a8 :: a9 :: owned) 0 10)
    with [a0; a1; a2; a3; a4; a5; a6; a7; a8; a9].
  cbv zeta.
  change (splice (go_zeros 10) 0 (go_copy (go_zeros 10) [a0; a1; a2; a3; a4; a5; a6; a7; a8; a9]))
    with [a0; a1; a2; a3; a4; a5; a6; a7; a8; a9].
  change (arr_get [a0; a1; a2; a3; a4; a5; a6; a7; a8; a9] 4) with a4.
  change (arr_get [a0; a1; a2; a3; a4; a5; a6; a7; a8; a9] 5) with a5.
  unfold wrapU. change (2 ^ 8) with 256. rewrite (Z.mod_small a5 256) by lia.
  rewrite go_slice_ok by (rewrite ?go_len_cons10; lia). cbn [gbind].
  replace (sub (a0 :: a1 :: a2 :: a3 :: a4 :: a5 :: a6 :: a7 :: a8 :: a9 :: owned) 10 (10 + go_len owned)) with owned.
  2:{ rewrite <- (go_len_cons10 a0 a1 a2 a3 a4 a5 a6 a7 a8 a9 owned). rewrite sub_from by (rewrite go_len_cons10; lia). reflexivity. }
  unfold decode_owned. cbn [hdr_split h4 h5].
  destruct (a4 =? 0) eqn:C4.
  2:{ replace (Z.eqb a4 0) with false. reflexivity. }
  replace (Z.eqb a4 0) with true. cbn [negb].
  destruct (a5 =? 0) eqn:C5.
  { replace (Z.eqb a5 0) with true. reflexivity. }
  replace (Z.eqb a5 0) with false.
  destruct ((a5 =? 1) || (a5 =? 2) || (a5 =? 3) || (a5 =? 4) || (a5 =? 5) || (a5 =? 6) || (a5 =? 7) || (a5 =? 9)) eqn:C.
  - replace (orb (orb (orb (orb (orb (orb (orb (Z.eqb a5 1) (Z.eqb a5 2)) (Z.eqb a5 3)) (Z.eqb a5 4)) (Z.eqb a5 5)) (Z.eqb a5 6)) (Z.eqb a5 7)) (Z.eqb a5 9)) with true.
    reflexivity.
  - replace (orb (orb (orb (orb (orb (orb (orb (Z.eqb a5 1) (Z.eqb a5 2)) (Z.eqb a5 3)) (Z.eqb a5 4)) (Z.eqb a5 5)) (Z.eqb a5 6)) (Z.eqb a5 7)) (Z.eqb a5 9)) with false.
    reflexivity.
Qed.

Lemma bytes_ok_skipn n (l : list Z) : bytes_ok l -> bytes_ok (skipn n l).
Proof.
  unfold bytes_ok. revert l. induction n as [|n IH]; intros l H; [exact H|].
  destruct l as [|x l]; [exact H|]. cbn [skipn]. apply IH. exact (Forall_inv_tail H).
Qed.

(** ** DecodeHSMSPayload / DecodeOwnedHSMSPayload: the cap is the literal the source folds to
    ([maxHSMSMsgLen = secs2.MaxByteSize = 2^24-1]) *)
Definition big_payload : string := "hsms payload exceeds maximum: %d > %d".
Definition big_message : string := "hsms message length exceeds maximum: %d > %d".

Lemma bridge_DecodeOwnedHSMSPayload p : bytes_ok p ->
  Gen2.hsms.DecodeOwnedHSMSPayload p = GOk (dres_of big_payload (decode_payload 16777215 p)).
Proof.
  intros Hb. unfold Gen2.hsms.DecodeOwnedHSMSPayload, decode_payload. fold (go_len p). change (len p) with (go_len p).
  destruct (go_len p <? 10) eqn:C1.
  { replace (Z.ltb (go_len p) 10) with true. reflexivity. }
  replace (Z.ltb (go_len p) 10) with false.
  destruct (go_len p >? 16777215) eqn:C2.
  { replace (Z.gtb (go_len p) 16777215) with true. reflexivity. }
  replace (Z.gtb (go_len p) 16777215) with false.
  rewrite (bridge_decodeOwnedFrame p big_payload Hb). reflexivity.
Qed.

Lemma bridge_DecodeHSMSPayload p : bytes_ok p ->
  Gen2.hsms.DecodeHSMSPayload p = GOk (dres_of big_payload (decode_payload 16777215 p)).
Proof.
  intros Hb. unfold Gen2.hsms.DecodeHSMSPayload, decode_payload. change (len p) with (go_len p).
  destruct (go_len p <? 10) eqn:C1.
  { replace (Z.ltb (go_len p) 10) with true. reflexivity. }
  replace (Z.ltb (go_len p) 10) with false.
  destruct (go_len p >? 16777215) eqn:C2.
  { replace (Z.gtb (go_len p) 16777215) with true. reflexivity. }
  replace (Z.gtb (go_len p) 16777215) with false.
  cbv zeta. cbn [app]. rewrite (bridge_decodeOwnedFrame p big_payload Hb). reflexivity.
Qed.

(** ** DecodeHSMSMessage *)
Lemma bridge_DecodeHSMSMessage data : bytes_ok data ->
  Gen2.hsms.DecodeHSMSMessage data = GOk (dres_of big_message (decode_message 16777215 data)).
Proof.
  intros Hb. unfold Gen2.hsms.DecodeHSMSMessage, decode_message. change (len data) with (go_len data).
  destruct (go_len data <? 14) eqn:C1.
  { replace (Z.ltb (go_len data) 14) with true. reflexivity. }
  replace (Z.ltb (go_len data) 14) with false.
  destruct data as [|l0 [|l1 [|l2 [|l3 rest]]]]; try (exfalso; unfold go_len in C1; cbn [length] in C1; lia).
  assert (Hr : bytes_ok rest) by (apply (bytes_ok_skipn 4) in Hb; exact Hb).
  assert (B : byte_ok l0 /\ byte_ok l1 /\ byte_ok l2 /\ byte_ok l3).
  { unfold bytes_ok in Hb. pose proof (Forall_inv Hb) as Q0. apply Forall_inv_tail in Hb.
    pose proof (Forall_inv Hb) as Q1. apply Forall_inv_tail in Hb.
    pose proof (Forall_inv Hb) as Q2. apply Forall_inv_tail in Hb.
    pose proof (Forall_inv Hb) as Q3. auto. }
  destruct B as (B0 & B1 & B2 & B3).
  pose proof (de32_range l0 l1 l2 l3 B0 B1 B2 B3) as R.
  assert (L : go_len (l0 :: l1 :: l2 :: l3 :: rest) = 4 + go_len rest) by (unfold go_len; cbn [length]; lia).
  pose proof (go_len_nonneg rest) as N.
  rewrite go_slice_ok by lia. cbn [gbind].
  change (sub (l0 :: l1 :: l2 :: l3 :: rest) 0 4) with [l0; l1; l2; l3].
  rewrite be_get_4. cbn [gbind]. cbv zeta.
  set (msgLen := de32 l0 l1 l2 l3) in *.
  destruct (msgLen <? 10) eqn:C2.
  { replace (Z.ltb msgLen 10) with true. reflexivity. }
  replace (Z.ltb msgLen 10) with false.
  unfold wrapU at 1. change (2 ^ 64) with 18446744073709551616. rewrite (Z.mod_small msgLen) by lia.
  destruct (msgLen >? 16777215) eqn:C3.
  { replace (Z.gtb msgLen 16777215) with true. reflexivity. }
  replace (Z.gtb msgLen 16777215) with false.
  rewrite !wrapS_id by (unfold inS; change (64 - 1) with 63; try lia; rewrite wrapS_id by (unfold inS; change (64 - 1) with 63; lia); lia).
  destruct (negb (go_len (l0 :: l1 :: l2 :: l3 :: rest) =? 4 + msgLen)) eqn:C4; [reflexivity|].
  unfold wrapU. change (2 ^ 32) with 4294967296. rewrite (Z.mod_small (4 + msgLen)) by lia.
  assert (E : 4 + msgLen = go_len (l0 :: l1 :: l2 :: l3 :: rest)) by lia.
  rewrite E. rewrite go_slice_ok by lia. cbn [gbind].
  rewrite sub_from by lia. change (skipn (Z.to_nat 4) (l0 :: l1 :: l2 :: l3 :: rest)) with rest. cbn [app].
  rewrite (bridge_decodeOwnedFrame rest big_message Hr). reflexivity.
Qed.

(** ** NewRejectReq / GetRejectReasonCode (operate on the interface: dispatch on the implementation) *)
Lemma bridge_DataMessage_Type d dec : Gen2.hsms.DataMessage_Type (dm_of d dec) = GOk ST_DATA.
Proof. reflexivity. Qed.

Definition msg_h5_ok (m : msg) : Prop := match m with MData _ => True | MCtrl c => 0 <= h5 (c_hdr c) < 256 end.

Lemma bridge_NewRejectReq m dec reason : msg_h5_ok m ->
  Gen2.hsms.NewRejectReq (msg_of dec m) reason = GOk (cm_of (new_reject_req m reason)).
Proof.
  intros H. unfold Gen2.hsms.NewRejectReq, new_reject_req. cbv zeta.
  destruct m as [d|c]; cbn [msg_of msg_hdr msg_type].
  - rewrite bridge_DataMessage_SessionID. cbn [gbind].
    change (arr_slice (go_zeros 10) 0 2) with [0; 0]. rewrite be_put_2. cbn [gbind].
    rewrite bridge_DataMessage_Type. cbn [gbind].
    change (Z.eqb ST_DATA 0) with true. cbv iota. cbn [gbind].
    rewrite bridge_DataMessage_SystemBytes. cbn [gbind].
    destruct d as [[a0 a1 a2 a3 a4 a5 a6 a7 a8 a9] body]. reflexivity.
  - cbn [msg_h5_ok] in H.
    rewrite bridge_ControlMessage_SessionID. cbn [gbind].
    change (arr_slice (go_zeros 10) 0 2) with [0; 0]. rewrite be_put_2. cbn [gbind].
    rewrite bridge_ControlMessage_Type by exact H. cbn [gbind].
    unfold ST_DATA.
    destruct (ctrl_type c =? 0) eqn:C0.
    + replace (Z.eqb (ctrl_type c) 0) with true. cbn [gbind].
      rewrite bridge_ControlMessage_SystemBytes. cbn [gbind].
      destruct c as [[a0 a1 a2 a3 a4 a5 a6 a7 a8 a9] r]. reflexivity.
    + replace (Z.eqb (ctrl_type c) 0) with false.
      rewrite bridge_ControlMessage_HeaderBytes. cbn [gbind].
      unfold REJECT_PTYPE_NOT_SUPPORTED.
      destruct (reason =? 2) eqn:C2.
      * replace (Z.eqb reason 2) with true. cbn [gbind].
        rewrite bridge_ControlMessage_SystemBytes. cbn [gbind].
        destruct c as [[a0 a1 a2 a3 a4 a5 a6 a7 a8 a9] r]. reflexivity.
      * replace (Z.eqb reason 2) with false. cbn [gbind].
        rewrite bridge_ControlMessage_SystemBytes. cbn [gbind].
        destruct c as [[a0 a1 a2 a3 a4 a5 a6 a7 a8 a9] r]. reflexivity.
Qed.

Definition reject_result_of (r : Z * Z) : Z * goerror :=
  let '(v, code) := r in
  if code =? 0 then (v, ErrNil)
  else if code =? 1 then (0, ErrIs "ErrInvalidRejectMsg") else (0, ErrIs "ErrInvalidRejectReason").

Lemma bridge_GetRejectReasonCode m dec : msg_h5_ok m ->
  Gen2.hsms.GetRejectReasonCode (msg_of dec m) = GOk (reject_result_of (get_reject_reason m)).
Proof.
  intros H. unfold Gen2.hsms.GetRejectReasonCode, get_reject_reason.
  destruct m as [d|c]; cbn [msg_of msg_hdr msg_type].
  - rewrite bridge_DataMessage_Type. reflexivity.
  - cbn [msg_h5_ok] in H. rewrite bridge_ControlMessage_Type by exact H. cbn [gbind].
    unfold ST_REJECT_REQ.
    destruct (ctrl_type c =? 7) eqn:C.
    2:{ replace (Z.eqb (ctrl_type c) 7) with false. reflexivity. }
    replace (Z.eqb (ctrl_type c) 7) with true. cbn [negb].
    rewrite bridge_ControlMessage_HeaderBytes. cbn [gbind]. cbv zeta.
    destruct c as [[a0 a1 a2 a3 a4 a5 a6 a7 a8 a9] r].
    change (arr_get (hdr_bytes _) 3) with a3. change (h3 _) with a3.
    destruct ((a3 <? 1) || (a3 >? 4)) eqn:C2.
    + replace (orb (Z.ltb a3 1) (Z.gtb a3 4)) with true. reflexivity.
    + replace (orb (Z.ltb a3 1) (Z.gtb a3 4)) with false. reflexivity.
Qed.

Lemma bridge_ControlMessage_RejectReasonCode c : 0 <= h5 (c_hdr c) < 256 ->
  Gen2.hsms.ControlMessage_RejectReasonCode (cm_of c) = GOk (reject_result_of (get_reject_reason (MCtrl c))).
Proof.
  intros H. unfold Gen2.hsms.ControlMessage_RejectReasonCode.
  change (Gen2.hsms.Message_ControlMessage (cm_of c)) with (msg_of None (MCtrl c)).
  rewrite bridge_GetRejectReasonCode by exact H. reflexivity.
Qed.
