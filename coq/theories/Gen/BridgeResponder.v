(** Bridge for C08: the SType validity set and the status / reason / SType constants REGENERATED
    from the current Go source ([Gen.v], rewritten by the translator on every check) equal the ones
    the responder model and the E37 table are written with. A changed constant or a changed
    validity set in /repo stops this file from compiling. *)
From Coq Require Import ZArith Bool List Lia.
From GoSecs Require Import Base.GoInt Gen.Gen Hsms.Responder.
Open Scope Z_scope.

(** hsms.IsValidSType on every byte *)
Lemma bridge_IsValidSType b : 0 <= b < 256 -> Gen.hsms.IsValidSType b = valid_stype b.
Proof.
  intros Hb. unfold Gen.hsms.IsValidSType, valid_stype.
  rewrite (wrapU_id 8 b) by (unfold inU; lia).
  destruct (_ || _); reflexivity.
Qed.

(** and exhaustively, by computation, as a second witness *)
Lemma bridge_IsValidSType_all :
  forallb (fun b => Bool.eqb (Gen.hsms.IsValidSType b) (valid_stype b)) (map Z.of_nat (seq 0 256)) = true.
Proof. vm_compute. reflexivity. Qed.

Lemma bridge_stypes :
  Gen.hsms.DataMsgType = st_data /\ Gen.hsms.SelectReqType = st_select_req /\
  Gen.hsms.SelectRspType = st_select_rsp /\ Gen.hsms.DeselectReqType = st_deselect_req /\
  Gen.hsms.DeselectRspType = st_deselect_rsp /\ Gen.hsms.LinktestReqType = st_linktest_req /\
  Gen.hsms.LinktestRspType = st_linktest_rsp /\ Gen.hsms.RejectReqType = st_reject_req /\
  Gen.hsms.SeparateReqType = st_separate_req.
Proof. repeat split. Qed.

Lemma bridge_statuses :
  Gen.hsms.SelectStatusSuccess = select_ok /\ Gen.hsms.SelectStatusAlreadyActive = select_already /\
  Gen.hsms.DeselectStatusSuccess = deselect_ok /\ Gen.hsms.DeselectStatusNotEstablished = deselect_not_established.
Proof. repeat split. Qed.

Lemma bridge_reasons :
  Gen.hsms.RejectSTypeNotSupported = reason_stype /\ Gen.hsms.RejectPTypeNotSupported = reason_ptype /\
  Gen.hsms.RejectTransactionNotOpen = reason_txn_not_open /\ Gen.hsms.RejectNotSelected = reason_not_selected.
Proof. repeat split. Qed.

(** the logical states State() reports *)
Lemma bridge_states :
  Gen.hsms.NotConnectedState = 0 /\ Gen.hsms.NotSelectedState = 1 /\ Gen.hsms.SelectedState = 2.
Proof. repeat split. Qed.
