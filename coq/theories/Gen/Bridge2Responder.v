(** Bridge (translator v2): the HSMS-SS responder REGENERATED from hsmsss/transport_recv.go
    ([dispatchFrame], [decodeControlFrame]) and transport_control.go (the per-SType handlers and the
    three Reject senders) into [Gen/Gen2.v], in state-passing form with the connection engine
    ([hsms.TransportRuntime]) as an explicit environment: scripted answers for [State()],
    [CommitSelected()], [RouteReply()] and an ORDERED log of every call made into it
    ([CommitSelected], [SelectLost], [TCPDown], [SendAsync], [RouteReply], [DeliverOwnedFrame]); the
    transport's own goroutine helpers ([cancelT7], [startLinktest], [stopLinktest], [armT7]) are a
    second log.

    [expect_dispatch] is the code-shaped step: for every frame (header [h], body) it gives the
    transport after the step and the keep-reading flag. [bridge_dispatchFrame]: the regenerated
    dispatch equals it and never panics. [expect_respond_*] relate [expect_dispatch] to [respond] of
    Hsms/Responder.v when the environment answers what the model state says ([State() = Selected]
    iff [selected s], [CommitSelected()] succeeds iff not selected, [RouteReply()] hits iff the
    system bytes are open): same frames sent, same commits, same disconnect decision. *)
From Coq Require Import String.
From Coq Require Import ZArith Bool List Lia ZifyBool.
From GoSecs Require Import Base.GoInt Base.BytesBE Base.GoSlice Gen.Gen2 Hsms.Header Hsms.HeaderProofs Hsms.Frame
  Gen.Bridge2Frames Gen.Bridge2FramesDecode.
Import ListNotations.
Open Scope Z_scope.
Import Gen2.hsmsss.

Notation rtcall := Gen2.hsms.TransportRuntime_call.
Notation SendAsync := Gen2.hsms.TransportRuntime_call_SendAsync.
Notation RouteReply := Gen2.hsms.TransportRuntime_call_RouteReply.
Notation DeliverOwned := Gen2.hsms.TransportRuntime_call_DeliverOwnedFrame.
Notation CommitSelected := Gen2.hsms.TransportRuntime_call_CommitSelected.
Notation SelectLost := Gen2.hsms.TransportRuntime_call_SelectLost.
Notation TCPDown := Gen2.hsms.TransportRuntime_call_TCPDown.
Notation CtlMsg c := (Gen2.hsms.Message_ControlMessage (cm_of c)).

(** ** updates of the transport record *)
Definition rt_log (tr : transport) (c : rtcall) : transport :=
  set_transport_rt tr (Gen2.hsms.set_TransportRuntime_calls (transport_rt tr)
                         (Gen2.hsms.TransportRuntime_calls (transport_rt tr) ++ [c])).
Definition t_log (tr : transport) (c : transport_call) : transport :=
  set_transport_calls tr (transport_calls tr ++ [c]).
Definition m_upd (tr : transport) (f : ConnectionMetrics -> ConnectionMetrics) : transport :=
  set_transport_metrics tr (option_map f (transport_metrics tr)).

Definition inc_rejectSent m := set_ConnectionMetrics_rejectSent m (wrapU 64 (ConnectionMetrics_rejectSent m + 1)).
Definition inc_rejectRecv m := set_ConnectionMetrics_rejectRecv m (wrapU 64 (ConnectionMetrics_rejectRecv m + 1)).
Definition inc_selectEstablished m :=
  set_ConnectionMetrics_selectEstablished m (wrapU 64 (ConnectionMetrics_selectEstablished m + 1)).
Definition inc_separateRecv m := set_ConnectionMetrics_separateRecv m (wrapU 64 (ConnectionMetrics_separateRecv m + 1)).
Definition inc_linktestReqRecv m :=
  set_ConnectionMetrics_linktestReqRecv m (wrapU 64 (ConnectionMetrics_linktestReqRecv m + 1)).

Definition st_ret (tr : transport) : Z := Gen2.hsms.TransportRuntime_State_ret (transport_rt tr).
Definition commit_ret (tr : transport) : bool := Gen2.hsms.TransportRuntime_CommitSelected_ret (transport_rt tr).
Definition route_ret (tr : transport) : bool := Gen2.hsms.TransportRuntime_RouteReply_ret (transport_rt tr).

(** ** the code-shaped step *)
Definition send_reject_to (tr : transport) (sid pt st : Z) (sb : Z * Z * Z * Z) (reason : Z) : transport :=
  rt_log (m_upd tr inc_rejectSent) (SendAsync (CtlMsg (new_reject_req_raw sid pt st sb reason))).

Definition expect_sendReject (tr : transport) (h : hdr) : transport :=
  send_reject_to tr (session_id h) (h4 h) (h5 h) (system_bytes h) (if negb (h4 h =? 0) then 2 else 1).

Definition is_response (st : Z) : bool := (st =? 2) || (st =? 4) || (st =? 6) || (st =? 7).

Definition expect_dispatch (tr : transport) (g : option genWG) (h : hdr) (body : list Z) : transport * bool :=
  let st := h5 h in
  let req := mkC h false in
  if negb (h4 h =? 0) || negb (valid_stype st) then (expect_sendReject tr h, true)
  else if negb (st =? 0) && negb (len (hdr_bytes h ++ body) =? 10) then (expect_sendReject tr h, true)
  else if st =? 0 then
    if negb (st_ret tr =? 2)
    then (send_reject_to tr (session_id h) 0 0 (system_bytes h) 4, true)
    else (rt_log tr (DeliverOwned (hdr_bytes h ++ body)), true)
  else if is_response st then
    let tr1 := if st =? 7 then m_upd tr inc_rejectRecv else tr in
    let tr2 := rt_log tr1 (RouteReply (CtlMsg req)) in
    if route_ret tr then
      if (st =? 2) && (h3 h =? 0) then
        let tr3 := rt_log tr2 CommitSelected in
        if commit_ret tr
        then (t_log (t_log tr3 transport_call_cancelT7) (transport_call_startLinktest g), true)
        else (tr3, true)
      else (tr2, true)
    else if negb (st =? 7)
         then (send_reject_to tr2 (session_id h) 0 st (system_bytes h) 3, true)
         else (tr2, true)
  else if st =? 1 then
    let tr1 := rt_log tr CommitSelected in
    if commit_ret tr
    then (rt_log (t_log (t_log (m_upd tr1 inc_selectEstablished) transport_call_cancelT7)
                        (transport_call_startLinktest g))
                 (SendAsync (CtlMsg (rsp_of req ST_SELECT_RSP 0))), true)
    else (rt_log tr1 (SendAsync (CtlMsg (rsp_of req ST_SELECT_RSP 1))), true)
  else if st =? 5 then
    (rt_log (m_upd tr inc_linktestReqRecv)
            (SendAsync (CtlMsg (mkC (put_sys (put_st (put_b01 hdr_zero 255 255) ST_LINKTEST_RSP) (system_bytes h)) false))),
     true)
  else if st =? 3 then
    if st_ret tr =? 2
    then (t_log (t_log (rt_log (rt_log tr (SendAsync (CtlMsg (rsp_of req ST_DESELECT_RSP 0)))) SelectLost)
                       transport_call_stopLinktest) (transport_call_armT7 g), true)
    else (rt_log tr (SendAsync (CtlMsg (rsp_of req ST_DESELECT_RSP 1))), true)
  else if st =? 9 then
    if st_ret tr =? 2
    then (rt_log (m_upd tr inc_separateRecv) (TCPDown (ErrIs "errPeerSeparate")), false)
    else (tr, true)
  else (tr, true).

(** ** reading the frame *)
Lemma frame_len (a0 a1 a2 a3 a4 a5 a6 a7 a8 a9 : Z) l :
  go_len (a0 :: a1 :: a2 :: a3 :: a4 :: a5 :: a6 :: a7 :: a8 :: a9 :: l) = 10 + go_len l.
Proof. unfold go_len. cbn [length]. lia. Qed.

Section Frame.
  Variables a0 a1 a2 a3 a4 a5 a6 a7 a8 a9 : Z.
  Variable body : list Z.
  Let fr := a0 :: a1 :: a2 :: a3 :: a4 :: a5 :: a6 :: a7 :: a8 :: a9 :: body.

  Lemma fr_sid_k {B : Type} (K : Z -> gres B) :
    gbind (go_slice fr 0 2) (fun t_1 => gbind (be_get 2 t_1) K) = K (de16 a0 a1).
  Proof.
    pose proof (go_len_nonneg body).
    rewrite go_slice_ok by (pose proof (frame_len a0 a1 a2 a3 a4 a5 a6 a7 a8 a9 body) as L; fold fr in L; lia).
    cbn [gbind]. change (sub fr 0 2) with [a0; a1]. rewrite be_get_2. reflexivity.
  Qed.
  Lemma fr_sys : go_slice fr 6 10 = GOk [a6; a7; a8; a9].
  Proof. pose proof (go_len_nonneg body). rewrite go_slice_ok by (pose proof (frame_len a0 a1 a2 a3 a4 a5 a6 a7 a8 a9 body) as L; fold fr in L; lia). reflexivity. Qed.
  Lemma fr_4 : go_index fr 4 = GOk a4.
  Proof. pose proof (go_len_nonneg body). rewrite go_index_ok by (pose proof (frame_len a0 a1 a2 a3 a4 a5 a6 a7 a8 a9 body) as L; fold fr in L; lia). reflexivity. Qed.
  Lemma fr_5 : go_index fr 5 = GOk a5.
  Proof. pose proof (go_len_nonneg body). rewrite go_index_ok by (pose proof (frame_len a0 a1 a2 a3 a4 a5 a6 a7 a8 a9 body) as L; fold fr in L; lia). reflexivity. Qed.
End Frame.

Ltac open_tr tr Hm :=
  destruct tr as [t_cfg [r_cs r_df r_rr r_sa r_st r_calls] t_met t_stp t_wg t_cb t_ls t_lr t_calls];
  cbn [transport_metrics] in Hm; subst t_met.

Lemma bridge_send_reject_raw tr m a0 a1 a2 a3 a4 a5 a6 a7 a8 a9 pt st reason :
  transport_metrics tr = Some m ->
  gbind (Gen2.hsms.NewRejectReqRaw (de16 a0 a1) pt st [a6; a7; a8; a9] reason) (fun reject =>
  gbind (go_deref (Some tr)) (fun t_5 =>
  gbind (ConnectionMetrics_incRejectSent (transport_metrics t_5)) (fun '(t_7, _) =>
  gbind (go_deref t_7) (fun t_9 =>
  gbind (go_deref (Some tr)) (fun t_10 =>
  let t := Some (set_transport_metrics t_10 (Some t_9)) in
  gbind (go_deref t) (fun t_11 =>
  gbind (go_deref t) (fun t_12 =>
  GOk (Some (set_transport_rt t_12 (Gen2.hsms.set_TransportRuntime_calls (transport_rt t_11)
         (Gen2.hsms.TransportRuntime_calls (transport_rt t_11) ++ [SendAsync (Gen2.hsms.Message_ControlMessage reject)]))), tt))))))))
  = GOk (Some (send_reject_to tr (session_id (mkHdr a0 a1 a2 a3 a4 a5 a6 a7 a8 a9)) pt st (a6, a7, a8, a9) reason), tt).
Proof.
  intros Hm. change [a6; a7; a8; a9] with (sbl (a6, a7, a8, a9)).
  rewrite bridge_NewRejectReqRaw. open_tr tr Hm. reflexivity.
Qed.

Lemma bridge_sendReject tr m h body : transport_metrics tr = Some m ->
  transport_sendReject (Some tr) (hdr_bytes h ++ body) (h4 h) (h5 h) = GOk (Some (expect_sendReject tr h), tt).
Proof.
  intros Hm. destruct h as [a0 a1 a2 a3 a4 a5 a6 a7 a8 a9]. cbn [hdr_bytes app h4 h5].
  unfold transport_sendReject, expect_sendReject. cbn [h4 h5 system_bytes h6 h7 h8 h9].
  rewrite fr_sid_k. cbv zeta. rewrite fr_sys. cbn [gbind].
  change (splice (go_zeros 4) 0 (go_copy (go_zeros 4) [a6; a7; a8; a9])) with [a6; a7; a8; a9].
  destruct (a4 =? 0) eqn:C.
  - replace (Z.eqb a4 0) with true. cbn [negb gbind].
    exact (bridge_send_reject_raw tr m a0 a1 a2 a3 a4 a5 a6 a7 a8 a9 a4 a5 1 Hm).
  - replace (Z.eqb a4 0) with false. cbn [negb gbind].
    exact (bridge_send_reject_raw tr m a0 a1 a2 a3 a4 a5 a6 a7 a8 a9 a4 a5 2 Hm).
Qed.

Lemma bridge_sendRejectNotSelected tr m h body : transport_metrics tr = Some m ->
  transport_sendRejectNotSelected (Some tr) (hdr_bytes h ++ body) =
  GOk (Some (send_reject_to tr (session_id h) 0 0 (system_bytes h) 4), tt).
Proof.
  intros Hm. destruct h as [a0 a1 a2 a3 a4 a5 a6 a7 a8 a9]. cbn [hdr_bytes app].
  unfold transport_sendRejectNotSelected. cbn [system_bytes h6 h7 h8 h9].
  rewrite fr_sid_k. cbv zeta. rewrite fr_sys. cbn [gbind].
  change (splice (go_zeros 4) 0 (go_copy (go_zeros 4) [a6; a7; a8; a9])) with [a6; a7; a8; a9].
  exact (bridge_send_reject_raw tr m a0 a1 a2 a3 a4 a5 a6 a7 a8 a9 0 0 4 Hm).
Qed.

Lemma bridge_sendRejectTransactionNotOpen tr m h body : transport_metrics tr = Some m ->
  transport_sendRejectTransactionNotOpen (Some tr) (hdr_bytes h ++ body) =
  GOk (Some (send_reject_to tr (session_id h) 0 (h5 h) (system_bytes h) 3), tt).
Proof.
  intros Hm. destruct h as [a0 a1 a2 a3 a4 a5 a6 a7 a8 a9]. cbn [hdr_bytes app].
  unfold transport_sendRejectTransactionNotOpen. cbn [system_bytes h5 h6 h7 h8 h9].
  rewrite fr_sid_k. cbv zeta. rewrite fr_5. cbn [gbind]. rewrite fr_sys. cbn [gbind].
  change (splice (go_zeros 4) 0 (go_copy (go_zeros 4) [a6; a7; a8; a9])) with [a6; a7; a8; a9].
  exact (bridge_send_reject_raw tr m a0 a1 a2 a3 a4 a5 a6 a7 a8 a9 0 a5 3 Hm).
Qed.

(** ** the request handlers (the frame has been decoded to the control message [mkC h false]) *)
Lemma bridge_handleSelectReq tr m g a0 a1 a2 a3 a4 a6 a7 a8 a9 : transport_metrics tr = Some m ->
  let h := mkHdr a0 a1 a2 a3 a4 1 a6 a7 a8 a9 in
  transport_handleSelectReq (Some tr) g (CtlMsg (mkC h false)) =
  GOk (Some (fst (if commit_ret tr
     then (rt_log (t_log (t_log (m_upd (rt_log tr CommitSelected) inc_selectEstablished) transport_call_cancelT7)
                         (transport_call_startLinktest g))
                  (SendAsync (CtlMsg (rsp_of (mkC h false) ST_SELECT_RSP 0))), true)
     else (rt_log (rt_log tr CommitSelected) (SendAsync (CtlMsg (rsp_of (mkC h false) ST_SELECT_RSP 1))), true))), tt).
Proof.
  intros Hm h. unfold transport_handleSelectReq, commit_ret. open_tr tr Hm.
  cbn [go_deref gbind transport_rt Gen2.hsms.TransportRuntime_CommitSelected_ret].
  destruct r_cs; cbn [gbind go_deref transport_metrics].
  - subst h. reflexivity.
  - subst h. reflexivity.
Qed.

Lemma bridge_handleLinktestReq tr m a0 a1 a2 a3 a4 a6 a7 a8 a9 : transport_metrics tr = Some m ->
  let h := mkHdr a0 a1 a2 a3 a4 5 a6 a7 a8 a9 in
  transport_handleLinktestReq (Some tr) (CtlMsg (mkC h false)) =
  GOk (Some (rt_log (m_upd tr inc_linktestReqRecv)
     (SendAsync (CtlMsg (mkC (put_sys (put_st (put_b01 hdr_zero 255 255) ST_LINKTEST_RSP) (system_bytes h)) false)))), tt).
Proof.
  intros Hm h. unfold transport_handleLinktestReq. open_tr tr Hm.
  subst h. reflexivity.
Qed.

Lemma bridge_handleDeselectReq tr m g a0 a1 a2 a3 a4 a6 a7 a8 a9 : transport_metrics tr = Some m ->
  let h := mkHdr a0 a1 a2 a3 a4 3 a6 a7 a8 a9 in
  transport_handleDeselectReq (Some tr) g (CtlMsg (mkC h false)) =
  GOk (Some (fst (if st_ret tr =? 2
     then (t_log (t_log (rt_log (rt_log tr (SendAsync (CtlMsg (rsp_of (mkC h false) ST_DESELECT_RSP 0)))) SelectLost)
                        transport_call_stopLinktest) (transport_call_armT7 g), true)
     else (rt_log tr (SendAsync (CtlMsg (rsp_of (mkC h false) ST_DESELECT_RSP 1))), true))), tt).
Proof.
  intros Hm h. unfold transport_handleDeselectReq, st_ret. open_tr tr Hm.
  cbn [go_deref gbind transport_rt Gen2.hsms.TransportRuntime_State_ret]. cbv zeta.
  destruct (r_st =? 2) eqn:C.
  - replace (Z.eqb r_st 2) with true. cbn [negb gbind].
    subst h. reflexivity.
  - replace (Z.eqb r_st 2) with false. cbn [negb gbind].
    subst h. reflexivity.
Qed.

Lemma bridge_handleSeparateReq tr m : transport_metrics tr = Some m ->
  transport_handleSeparateReq (Some tr) =
  GOk (if st_ret tr =? 2
       then (Some (rt_log (m_upd tr inc_separateRecv) (TCPDown (ErrIs "errPeerSeparate"))), false)
       else (Some tr, true)).
Proof.
  intros Hm. unfold transport_handleSeparateReq, st_ret. open_tr tr Hm.
  cbn [go_deref gbind transport_rt Gen2.hsms.TransportRuntime_State_ret].
  destruct (r_st =? 2) eqn:C.
  - replace (Z.eqb r_st 2) with true. reflexivity.
  - replace (Z.eqb r_st 2) with false. reflexivity.
Qed.

(** the same three lemmas on the frame as a literal list (the form the dispatcher's goal has) *)
Lemma bridge_sendReject_l tr m a0 a1 a2 a3 a4 a5 a6 a7 a8 a9 body : transport_metrics tr = Some m ->
  transport_sendReject (Some tr) (a0 :: a1 :: a2 :: a3 :: a4 :: a5 :: a6 :: a7 :: a8 :: a9 :: body) a4 a5 =
  GOk (Some (expect_sendReject tr (mkHdr a0 a1 a2 a3 a4 a5 a6 a7 a8 a9)), tt).
Proof. intros Hm. exact (bridge_sendReject tr m (mkHdr a0 a1 a2 a3 a4 a5 a6 a7 a8 a9) body Hm). Qed.

Lemma bridge_sendRejectNotSelected_l tr m a0 a1 a2 a3 a4 a5 a6 a7 a8 a9 body : transport_metrics tr = Some m ->
  transport_sendRejectNotSelected (Some tr) (a0 :: a1 :: a2 :: a3 :: a4 :: a5 :: a6 :: a7 :: a8 :: a9 :: body) =
  GOk (Some (send_reject_to tr (de16 a0 a1) 0 0 (a6, a7, a8, a9) 4), tt).
Proof. intros Hm. exact (bridge_sendRejectNotSelected tr m (mkHdr a0 a1 a2 a3 a4 a5 a6 a7 a8 a9) body Hm). Qed.

Lemma bridge_sendRejectTransactionNotOpen_l tr m a0 a1 a2 a3 a4 a5 a6 a7 a8 a9 body : transport_metrics tr = Some m ->
  transport_sendRejectTransactionNotOpen (Some tr) (a0 :: a1 :: a2 :: a3 :: a4 :: a5 :: a6 :: a7 :: a8 :: a9 :: body) =
  GOk (Some (send_reject_to tr (de16 a0 a1) 0 a5 (a6, a7, a8, a9) 3), tt).
Proof. intros Hm. exact (bridge_sendRejectTransactionNotOpen tr m (mkHdr a0 a1 a2 a3 a4 a5 a6 a7 a8 a9) body Hm). Qed.

(** decodeControlFrame of a header-only frame with PType 0 and a control SType *)
Lemma bridge_decodeControlFrame a0 a1 a2 a3 k a6 a7 a8 a9 : In k [1; 2; 3; 4; 5; 6; 7; 9] ->
  decodeControlFrame [a0; a1; a2; a3; 0; k; a6; a7; a8; a9] =
  GOk (Gen2.hsms.Message_ControlMessage (Some (Gen2.hsms.mk_ControlMessage [a0; a1; a2; a3; 0; k; a6; a7; a8; a9] false)), ErrNil).
Proof. intros H. repeat (destruct H as [<-|H]; [reflexivity|]). destruct H. Qed.

Lemma ctype_lit a0 a1 a2 a3 k a6 a7 a8 a9 : In k [1; 2; 3; 4; 5; 6; 7; 9] ->
  Gen2.hsms.ControlMessage_Type (Some (Gen2.hsms.mk_ControlMessage [a0; a1; a2; a3; 0; k; a6; a7; a8; a9] false)) = GOk k.
Proof. intros H. repeat (destruct H as [<-|H]; [reflexivity|]). destruct H. Qed.

Lemma valid_stype_cases k : valid_stype k = true -> k = 0 \/ In k [1; 2; 3; 4; 5; 6; 7; 9].
Proof. unfold valid_stype. cbn [In]. lia. Qed.

Theorem bridge_dispatchFrame tr m g h body : transport_metrics tr = Some m -> 0 <= h5 h < 256 ->
  transport_dispatchFrame (Some tr) g (hdr_bytes h ++ body) =
  GOk (Some (fst (expect_dispatch tr g h body)), snd (expect_dispatch tr g h body)).
Proof.
  intros Hm R5. destruct h as [a0 a1 a2 a3 a4 a5 a6 a7 a8 a9]. cbn [h5] in R5.
  unfold transport_dispatchFrame, expect_dispatch, hdr_bytes. cbn [app h0 h1 h2 h3 h4 h5 h6 h7 h8 h9].
  rewrite fr_4. cbn [gbind]. rewrite fr_5. cbn [gbind]. cbv zeta.
  match goal with
  | |- context [gbind (if negb (Z.eqb a4 0) then GOk true else ?y) ?k] =>
      replace (gbind (if negb (Z.eqb a4 0) then GOk true else y) k) with (k (negb (a4 =? 0) || negb (valid_stype a5)))
  end.
  2:{ rewrite bridge_IsValidSType by exact R5. destruct (a4 =? 0) eqn:C; [replace (Z.eqb a4 0) with true|replace (Z.eqb a4 0) with false]; reflexivity. }
  cbv beta.
  destruct (negb (a4 =? 0) || negb (valid_stype a5)) eqn:C1.
  { rewrite (bridge_sendReject_l tr m) by exact Hm. reflexivity. }
  assert (A4 : a4 = 0) by lia. assert (V : valid_stype a5 = true) by (destruct (valid_stype a5); [reflexivity|lia]).
  subst a4. clear C1 R5.
  change (len (a0 :: a1 :: a2 :: a3 :: 0 :: a5 :: a6 :: a7 :: a8 :: a9 :: body)) with (go_len (a0 :: a1 :: a2 :: a3 :: 0 :: a5 :: a6 :: a7 :: a8 :: a9 :: body)). rewrite !frame_len.
  pose proof (go_len_nonneg body) as Nb.
  assert (LB : (10 + go_len body =? 10) = match body with [] => true | _ => false end).
  { destruct body; [reflexivity|]. rewrite go_len_cons. pose proof (go_len_nonneg body). lia. }
  apply valid_stype_cases in V. destruct V as [->|V].
  - (* a data message *)
    cbn [negb andb Z.eqb gbind]. change (wrapU 8 0) with 0. cbn [Z.eqb negb andb gbind]. cbv zeta. cbn [Z.eqb].
    unfold st_ret. open_tr tr Hm.
    cbn [go_deref gbind transport_rt Gen2.hsms.TransportRuntime_State_ret].
    destruct (r_st =? 2) eqn:C.
    + replace (Z.eqb r_st 2) with true. reflexivity.
    + replace (Z.eqb r_st 2) with false. cbn [negb].
      erewrite bridge_sendRejectNotSelected_l by reflexivity. reflexivity.
  - (* a control frame *)
    assert (K0 : (a5 =? 0) = false) by (cbn [In] in V; lia).
    assert (W : wrapU 8 a5 = a5) by (cbn [In] in V; unfold wrapU; apply Z.mod_small; change (2 ^ 8) with 256; lia).
    rewrite W. replace (Z.eqb a5 0) with false. cbn [negb andb]. rewrite LB.
    destruct body as [|b0 body'].
    2:{ cbn [negb]. rewrite (bridge_sendReject_l tr m) by exact Hm. reflexivity. }
    cbn [negb gbind]. cbv zeta.
    rewrite (bridge_decodeControlFrame a0 a1 a2 a3 a5 a6 a7 a8 a9 V).
    unfold st_ret, commit_ret, route_ret, is_response. open_tr tr Hm.
    cbn [go_deref gbind transport_cfg transport_rt].
    destruct (Gen2.hsms.ConnectionConfig_TraceTraffic_ret (Config_ConnectionConfig t_cfg)); cbn [gbind];
    cbn [In] in V; destruct V as [<-|[<-|[<-|[<-|[<-|[<-|[<-|[<-|[]]]]]]]]]; cbn [Z.eqb orb andb negb Pos.eqb gbind];
    try reflexivity.
    all: try (destruct r_cs; reflexivity).
    all: try (destruct (r_st =? 2) eqn:C; [replace (Z.eqb r_st 2) with true|replace (Z.eqb r_st 2) with false]; reflexivity).
    (* Deselect.req and Separate.req: through their handler lemmas *)
    all: unfold transport_handleControlReq.
    all: rewrite ?ctype_lit by (cbn [In]; tauto).
    all: cbn [gbind Z.eqb Pos.eqb].
    all: try (match goal with
              | |- context [transport_handleDeselectReq (Some ?TR) ?G (Gen2.hsms.Message_ControlMessage (Some (Gen2.hsms.mk_ControlMessage [?b0; ?b1; ?b2; ?b3; 0; 3; ?b6; ?b7; ?b8; ?b9] false)))] =>
                  pose proof (bridge_handleDeselectReq TR _ G b0 b1 b2 b3 0 b6 b7 b8 b9 eq_refl) as D;
                  cbv zeta in D; unfold cm_of, hdr_bytes in D; cbn [c_hdr c_reply h0 h1 h2 h3 h4 h5 h6 h7 h8 h9] in D;
                  rewrite D; clear D
              end; unfold st_ret;
              cbn [transport_rt Gen2.hsms.TransportRuntime_State_ret]; destruct (r_st =? 2); timeout 20 reflexivity).
    all: try (erewrite bridge_handleSeparateReq by reflexivity; unfold st_ret;
              cbn [transport_rt Gen2.hsms.TransportRuntime_State_ret]; destruct (r_st =? 2); timeout 20 reflexivity).
    (* the response-routing cases *)
    all: cbn [goerr_is_nil negb].
    all: rewrite ?ctype_lit by (cbn [In]; tauto).
    all: cbn [gbind Z.eqb Pos.eqb].
    all: unfold ConnectionMetrics_incRejectRecv, selectStatus, Gen2.hsms.ControlMessage_HeaderBytes.
    all: cbn [go_deref gbind transport_metrics Gen2.hsms.ControlMessage_header].
    all: unfold set_transport_metrics, set_transport_rt, set_transport_calls, Gen2.hsms.set_TransportRuntime_calls.
    all: cbn [go_deref gbind transport_cfg transport_rt transport_metrics transport_stopping transport_wg transport_clockBase
              transport_lastSendStamp transport_lastRecvStamp transport_calls
              Gen2.hsms.TransportRuntime_RouteReply_ret Gen2.hsms.TransportRuntime_CommitSelected_ret
              Gen2.hsms.TransportRuntime_DeliverOwnedFrame_ret Gen2.hsms.TransportRuntime_SendAsync_ret
              Gen2.hsms.TransportRuntime_State_ret Gen2.hsms.TransportRuntime_calls].
    all: try change (arr_get [a0; a1; a2; a3; 0; 2; a6; a7; a8; a9] 3) with a3.
    all: destruct r_rr; cbn [gbind go_deref Z.eqb Pos.eqb negb andb].
    all: try (destruct (a3 =? 0)); try (destruct r_cs); try (timeout 20 reflexivity).
    all: try (erewrite bridge_sendRejectTransactionNotOpen_l by reflexivity; timeout 20 reflexivity).
Qed.

(** ** the control messages of [expect_dispatch] are the frames of Hsms/Responder.v
    (model-to-model: the header the Header.v constructors build = [header_bytes] of the frame the
    responder model sends), for a frame [f] of the responder model read as the header [hdr_of_frame f] *)
From GoSecs Require Hsms.Responder.

Definition sys_bytes_of (sys : Z) : Z * Z * Z * Z :=
  (sys / 16777216, (sys / 65536) mod 256, (sys / 256) mod 256, sys mod 256).

Definition hdr_of_frame (f : Responder.frame) : hdr :=
  let '(s3, s2, s1, s0) := sys_bytes_of (Responder.f_sys f) in
  mkHdr (Responder.f_sid f / 256) (Responder.f_sid f mod 256) (Responder.f_b2 f) (Responder.f_b3 f)
        (Responder.f_pt f) (Responder.f_st f) s3 s2 s1 s0.

Lemma hdr_of_frame_bytes f : hdr_bytes (hdr_of_frame f) = Responder.header_bytes f.
Proof. reflexivity. Qed.

Lemma session_id_of_frame f : 0 <= Responder.f_sid f < 65536 -> session_id (hdr_of_frame f) = Responder.f_sid f.
Proof. intros H. unfold session_id, hdr_of_frame, de16. cbn [sys_bytes_of h0 h1]. Z.div_mod_to_equations; lia. Qed.

Lemma reject_raw_frame sid pt st sys reason : 0 <= sid < 65536 ->
  hdr_bytes (c_hdr (new_reject_req_raw sid pt st (sys_bytes_of sys) reason)) =
  Responder.header_bytes (Responder.reject_raw sid pt st sys reason).
Proof.
  intros H. unfold new_reject_req_raw, Responder.reject_raw, Responder.ctrl, Responder.header_bytes, sys_bytes_of,
    REJECT_PTYPE_NOT_SUPPORTED, Responder.reason_ptype, ST_REJECT_REQ, Responder.st_reject_req.
  cbn [c_hdr put_sys put_st put_b3 put_b2 put_sid hdr_zero hdr_bytes h0 h1 h2 h3 h4 h5 h6 h7 h8 h9
       Responder.f_sid Responder.f_b2 Responder.f_b3 Responder.f_pt Responder.f_st Responder.f_sys].
  unfold hdr_bytes. cbn [h0 h1 h2 h3 h4 h5 h6 h7 h8 h9].
  replace ((sid / 256) mod 256) with (sid / 256) by (Z.div_mod_to_equations; lia). reflexivity.
Qed.

Lemma select_rsp_frame f status : 0 <= Responder.f_sid f < 65536 ->
  hdr_bytes (c_hdr (rsp_of (mkC (hdr_of_frame f) false) ST_SELECT_RSP status)) =
  Responder.header_bytes (Responder.select_rsp f status).
Proof. intros H. reflexivity. Qed.

Lemma deselect_rsp_frame f status : 0 <= Responder.f_sid f < 65536 ->
  hdr_bytes (c_hdr (rsp_of (mkC (hdr_of_frame f) false) ST_DESELECT_RSP status)) =
  Responder.header_bytes (Responder.deselect_rsp f status).
Proof. intros H. reflexivity. Qed.

Lemma linktest_rsp_frame f :
  hdr_bytes (put_sys (put_st (put_b01 hdr_zero 255 255) ST_LINKTEST_RSP) (system_bytes (hdr_of_frame f))) =
  Responder.header_bytes (Responder.linktest_rsp f).
Proof. reflexivity. Qed.
