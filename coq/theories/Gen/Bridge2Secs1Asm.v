(** Bridge (translator v2): the SECS-I inbound assembler REGENERATED from secs1/assembler.go,
    block.go (header accessors), message.go ([assembleFrame]) and metrics.go (the six counters) into
    [Gen/Gen2.v] equals the hand model: [hdr_*] / [msg_header] / [assemble_frame] of Secs1/Block.v
    and the step function [accept] of Secs1/Assembler.v.

    [accept] is translated state-passing: it returns the updated assembler. Its environment is
    explicit in the generated record: [assembler_now] (the injected clock, an int64 instant),
    [assembler_timers] (the live timer configuration), the log of [deliverFrame] calls and of
    [notify] calls, the answer [deliverFrame] will give, and the [*ConnectionMetrics] it points to. *)
From Coq Require Import String.
From Coq Require Import ZArith Bool List Lia ZifyBool.
From GoSecs Require Import Base.GoInt Base.BytesBE Base.GoSlice Gen.Gen2 Secs1.Block Secs1.BlockProofs
  Secs1.Assembler Gen.Bridge2Secs1.
Import ListNotations.
Open Scope Z_scope.
Import Gen2.secs1.

(** ** byte facts *)
Lemma land15 a b : 0 <= a < 256 -> 0 <= b < 256 -> Z.land (a * 256 + b) 32767 = (a mod 128) * 256 + b.
Proof.
  intros Ha Hb. change 32767 with (Z.ones 15). rewrite Z.land_ones by lia. change (2 ^ 15) with 32768.
  Z.div_mod_to_equations; lia.
Qed.

Lemma bit7 a : 0 <= a < 256 -> negb (Z.eqb (Z.land a 128) 0) = (128 <=? a).
Proof.
  intros H.
  assert (A : allb_upto 256 (fun a => Bool.eqb (negb (Z.eqb (Z.land a 128) 0)) (128 <=? a)) = true)
    by (vm_compute; reflexivity).
  apply (allb_upto_spec _ _ A) in H. apply Bool.eqb_prop in H. exact H.
Qed.

(** ** a well-formed ten-byte header *)
Definition wf_hdr (hdr : list Z) : Prop := length hdr = 10%nat /\ Block.bytes_ok hdr.

Ltac ten hdr H :=
  let L := fresh "L" in let B := fresh "B" in
  destruct H as [L B];
  destruct hdr as [|a0 [|a1 [|a2 [|a3 [|a4 [|a5 [|a6 [|a7 [|a8 [|a9 [|? ?]]]]]]]]]]]; try discriminate L;
  clear L; unfold Block.bytes_ok in B;
  repeat match goal with
         | H : Forall _ (_ :: _) |- _ =>
             let h := fresh "R" in pose proof (Forall_inv H) as h; apply Forall_inv_tail in H
         end; unfold Block.byte_ok in *.

Definition gblk (b : Block.block) : Gen2.secs1.block := blk_of b.

Lemma bridge_block_deviceID b : wf_hdr (b_hdr b) -> block_deviceID (gblk b) = GOk (hdr_dev (b_hdr b)).
Proof.
  destruct b as [hdr body]. cbn [b_hdr]. intros H. ten hdr H.
  unfold block_deviceID, gblk, blk_of. cbn [b_hdr b_body block_header].
  change (arr_slice _ 0 2) with [a0; a1]. rewrite be_get_two. cbn [gbind].
  rewrite land15 by lia. reflexivity.
Qed.

Lemma bridge_block_blockNumber b : wf_hdr (b_hdr b) -> block_blockNumber (gblk b) = GOk (hdr_num (b_hdr b)).
Proof.
  destruct b as [hdr body]. cbn [b_hdr]. intros H. ten hdr H.
  unfold block_blockNumber, gblk, blk_of. cbn [b_hdr b_body block_header].
  change (arr_slice _ 4 6) with [a4; a5]. rewrite be_get_two. cbn [gbind].
  rewrite land15 by lia. reflexivity.
Qed.

Lemma bridge_block_rBit b : wf_hdr (b_hdr b) -> block_rBit (gblk b) = GOk (hdr_rbit (b_hdr b)).
Proof.
  destruct b as [hdr body]. cbn [b_hdr]. intros H. ten hdr H.
  unfold block_rBit, gblk, blk_of. cbn [b_hdr b_body block_header].
  change (arr_get _ 0) with a0. rewrite bit7 by lia. reflexivity.
Qed.

Lemma bridge_block_eBit b : wf_hdr (b_hdr b) -> block_eBit (gblk b) = GOk (hdr_ebit (b_hdr b)).
Proof.
  destruct b as [hdr body]. cbn [b_hdr]. intros H. ten hdr H.
  unfold block_eBit, gblk, blk_of. cbn [b_hdr b_body block_header].
  change (arr_get _ 4) with a4. rewrite bit7 by lia. reflexivity.
Qed.

Lemma bridge_block_waitBit b : wf_hdr (b_hdr b) -> block_waitBit (gblk b) = GOk (hdr_wbit (b_hdr b)).
Proof.
  destruct b as [hdr body]. cbn [b_hdr]. intros H. ten hdr H.
  unfold block_waitBit, gblk, blk_of. cbn [b_hdr b_body block_header].
  change (arr_get _ 2) with a2. rewrite bit7 by lia. reflexivity.
Qed.

Lemma bridge_block_stream b : wf_hdr (b_hdr b) -> block_stream (gblk b) = GOk (hdr_stream (b_hdr b)).
Proof.
  destruct b as [hdr body]. cbn [b_hdr]. intros H. ten hdr H.
  unfold block_stream, gblk, blk_of. cbn [b_hdr b_body block_header].
  change (arr_get _ 2) with a2. rewrite land127. reflexivity.
Qed.

Lemma bridge_block_function b : wf_hdr (b_hdr b) -> block_function (gblk b) = GOk (hdr_func (b_hdr b)).
Proof. destruct b as [hdr body]. cbn [b_hdr]. intros H. ten hdr H. reflexivity. Qed.

Lemma bridge_block_systemBytes b : wf_hdr (b_hdr b) -> block_systemBytes (gblk b) = GOk (hdr_sys (b_hdr b)).
Proof. destruct b as [hdr body]. cbn [b_hdr]. intros H. ten hdr H. reflexivity. Qed.

Lemma bridge_block_messageHeader b : wf_hdr (b_hdr b) ->
  block_messageHeader (gblk b) = GOk (mh_of (msg_header (b_hdr b))).
Proof.
  intros H. unfold block_messageHeader.
  rewrite bridge_block_deviceID, bridge_block_rBit, bridge_block_stream, bridge_block_function,
    bridge_block_waitBit, bridge_block_systemBytes by exact H.
  reflexivity.
Qed.

(** ** == on message headers *)
Lemma list_eqb_same a : forall b, GoSlice.list_eqb a b = Block.list_eqb a b.
Proof. induction a as [|x a IH]; intros [|y b]; cbn [GoSlice.list_eqb Block.list_eqb]; try reflexivity; rewrite IH; reflexivity. Qed.

Lemma bridge_eqb_messageHeader a b : eqb_messageHeader (mh_of a) (mh_of b) = mheader_eqb a b.
Proof.
  unfold eqb_messageHeader, mheader_eqb, mh_of.
  cbn [messageHeader_deviceID messageHeader_rBit messageHeader_stream messageHeader_function
       messageHeader_waitBit messageHeader_systemBytes].
  rewrite list_eqb_same, andb_true_r, !andb_assoc; reflexivity.
Qed.

(** ** assembleFrame *)
Definition ename (e : err) : string :=
  match e with
  | EEmptyBlocks => "ErrEmptyBlocks" | EBlockNumber => "ErrBlockNumberMismatch"
  | EEBit => "ErrEBitPlacement" | EHeaderMismatch => "ErrHeaderMismatch"
  | EInvalidLength => "ErrInvalidLength" | EChecksum => "ErrChecksumMismatch"
  | EInvalidHeader => "ErrInvalidHeader" | ETooLarge => "ErrMessageTooLarge"
  end.

Definition frame_result (r : result (list Z)) : list Z * goerror :=
  match r with Ok f => (f, ErrNil) | Err e => ([], ErrIs (ename e)) end.

(** the body of the checking loop, as generated ([n] = len(blocks)) *)
Definition chk_body (n : Z) (first : messageHeader) (s0 : bool) :
  Z -> Gen2.secs1.block -> Z -> gres (lctl Z (list Z * goerror)) :=
  fun i b total =>
    let wantNum := wrapS 64 (i + 1) in
    gbind (if s0 then GOk 0 else GOk wantNum) (fun wantNum =>
    gbind (block_blockNumber b) (fun t_6 =>
    if negb (Z.eqb (wrapS 64 t_6) wantNum)
    then gbind (block_blockNumber b) (fun _ => GOk (LRet ([], ErrIs "ErrBlockNumberMismatch"%string)))
    else gbind (block_eBit b) (fun t_8 =>
         if negb (Bool.eqb t_8 (Z.eqb i (wrapS 64 (n - 1))))
         then GOk (LRet ([], ErrIs "ErrEBitPlacement"%string))
         else gbind (block_messageHeader b) (fun t_9 =>
              if negb (eqb_messageHeader t_9 first)
              then GOk (LRet ([], ErrIs "ErrHeaderMismatch"%string))
              else gbind (Gen2.wire.Chunk_Len (block_body b)) (fun t_10 =>
                   GOk (LNext (wrapS 64 (total + t_10)))))))).

Definition wf_blk (b : Block.block) : Prop := wf_hdr (b_hdr b).
Definition body_total (bs : list Block.block) : Z := fold_right (fun b a => zlen (b_body b) + a) 0 bs.

Lemma wrapS64_ok x : - 2 ^ 62 <= x <= 2 ^ 62 -> wrapS 64 x = x.
Proof. intros. apply wrapS_id; [lia|]. unfold inS. change (64 - 1) with 63. lia. Qed.

Lemma hdr_num_range hdr : wf_hdr hdr -> 0 <= hdr_num hdr <= 32767.
Proof. intros H. ten hdr H. unfold hdr_num, hb. cbn [nth]. Z.div_mod_to_equations; lia. Qed.

Lemma chk_loop n first s0 : forall bs i total,
  Forall wf_blk bs -> 0 <= i -> i + zlen bs <= n -> n <= 2 ^ 61 ->
  0 <= total -> total + body_total bs <= 2 ^ 61 ->
  range_loop (chk_body n (mh_of first) s0) i (map gblk bs) total =
  match check_blocks first s0 n i bs with
  | Some e => GOk (LRetd ([], ErrIs (ename e)))
  | None => GOk (LDone (total + body_total bs))
  end.
Proof.
  induction bs as [|b bs IH]; intros i total Hw Hi Hn Hn2 Ht Htt.
  - cbn [map range_loop check_blocks body_total fold_right]. rewrite Z.add_0_r. reflexivity.
  - pose proof (Forall_inv Hw) as Hb. pose proof (Forall_inv_tail Hw) as Hw'.
    rewrite zlen_cons in Hn. pose proof (zlen_nonneg bs) as Nb.
    cbn [body_total fold_right] in Htt. fold (body_total bs) in Htt.
    pose proof (zlen_nonneg (b_body b)) as Nbody.
    assert (Nt : 0 <= body_total bs).
    { clear. induction bs as [|x l IHl]; cbn [body_total fold_right]; [lia|]. fold (body_total l).
      pose proof (zlen_nonneg (b_body x)). lia. }
    cbn [map range_loop check_blocks]. unfold chk_body at 1. cbv zeta.
    rewrite bridge_block_blockNumber by exact Hb. cbn [gbind].
    pose proof (hdr_num_range _ Hb) as Rn.
    rewrite (wrapS64_ok (i + 1)), (wrapS64_ok (hdr_num (b_hdr b))), (wrapS64_ok (n - 1)) by lia.
    match goal with
    | |- context [gbind (if s0 then GOk 0 else GOk ?w) ?k] =>
        replace (gbind (if s0 then GOk 0 else GOk w) k) with (k (if s0 then 0 else w)) by (destruct s0; reflexivity)
    end. cbv beta.
    destruct (negb (hdr_num (b_hdr b) =? (if s0 then 0 else i + 1))) eqn:C1.
    { replace (negb (Z.eqb (hdr_num (b_hdr b)) (if s0 then 0 else i + 1))) with true. reflexivity. }
    replace (negb (Z.eqb (hdr_num (b_hdr b)) (if s0 then 0 else i + 1))) with false.
    rewrite bridge_block_eBit by exact Hb. cbn [gbind].
    destruct (negb (Bool.eqb (hdr_ebit (b_hdr b)) (i =? n - 1))) eqn:C2.
    { reflexivity. }
    rewrite bridge_block_messageHeader by exact Hb. cbn [gbind].
    rewrite bridge_eqb_messageHeader.
    destruct (negb (mheader_eqb (msg_header (b_hdr b)) first)) eqn:C3; [reflexivity|].
    unfold Gen2.wire.Chunk_Len, gblk, blk_of. cbn [block_body Gen2.wire.Chunk_b gbind b_body].
    change (go_len (b_body b)) with (zlen (b_body b)).
    rewrite (wrapS64_ok (total + zlen (b_body b))) by lia.
    rewrite IH by (try assumption; lia).
    destruct (check_blocks first s0 n (i + 1) bs); [reflexivity|].
    cbn [body_total fold_right]. fold (body_total bs). do 2 f_equal. lia.
Qed.

Lemma go_index_g_0 {A} (x : A) l : go_index_g (x :: l) 0 = GOk x.
Proof.
  unfold go_index_g. replace ((0 <=? 0) && (0 <? Z.of_nat (length (x :: l)))) with true by (cbn [length]; lia).
  reflexivity.
Qed.

Lemma append_bodies (R : Type) bs buf :
  range_loop (R := R) (fun (_ : Z) (b : Gen2.secs1.block) buf =>
     gbind (Gen2.wire.Chunk_AppendTo (block_body b) buf) (fun t => GOk (LNext t))) 0 (map gblk bs) buf
  = GOk (LDone (buf ++ concat (map b_body bs))).
Proof.
  rewrite (range_loop_fold _ (fun buf b => buf ++ Gen2.wire.Chunk_b (block_body b))) by reflexivity.
  f_equal. f_equal. revert buf. induction bs as [|b bs IH]; intros buf; cbn [map fold_left concat].
  - rewrite app_nil_r. reflexivity.
  - rewrite IH. unfold gblk, blk_of. cbn [block_body Gen2.wire.Chunk_b]. rewrite app_assoc. reflexivity.
Qed.

Lemma frame_header {B : Type} (h : mheader) (c : Z) (K : list Z -> gres B) :
  10 <= c -> length (h_sys h) = 4%nat ->
  let first := mh_of h in
  gbind (go_make_cap 10 c) (fun buf =>
  gbind (go_set buf 0 (wrapU 8 (shrU 16 (messageHeader_deviceID first) 8))) (fun buf =>
  gbind (go_set buf 1 (wrapU 8 (messageHeader_deviceID first))) (fun buf =>
  gbind (go_set buf 2 (Z.land (messageHeader_stream first) 127)) (fun buf =>
  gbind (if messageHeader_waitBit first
         then gbind (go_index buf 2) (fun t => gbind (go_set buf 2 (Z.lor t 128)) (fun b => GOk b))
         else GOk buf) (fun buf =>
  gbind (go_set buf 3 (messageHeader_function first)) (fun buf =>
  gbind (go_slice buf 6 10) (fun t =>
  K (splice buf 6 (go_copy t (messageHeader_systemBytes first))))))))))
  = K (hsms_header_of h).
Proof.
  destruct h as [dev rbit stream fn wbit sys]. cbn [h_sys]. intros Hc Hs.
  destruct sys as [|s0 [|s1 [|s2 [|s3 [|? ?]]]]]; try discriminate.
  unfold hsms_header_of, mh_of.
  cbn [h_dev h_rbit h_stream h_func h_wbit h_sys messageHeader_deviceID messageHeader_stream
       messageHeader_waitBit messageHeader_function messageHeader_systemBytes app].
  rewrite <- (stream_flag_gen stream wbit). rewrite shrU16_8, !wrapU8.
  unfold go_make_cap. replace ((10 <? 0) || (c <? 10)) with false by lia.
  generalize ((dev / 256) mod 256) (dev mod 256) (Z.land stream 127). intros x y z.
  destruct wbit; reflexivity.
Qed.

Lemma hdr_sys_length hdr : wf_hdr hdr -> length (hdr_sys hdr) = 4%nat.
Proof. intros H. ten hdr H. reflexivity. Qed.

Lemma body_total_nonneg bs : 0 <= body_total bs.
Proof.
  induction bs as [|x l IH]; cbn [body_total fold_right]; [lia|]. fold (body_total l).
  pose proof (zlen_nonneg (b_body x)). lia.
Qed.

Lemma bridge_assembleFrame bs : Forall wf_blk bs -> zlen bs <= 2 ^ 60 -> body_total bs <= 2 ^ 60 ->
  assembleFrame (map gblk bs) = GOk (frame_result (assemble_frame bs)).
Proof.
  intros Hw Hn Ht. unfold assembleFrame, assemble_frame. rewrite map_length. fold (zlen bs).
  destruct bs as [|b0 bs']; [reflexivity|].
  set (bs := b0 :: bs') in *.
  assert (Nz : 1 <= zlen bs) by (subst bs; rewrite zlen_cons; pose proof (zlen_nonneg bs'); lia).
  replace (Z.eqb (zlen bs) 0) with false by lia.
  pose proof (Forall_inv Hw) as Hb0.
  change (map gblk bs) with (gblk b0 :: map gblk bs') at 1 2. rewrite !go_index_g_0. cbn [gbind].
  rewrite bridge_block_messageHeader by exact Hb0. cbn [gbind]. cbv zeta.
  rewrite bridge_block_blockNumber by exact Hb0.
  set (first := msg_header (b_hdr b0)).
  set (s0 := (zlen bs =? 1) && (hdr_num (b_hdr b0) =? 0)).
  match goal with
  | |- context [gbind (if Z.eqb (zlen bs) 1 then ?x else GOk false) ?k] =>
      replace (gbind (if Z.eqb (zlen bs) 1 then x else GOk false) k) with (k s0)
  end.
  2:{ subst s0. destruct (zlen bs =? 1) eqn:C.
      - replace (Z.eqb (zlen bs) 1) with true. reflexivity.
      - replace (Z.eqb (zlen bs) 1) with false. reflexivity. }
  cbv beta.
  cbn [gbind].
  match goal with
  | |- context [range_loop ?f 0 (map gblk bs) 0] => change f with (chk_body (zlen bs) (mh_of first) s0)
  end.
  rewrite chk_loop by (try assumption; try lia; pose proof (body_total_nonneg bs); lia).
  destruct (check_blocks first s0 (zlen bs) 0 bs) as [e|]; [reflexivity|].
  cbn [loop_k]. rewrite Z.add_0_l.
  pose proof (body_total_nonneg bs) as Nt.
  rewrite (wrapS64_ok (10 + body_total bs)) by lia.
  match goal with
  | |- context [range_loop ?f 0 (map gblk bs) _] =>
      set (K := fun buf : list Z =>
             loop_k (range_loop (R := (list Z * goerror)%type) f 0 (map gblk bs) buf)
                    (fun buf => GOk (buf, ErrNil)) (fun r_ : list Z * goerror => GOk r_))
  end.
  transitivity (K (hsms_header_of first)).
  - exact (frame_header first (10 + body_total bs) K ltac:(lia) (hdr_sys_length _ Hb0)).
  - subst K. cbv beta. rewrite append_bodies. reflexivity.
Qed.

(** ** the assembler: Go record = environment part (of [g]) + model state [st] *)
Definition st_put (g : assembler) (st : astate) : assembler :=
  mk_assembler (assembler_isEquip g) (assembler_deviceID g) (assembler_deliverFrame g) (assembler_now g)
    (assembler_timers g) (assembler_metrics g) (assembler_notify g)
    (a_open st) (mh_of (a_hdr st)) (map gblk (a_blocks st)) (a_expected st) (a_last_time st)
    (a_last_hdr st) (a_have_last st)
    (assembler_deliverFrame_log g) (assembler_deliverFrame_ret g) (assembler_notify_log g).

Ltac asm_simpl :=
  cbn [go_deref gbind fst snd st_put
       assembler_isEquip assembler_deviceID assembler_deliverFrame assembler_now
       assembler_timers assembler_metrics assembler_notify assembler_open
       assembler_header assembler_blocks assembler_expected assembler_lastBlockTime
       assembler_lastHeader assembler_haveLast assembler_deliverFrame_log assembler_deliverFrame_ret
       assembler_notify_log set_assembler_isEquip set_assembler_deviceID set_assembler_deliverFrame
       set_assembler_now set_assembler_timers set_assembler_metrics set_assembler_notify
       set_assembler_open set_assembler_header set_assembler_blocks set_assembler_expected
       set_assembler_lastBlockTime set_assembler_lastHeader set_assembler_haveLast set_assembler_deliverFrame_log
       set_assembler_deliverFrame_ret set_assembler_notify_log ConnectionMetrics_blockSend ConnectionMetrics_blockRecv
       ConnectionMetrics_blockRetry ConnectionMetrics_blockSendFailed ConnectionMetrics_blockNAKSent ConnectionMetrics_contentionYield
       ConnectionMetrics_blockDupDrop ConnectionMetrics_partialTimeout ConnectionMetrics_blockDirDrop ConnectionMetrics_deviceIDMismatch
       ConnectionMetrics_blockNumberMismatch ConnectionMetrics_invalidFirstBlock set_ConnectionMetrics_blockSend set_ConnectionMetrics_blockRecv
       set_ConnectionMetrics_blockRetry set_ConnectionMetrics_blockSendFailed set_ConnectionMetrics_blockNAKSent set_ConnectionMetrics_contentionYield
       set_ConnectionMetrics_blockDupDrop set_ConnectionMetrics_partialTimeout set_ConnectionMetrics_blockDirDrop set_ConnectionMetrics_deviceIDMismatch
       set_ConnectionMetrics_blockNumberMismatch set_ConnectionMetrics_invalidFirstBlock
       hsms.TimerConfig_T4 block_header block_body].

Definition vname (v : viol) : string :=
  match v with
  | VDevice => "ErrDeviceIDMismatch" | VNumber => "ErrBlockNumberMismatch"
  | VHeader => "ErrHeaderMismatch" | VInvalidFirst => "ErrInvalidFirstBlock"
  end.

Definition bump (c : counter) (m : ConnectionMetrics) : ConnectionMetrics :=
  match c with
  | CDevice => set_ConnectionMetrics_deviceIDMismatch m (wrapU 64 (ConnectionMetrics_deviceIDMismatch m + 1))
  | CDir => set_ConnectionMetrics_blockDirDrop m (wrapU 64 (ConnectionMetrics_blockDirDrop m + 1))
  | CPartialTimeout => set_ConnectionMetrics_partialTimeout m (wrapU 64 (ConnectionMetrics_partialTimeout m + 1))
  | CDup => set_ConnectionMetrics_blockDupDrop m (wrapU 64 (ConnectionMetrics_blockDupDrop m + 1))
  | CNumberMismatch => set_ConnectionMetrics_blockNumberMismatch m (wrapU 64 (ConnectionMetrics_blockNumberMismatch m + 1))
  | CInvalidFirst => set_ConnectionMetrics_invalidFirstBlock m (wrapU 64 (ConnectionMetrics_invalidFirstBlock m + 1))
  end.

(** the effect of one model output on the environment part of the Go record *)
Definition out1 (g : assembler) (o : aout) : assembler :=
  match o with
  | ODeliver f => set_assembler_deliverFrame_log g (assembler_deliverFrame_log g ++ [f])
  | OViol v hdr =>
      if assembler_notify g
      then set_assembler_notify_log g (assembler_notify_log g ++ [(ErrIs (vname v), hdr)])
      else g
  | OCount c => set_assembler_metrics g (option_map (bump c) (assembler_metrics g))
  | OError _ => g
  end.
Definition outs (g : assembler) (os : list aout) : assembler := fold_left out1 os g.

(** what [accept] returns: the error of a failed reassembly, else what [deliverFrame] answered *)
Definition ret_of (g : assembler) (os : list aout) : goerror :=
  fold_left (fun r o => match o with
                        | ODeliver _ => assembler_deliverFrame_ret g
                        | OError e => ErrIs (ename e)
                        | _ => r
                        end) os ErrNil.

Lemma go_slice_g_00 {A} (l : list A) : go_slice_g l 0 0 = GOk [].
Proof.
  unfold go_slice_g. replace ((0 <=? 0) && (0 <=? 0) && (0 <=? Z.of_nat (length l))) with true by lia.
  reflexivity.
Qed.

Lemma bridge_reset g st :
  assembler_reset (Some (st_put g st)) = GOk (Some (st_put g (reset st)), tt).
Proof.
  unfold assembler_reset. asm_simpl. rewrite go_slice_g_00. asm_simpl. reflexivity.
Qed.

Lemma bridge_report g st v hdr :
  assembler_report (Some (st_put g st)) (ErrIs (vname v)) hdr = GOk (Some (st_put (out1 g (OViol v hdr)) st), tt).
Proof.
  unfold assembler_report, out1. asm_simpl. rewrite negb_involutive.
  destruct (assembler_notify g) eqn:N; asm_simpl; rewrite ?N; reflexivity.
Qed.

Lemma bridge_inc m :
  ConnectionMetrics_incDeviceIDMismatchCount (Some m) = GOk (Some (bump CDevice m), tt) /\
  ConnectionMetrics_incBlockDirDropCount (Some m) = GOk (Some (bump CDir m), tt) /\
  ConnectionMetrics_incPartialTimeoutCount (Some m) = GOk (Some (bump CPartialTimeout m), tt) /\
  ConnectionMetrics_incBlockDupDropCount (Some m) = GOk (Some (bump CDup m), tt) /\
  ConnectionMetrics_incBlockNumberMismatchCount (Some m) = GOk (Some (bump CNumberMismatch m), tt) /\
  ConnectionMetrics_incInvalidFirstBlockCount (Some m) = GOk (Some (bump CInvalidFirst m), tt).
Proof. repeat split; reflexivity. Qed.

(** the environment an [accept] call runs in *)
Definition env_ok (g : assembler) : Prop :=
  (exists m, assembler_metrics g = Some m) /\ assembler_deliverFrame g = true.

Definition blocks_ok (bs : list Block.block) : Prop :=
  Forall wf_blk bs /\ zlen bs <= 2 ^ 60 /\ body_total bs <= 2 ^ 60.

Ltac open_env g He :=
  let m := fresh "m" in let Hm := fresh "Hm" in let Hd := fresh "Hd" in
  destruct He as [[m Hm] Hd];
  destruct g as [g_eq g_dev g_df g_now g_tm g_met g_nf g_o g_h g_b g_x g_t g_lh g_hl g_dl g_dr g_nl];
  cbn [assembler_metrics assembler_deliverFrame] in Hm, Hd; subst g_met g_df.

Lemma bridge_complete g st : env_ok g -> blocks_ok (a_blocks st) ->
  assembler_complete (Some (st_put g st)) =
  GOk (Some (outs (st_put g (fst (complete st))) (snd (complete st))), ret_of g (snd (complete st))).
Proof.
  intros He (Hw & Hn & Ht). unfold assembler_complete, complete. asm_simpl.
  rewrite bridge_assembleFrame by assumption.
  destruct (assemble_frame (a_blocks st)) as [f|e]; cbn [frame_result fst snd]; rewrite bridge_reset; asm_simpl;
    open_env g He; reflexivity.
Qed.

Lemma body_total_app a b : body_total (a ++ b) = body_total a + body_total b.
Proof.
  induction a as [|x a IH]; cbn [app body_total fold_right]; [reflexivity|]. fold (body_total (a ++ b)) (body_total a).
  rewrite IH. lia.
Qed.

Definition ev_of (g : assembler) (b : Block.block) : ev :=
  {| e_time := assembler_now g; e_t4 := hsms.TimerConfig_T4 (assembler_timers g); e_blk := b |}.

Definition grows_ok (st : astate) (b : Block.block) : Prop := blocks_ok (a_blocks st ++ [b]).

Lemma blocks_ok_single st b : grows_ok st b -> blocks_ok [b].
Proof.
  intros (Hw & Hn & Ht). apply Forall_app in Hw. destruct Hw as [_ Hw].
  rewrite zlen_app in Hn. rewrite body_total_app in Ht.
  pose proof (zlen_nonneg (a_blocks st)). pose proof (body_total_nonneg (a_blocks st)).
  repeat split; [exact Hw|lia|lia].
Qed.

Lemma bridge_appendBlock g st b : env_ok g -> grows_ok st b ->
  let r := append_blk st (ev_of g b) in
  assembler_appendBlock (Some (st_put g st)) (gblk b) =
  GOk (Some (outs (st_put g (fst r)) (snd r)), ret_of g (snd r)).
Proof.
  intros He Hg r. subst r.
  assert (Hb : wf_blk b) by (destruct Hg as (Hw & _); apply Forall_app in Hw; destruct Hw as [_ Hw]; exact (Forall_inv Hw)).
  unfold assembler_appendBlock, append_blk, e_hdr, ev_of. cbn [e_blk e_time]. asm_simpl.
  rewrite bridge_block_blockNumber by exact Hb. asm_simpl.
  pose proof (hdr_num_range _ Hb) as Rn.
  replace (wrapU 16 (hdr_num (b_hdr b) + 1)) with (hdr_num (b_hdr b) + 1)
    by (unfold wrapU; rewrite Z.mod_small; [reflexivity|change (2 ^ 16) with 65536; lia]).
  rewrite bridge_block_eBit by exact Hb. asm_simpl.
  change [gblk b] with (map gblk [b]). rewrite <- (map_app gblk (a_blocks st) [b]).
  set (st' := {| a_open := a_open st; a_hdr := a_hdr st; a_blocks := a_blocks st ++ [b];
                 a_expected := hdr_num (b_hdr b) + 1; a_last_time := assembler_now g;
                 a_last_hdr := b_hdr b; a_have_last := true |}).
  destruct (hdr_ebit (b_hdr b)).
  - match goal with |- context [assembler_complete (Some ?x)] => change x with (st_put g st') end.
    rewrite (bridge_complete g st' He Hg). asm_simpl. reflexivity.
  - reflexivity.
Qed.

Lemma bridge_startMessage g st b notify : env_ok g -> blocks_ok [b] ->
  let r := start_message st (ev_of g b) notify in
  assembler_startMessage (Some (st_put g st)) (gblk b) notify =
  GOk (Some (outs (st_put g (fst r)) (snd r)), ret_of g (snd r)).
Proof.
  intros He Hg r. subst r.
  assert (Hb : wf_blk b) by (destruct Hg as (Hw & _); exact (Forall_inv Hw)).
  unfold assembler_startMessage, start_message, valid_first_hdr, e_hdr, ev_of. cbn [e_blk e_time].
  rewrite bridge_block_blockNumber by exact Hb. asm_simpl. cbv zeta.
  rewrite !bridge_block_eBit, ?bridge_block_stream, ?bridge_block_function by exact Hb.
  pose proof (hdr_num_range _ Hb) as Rn.
  set (num := hdr_num (b_hdr b)) in *. set (eb := hdr_ebit (b_hdr b)).
  match goal with
  | |- context [gbind (if Z.eqb num 1 then GOk true else ?y) ?k] =>
      replace (gbind (if Z.eqb num 1 then GOk true else y) k) with (k ((num =? 1) || ((num =? 0) && eb)))
  end.
  2:{ destruct (num =? 1) eqn:C1; [replace (Z.eqb num 1) with true; reflexivity|].
      replace (Z.eqb num 1) with false.
      destruct (num =? 0) eqn:C0; [replace (Z.eqb num 0) with true|replace (Z.eqb num 0) with false]; reflexivity. }
  cbv beta.
  destruct ((num =? 1) || ((num =? 0) && eb)) eqn:V; cbn [negb].
  - (* a valid first block *)
    asm_simpl. rewrite bridge_block_messageHeader by exact Hb. asm_simpl.
    rewrite go_slice_g_00. asm_simpl. cbn [app].
    replace (wrapU 16 (num + 1)) with (num + 1)
      by (unfold wrapU; rewrite Z.mod_small; [reflexivity|change (2 ^ 16) with 65536; lia]).
    set (st' := {| a_open := true; a_hdr := msg_header (b_hdr b); a_blocks := [b];
                   a_expected := num + 1; a_last_time := assembler_now g;
                   a_last_hdr := b_hdr b; a_have_last := true |}).
    destruct eb.
    + match goal with |- context [assembler_complete (Some ?x)] => change x with (st_put g st') end.
      rewrite (bridge_complete g st' He Hg). asm_simpl. reflexivity.
    + reflexivity.
  - (* not a valid first block *)
    asm_simpl. destruct notify; [|reflexivity].
    open_env g He. destruct g_nf; reflexivity.
Qed.

(** ** accept *)
Definition cfg_of (g : assembler) : acfg := {| c_equip := assembler_isEquip g; c_dev := assembler_deviceID g |}.

Definition time_ok (g : assembler) (st : astate) : Prop :=
  - 2 ^ 62 <= assembler_now g - a_last_time st <= 2 ^ 62.


(** how the environment part and the state part of the Go record commute *)
Lemma st_put_out1 g st o : st_put (out1 g o) st = out1 (st_put g st) o.
Proof. destruct o; cbn [out1]; [reflexivity| |reflexivity|reflexivity]. asm_simpl. destruct (assembler_notify g); reflexivity. Qed.

Lemma st_put_outs g st os : st_put (outs g os) st = outs (st_put g st) os.
Proof.
  unfold outs. revert g. induction os as [|o os IH]; intros g; cbn [fold_left]; [reflexivity|].
  rewrite IH, st_put_out1. reflexivity.
Qed.

Lemma ret_of_out1 g o os : ret_of (out1 g o) os = ret_of g os.
Proof.
  unfold ret_of. f_equal.
  assert (E : assembler_deliverFrame_ret (out1 g o) = assembler_deliverFrame_ret g).
  { destruct o; cbn [out1]; try reflexivity. destruct (assembler_notify g); reflexivity. }
  rewrite E. reflexivity.
Qed.

Lemma env_ok_out1 g o : env_ok g -> env_ok (out1 g o).
Proof.
  intros [[m Hm] Hd]. destruct o as [f|v hdr|c|e]; cbn [out1].
  - split; [exists m; exact Hm|exact Hd].
  - destruct (assembler_notify g); (split; [exists m; exact Hm|exact Hd]).
  - split; [exists (bump c m); cbn [assembler_metrics set_assembler_metrics]; rewrite Hm; reflexivity|exact Hd].
  - split; [exists m; exact Hm|exact Hd].
Qed.

Lemma ret_of_app_nodeliver g pre os :
  (forall o, In o pre -> match o with ODeliver _ | OError _ => False | _ => True end) ->
  ret_of g (pre ++ os) = ret_of g os.
Proof.
  intros H. unfold ret_of. rewrite fold_left_app. f_equal.
  induction pre as [|o pre IH] using rev_ind; [reflexivity|].
  rewrite fold_left_app. cbn [fold_left].
  assert (Ho : match o with ODeliver _ | OError _ => False | _ => True end) by (apply H, in_or_app; right; left; reflexivity).
  destruct o; try contradiction; apply IH; intros o' Ho'; apply H, in_or_app; left; exact Ho'.
Qed.

Lemma ev_of_out1 g o b : ev_of (out1 g o) b = ev_of g b.
Proof. destruct o; cbn [out1]; try reflexivity. destruct (assembler_notify g); reflexivity. Qed.

(** steps 3-5 of accept, exactly as generated (the part after the lazy T4 test) *)
Definition accept_core_go (a : option assembler) (blk : Gen2.secs1.block) : gres (option assembler * goerror) :=
 (gbind (go_deref a) (fun t_45 =>
 (gbind (if (assembler_haveLast t_45) then (gbind (go_deref a) (fun t_46 =>
 (GOk (GoSlice.list_eqb (block_header blk) (assembler_lastHeader t_46))))) else GOk false) (fun t_47 =>
 (if t_47
 then (gbind (go_deref a) (fun t_48 =>
 (gbind (ConnectionMetrics_incBlockDupDropCount (assembler_metrics t_48)) (fun t_49 =>
 (let '(t_50, t_51) := t_49 in
 (gbind (go_deref t_50) (fun t_52 =>
 (gbind (go_deref a) (fun t_53 =>
 (let a := (Some (set_assembler_metrics t_53 (Some t_52))) in
 (GOk (a, ErrNil))))))))))))
 else (gbind (go_deref a) (fun t_54 =>
 (if (assembler_open t_54)
 then (gbind (block_blockNumber blk) (fun t_55 =>
 (gbind (go_deref a) (fun t_56 =>
 (gbind (if (Z.eqb t_55 (assembler_expected t_56)) then (gbind (block_messageHeader blk) (fun t_57 =>
 (gbind (go_deref a) (fun t_58 =>
 (GOk (eqb_messageHeader t_57 (assembler_header t_58))))))) else GOk false) (fun t_59 =>
 (if t_59
 then (gbind (assembler_appendBlock a blk) (fun t_60 =>
 (let '(t_61, t_62) := t_60 in
 (gbind (go_deref t_61) (fun t_63 =>
 (let a := (Some t_63) in
 (GOk (a, t_62))))))))
 else (gbind (go_deref a) (fun t_64 =>
 (gbind (block_blockNumber blk) (fun t_65 =>
 (gbind (go_deref a) (fun t_66 =>
 (gbind (ConnectionMetrics_incBlockNumberMismatchCount (assembler_metrics t_66)) (fun t_67 =>
 (let '(t_68, t_69) := t_67 in
 (gbind (go_deref t_68) (fun t_70 =>
 (gbind (go_deref a) (fun t_71 =>
 (let a := (Some (set_assembler_metrics t_71 (Some t_70))) in
 (let violation := (ErrIs "ErrHeaderMismatch"%string) in
 (gbind (block_blockNumber blk) (fun t_72 =>
 (gbind (go_deref a) (fun t_73 =>
 (gbind (if (negb (Z.eqb t_72 (assembler_expected t_73)))
 then (let violation := (ErrIs "ErrBlockNumberMismatch"%string) in
 (GOk violation))
 else (GOk violation)) (fun violation =>
 (gbind (assembler_report a violation (block_header blk)) (fun t_74 =>
 (let '(t_75, t_76) := t_74 in
 (gbind (go_deref t_75) (fun t_77 =>
 (let a := (Some t_77) in
 (gbind (assembler_reset a) (fun t_78 =>
 (let '(t_79, t_80) := t_78 in
 (gbind (go_deref t_79) (fun t_81 =>
 (let a := (Some t_81) in
 (gbind (assembler_startMessage a blk false) (fun t_82 =>
 (let '(t_83, t_84) := t_82 in
 (gbind (go_deref t_83) (fun t_85 =>
 (let a := (Some t_85) in
 (GOk (a, t_84))))))))))))))))))))))))))))))))))))))))))))))))
 else (gbind (assembler_beginMessage a blk) (fun t_86 =>
 (let '(t_87, t_88) := t_86 in
 (gbind (go_deref t_87) (fun t_89 =>
 (let a := (Some t_89) in
 (GOk (a, t_88)))))))))))))))).

Lemma bridge_core g st1 b : env_ok g -> grows_ok st1 b ->
  let r := accept_core st1 (ev_of g b) in
  accept_core_go (Some (st_put g st1)) (gblk b) =
  GOk (Some (outs (st_put g (fst r)) (snd r)), ret_of g (snd r)).
Proof.
  intros He Hg r. subst r.
  assert (Hb : wf_blk b) by (destruct Hg as (Hw & _); apply Forall_app in Hw; destruct Hw as [_ Hw]; exact (Forall_inv Hw)).
  pose proof (blocks_ok_single st1 b Hg) as Hg1.
  set (e := ev_of g b).
  unfold accept_core_go, accept_core. change (e_hdr e) with (b_hdr b). asm_simpl.
  match goal with
  | |- context [gbind (if a_have_last st1 then ?x else GOk false) ?k] =>
      replace (gbind (if a_have_last st1 then x else GOk false) k)
        with (k (a_have_last st1 && Block.list_eqb (b_hdr b) (a_last_hdr st1)))
        by (destruct (a_have_last st1); asm_simpl; rewrite ?list_eqb_same; reflexivity)
  end.
  cbv beta.
  destruct (a_have_last st1 && Block.list_eqb (b_hdr b) (a_last_hdr st1)) eqn:D.
  { asm_simpl. open_env g He. reflexivity. }
  asm_simpl. destruct (a_open st1) eqn:O.
  - rewrite bridge_block_blockNumber by exact Hb. asm_simpl.
    match goal with
    | |- context [gbind (if Z.eqb (hdr_num (b_hdr b)) (a_expected st1) then ?x else GOk false) ?k] =>
        replace (gbind (if Z.eqb (hdr_num (b_hdr b)) (a_expected st1) then x else GOk false) k)
          with (k ((hdr_num (b_hdr b) =? a_expected st1) && mheader_eqb (msg_header (b_hdr b)) (a_hdr st1)))
    end.
    2:{ destruct (hdr_num (b_hdr b) =? a_expected st1) eqn:C.
        - replace (Z.eqb (hdr_num (b_hdr b)) (a_expected st1)) with true.
          rewrite bridge_block_messageHeader by exact Hb. asm_simpl. rewrite bridge_eqb_messageHeader. reflexivity.
        - replace (Z.eqb (hdr_num (b_hdr b)) (a_expected st1)) with false. reflexivity. }
    cbv beta.
    destruct ((hdr_num (b_hdr b) =? a_expected st1) && mheader_eqb (msg_header (b_hdr b)) (a_hdr st1)) eqn:M.
    + rewrite (bridge_appendBlock g st1 b He Hg). asm_simpl. reflexivity.
    + (* unexpected block: count, report, reset, re-evaluate as a first block *)
      rewrite ?bridge_block_blockNumber by exact Hb. asm_simpl.
      set (v := if negb (hdr_num (b_hdr b) =? a_expected st1) then VNumber else VHeader).
      set (g1 := out1 (out1 g (OCount CNumberMismatch)) (OViol v (b_hdr b))).
      assert (He1 : env_ok g1) by (subst g1; apply env_ok_out1, env_ok_out1, He).
      pose proof (bridge_startMessage g1 (reset st1) b false He1 Hg1) as SM. cbv zeta in SM.
      assert (EV : ev_of g1 b = e) by (unfold g1; rewrite !ev_of_out1; reflexivity).
      rewrite EV in SM.
      destruct (start_message (reset st1) e false) as [st2 o2] eqn:ES. cbn [fst snd] in SM |- *.
      asm_simpl.
      transitivity (gbind (assembler_startMessage (Some (st_put g1 (reset st1))) (gblk b) false)
                      (fun '(t_83, t_84) => gbind (go_deref t_83) (fun t_85 => GOk (Some t_85, t_84)))).
      * clear SM EV He1. subst e. open_env g He. cbn [assembler_metrics].
        rewrite (proj1 (proj2 (proj2 (proj2 (proj2 (bridge_inc m)))))). cbn [gbind go_deref].
        match goal with
        | |- context [assembler_report (Some ?x) _ _] =>
            change x with (st_put (out1 (mk_assembler g_eq g_dev true g_now g_tm (Some m) g_nf g_o g_h g_b g_x g_t g_lh g_hl g_dl g_dr g_nl)
                                        (OCount CNumberMismatch)) st1)
        end.
        subst g1 v.
        destruct (negb (hdr_num (b_hdr b) =? a_expected st1)); cbn [gbind].
        -- rewrite (bridge_report _ st1 VNumber (b_hdr b)). cbn [gbind go_deref].
           rewrite bridge_reset. cbn [gbind go_deref]. reflexivity.
        -- rewrite (bridge_report _ st1 VHeader (b_hdr b)). cbn [gbind go_deref].
           rewrite bridge_reset. cbn [gbind go_deref]. reflexivity.
      * rewrite SM. cbn [gbind go_deref].
        rewrite (ret_of_app_nodeliver g [OCount CNumberMismatch; OViol v (b_hdr b)] o2)
          by (intros o [<-|[<-|[]]]; exact I).
        unfold outs. rewrite fold_left_app. cbn [fold_left].
        unfold g1. rewrite !st_put_out1, !ret_of_out1. reflexivity.
  - (* no open message: a fresh first block *)
    unfold assembler_beginMessage.
    rewrite (bridge_startMessage g st1 b true He Hg1). asm_simpl. reflexivity.
Qed.

Lemma bridge_accept g st b : env_ok g -> grows_ok st b -> time_ok g st ->
  let r := Assembler.accept (cfg_of g) st (ev_of g b) in
  assembler_accept (Some (st_put g st)) (gblk b) =
  GOk (Some (outs (st_put g (fst r)) (snd r)), ret_of g (snd r)).
Proof.
  intros He Hg Ht r. subst r.
  assert (Hb : wf_blk b) by (destruct Hg as (Hw & _); apply Forall_app in Hw; destruct Hw as [_ Hw]; exact (Forall_inv Hw)).
  pose proof (blocks_ok_single st b Hg) as Hg1.
  set (e := ev_of g b).
  unfold assembler_accept, Assembler.accept, cfg_of. cbn [c_dev c_equip].
  change (e_hdr e) with (b_hdr b). change (e_time e) with (assembler_now g).
  change (e_t4 e) with (hsms.TimerConfig_T4 (assembler_timers g)).
  rewrite !bridge_block_deviceID, !bridge_block_rBit, ?bridge_block_stream, ?bridge_block_function by exact Hb.
  asm_simpl.
  destruct (negb (hdr_dev (b_hdr b) =? assembler_deviceID g)) eqn:C1.
  { replace (negb (Z.eqb (hdr_dev (b_hdr b)) (assembler_deviceID g))) with true.
    asm_simpl. open_env g He. cbn [snd fst]. destruct g_nf; reflexivity. }
  replace (negb (Z.eqb (hdr_dev (b_hdr b)) (assembler_deviceID g))) with false.
  destruct (Bool.eqb (hdr_rbit (b_hdr b)) (assembler_isEquip g)) eqn:C2.
  { asm_simpl. open_env g He. reflexivity. }
  asm_simpl.
  set (timed_out := a_open st && (assembler_now g - a_last_time st >? hsms.TimerConfig_T4 (assembler_timers g))).
  match goal with
  | |- context [gbind (if a_open st then ?x else GOk false) ?k] =>
      replace (gbind (if a_open st then x else GOk false) k) with (k timed_out)
  end.
  2:{ subst timed_out. destruct (a_open st); [|reflexivity]. asm_simpl.
      unfold time_ok in Ht. rewrite wrapS64_ok by lia. reflexivity. }
  cbv beta.
  match goal with
  | |- gbind ?X ?K = _ => change K with (fun a => accept_core_go a (gblk b))
  end.
  destruct timed_out eqn:T.
  - (* the open partial message is stale: count, reset, then steps 3-5 on the reset state *)
    set (g1 := out1 g (OCount CPartialTimeout)).
    assert (He1 : env_ok g1) by (apply env_ok_out1, He).
    assert (Hg' : grows_ok (reset st) b) by exact Hg1.
    pose proof (bridge_core g1 (reset st) b He1 Hg') as CO. cbv zeta in CO.
    assert (EV : ev_of g1 b = e) by (unfold g1; rewrite ev_of_out1; reflexivity).
    rewrite EV in CO.
    destruct (accept_core (reset st) e) as [st2 o2] eqn:EC. cbn [fst snd] in CO |- *.
    transitivity (accept_core_go (Some (st_put g1 (reset st))) (gblk b)).
    + clear CO EV He1. subst e g1. open_env g He. cbn [assembler_metrics].
      rewrite (proj1 (proj2 (proj2 (bridge_inc m)))). cbn [gbind go_deref].
      match goal with
      | |- context [assembler_reset (Some ?x)] =>
          change x with (st_put (out1 (mk_assembler g_eq g_dev true g_now g_tm (Some m) g_nf g_o g_h g_b g_x g_t g_lh g_hl g_dl g_dr g_nl)
                                      (OCount CPartialTimeout)) st)
      end.
      rewrite bridge_reset. cbn [gbind go_deref]. reflexivity.
    + rewrite CO.
      rewrite (ret_of_app_nodeliver g [OCount CPartialTimeout] o2) by (intros o [<-|[]]; exact I).
      unfold outs. rewrite fold_left_app. cbn [fold_left].
      unfold g1. rewrite !st_put_out1, !ret_of_out1. reflexivity.
  - cbn [gbind]. rewrite (bridge_core g st b He Hg). fold e.
    destruct (accept_core st e) as [st2 o2]. reflexivity.
Qed.
