(** Bridge (translator v2): the SECS-II numeric leaf decoders REGENERATED from secs2/decode.go into
    [Gen/Gen2.v] — [decodeUintItem], [decodeIntItem] (and [baseItem.setRaw]) — equal [decode_num] of
    Secs2/Decode.v on EVERY owned buffer and position: same error class (not a multiple of the
    element width / truncated payload), same values (scalar fast path and slice path), new
    position [pos + length], raw bytes [owned[startPos:pos+length]] retained; and NO PANIC on any
    byte slice (every index, slice bound, [BigEndian.UintNN] and [make] is in range). *)
From Coq Require Import String.
From Coq Require Import ZArith Bool List Lia ZifyBool.
From GoSecs Require Import Base.GoInt Base.BytesBE Base.GoSlice Gen.Gen2 Secs2.Item Secs2.Decode.
Import ListNotations.
Open Scope Z_scope.
Import Gen2.secs2.

(** ** raw bytes *)
Definition raw_base (raw : list Z) : baseItem := mk_baseItem ErrNil (go_slice_data raw) (go_len raw).

Lemma setRaw_spec raw :
  baseItem_setRaw (Some (mk_baseItem ErrNil None 0)) raw = GOk (Some (raw_base raw), tt).
Proof.
  unfold baseItem_setRaw, raw_base. destruct raw as [|x raw]; [reflexivity|].
  replace (Z.eqb (go_len (x :: raw)) 0) with false by (unfold go_len; cbn [length]; lia).
  reflexivity.
Qed.

(** ** list facts *)
Lemma skipn_length_z (l : list Z) n : 0 <= n <= go_len l -> go_len (skipn (Z.to_nat n) l) = go_len l - n.
Proof. intros. unfold go_len in *. rewrite skipn_length. lia. Qed.

Lemma firstn1_skipn (l : list Z) n : (n < length l)%nat -> firstn 1 (skipn n l) = [nth n l 0].
Proof.
  revert l. induction n as [|n IH]; intros l H; destruct l as [|x l]; cbn [length] in H; try lia.
  - reflexivity.
  - cbn [skipn nth]. apply IH. lia.
Qed.

Lemma skipn_skipn' {A} (a b : nat) (l : list A) : skipn a (skipn b l) = skipn (b + a) l.
Proof.
  revert l. induction b as [|b IH]; intros l; [reflexivity|].
  destruct l as [|x l]; [destruct a; reflexivity|]. cbn [skipn Nat.add]. apply IH.
Qed.

(** the [i]-th [w]-byte element of [owned] counted from [pos] *)
Definition elem (owned : list Z) (pos : Z) (w : nat) (i : nat) : Z :=
  be_dec (firstn w (skipn (Z.to_nat pos + i * w) owned)).

Lemma elems_spec w : (1 <= w)%nat -> forall c p fuel, length p = (c * w)%nat -> (c <= fuel)%nat ->
  elems fuel w p = map (fun i => be_dec (firstn w (skipn (i * w) p))) (seq 0 c).
Proof.
  intros Hw. induction c as [|c IH]; intros p fuel Hp Hf.
  - destruct p; [|cbn in Hp; lia]. destruct fuel; reflexivity.
  - destruct fuel as [|f]; [lia|]. destruct p as [|x p]; [cbn in Hp; lia|].
    cbn [elems]. cbn [seq map]. f_equal.
    rewrite <- seq_shift, map_map.
    rewrite (IH (skipn w (x :: p)) f) by (rewrite ?skipn_length; lia).
    apply map_ext. intros i. rewrite skipn_skipn'. do 3 f_equal; lia.
Qed.

Lemma bytes_ok_firstn n (l : list Z) : bytes_ok l -> bytes_ok (firstn n l).
Proof.
  unfold bytes_ok. revert l. induction n as [|n IH]; intros l H; [constructor|].
  destruct l as [|x l]; [constructor|]. cbn [firstn]. constructor; [exact (Forall_inv H)|].
  apply IH. exact (Forall_inv_tail H).
Qed.

Lemma bytes_ok_skipn n (l : list Z) : bytes_ok l -> bytes_ok (skipn n l).
Proof.
  unfold bytes_ok. revert l. induction n as [|n IH]; intros l H; [exact H|].
  destruct l as [|x l]; [constructor|]. cbn [skipn]. apply IH. exact (Forall_inv_tail H).
Qed.

Lemma elem_range owned pos w i : bytes_ok owned -> (w <= 8)%nat -> 0 <= elem owned pos w i < 2 ^ 64.
Proof.
  intros Hb Hw. unfold elem.
  pose proof (be_dec_range (firstn w (skipn (Z.to_nat pos + i * w) owned))
                (bytes_ok_firstn _ _ (bytes_ok_skipn _ _ Hb))) as R.
  assert (L : (length (firstn w (skipn (Z.to_nat pos + i * w) owned)) <= 8)%nat) by (rewrite firstn_length; lia).
  assert (P : pow256 (length (firstn w (skipn (Z.to_nat pos + i * w) owned))) <= 2 ^ 64).
  { unfold pow256. change (2 ^ 64) with (256 ^ 8). apply Z.pow_le_mono_r; lia. }
  lia.
Qed.

Lemma elem_range_w owned pos w i : bytes_ok owned ->
  0 <= elem owned pos w i < pow256 w.
Proof.
  intros Hb. unfold elem.
  pose proof (be_dec_range (firstn w (skipn (Z.to_nat pos + i * w) owned))
                (bytes_ok_firstn _ _ (bytes_ok_skipn _ _ Hb))) as R.
  assert (P : pow256 (length (firstn w (skipn (Z.to_nat pos + i * w) owned))) <= pow256 w).
  { unfold pow256. apply Z.pow_le_mono_r; [lia|]. rewrite firstn_length. lia. }
  lia.
Qed.

(** reading one element as the Go code does: [BigEndian.UintNN(owned[start:])] *)
Lemma read_be owned pos (w i : nat) : 0 <= pos ->
  pos + Z.of_nat (i * w) + Z.of_nat w <= go_len owned ->
  gbind (go_slice owned (pos + Z.of_nat (i * w)) (go_len owned)) (fun t => be_get w t) =
  GOk (elem owned pos w i).
Proof.
  intros Hp H. pose proof (go_len_nonneg owned).
  rewrite go_slice_ok by lia. cbn [gbind]. rewrite sub_from by lia.
  rewrite be_get_ok by (rewrite skipn_length_z; lia).
  unfold elem. do 4 f_equal; lia.
Qed.

(** [owned[start]] for a one-byte element *)
Lemma read_byte owned pos (i : nat) : 0 <= pos -> pos + Z.of_nat i + 1 <= go_len owned ->
  go_index owned (pos + Z.of_nat (i * 1)) = GOk (elem owned pos 1 i).
Proof.
  intros Hp H. rewrite Nat.mul_1_r. rewrite go_index_ok by lia. unfold elem.
  rewrite Nat.mul_1_r. replace (Z.to_nat pos + i)%nat with (Z.to_nat (pos + Z.of_nat i)) by lia.
  rewrite firstn1_skipn by (unfold go_len in H; lia). rewrite be_dec_1. reflexivity.
Qed.

Lemma read_be_k {B : Type} owned pos (w i : nat) s (K : Z -> gres B) : 0 <= pos ->
  s = pos + Z.of_nat (i * w) -> s + Z.of_nat w <= go_len owned ->
  gbind (go_slice owned s (go_len owned)) (fun t => gbind (be_get w t) K) = K (elem owned pos w i).
Proof.
  intros Hp -> H. pose proof (read_be owned pos w i Hp H) as R.
  pose proof (go_len_nonneg owned). rewrite go_slice_ok in * by lia. cbn [gbind] in *.
  destruct (be_get w (sub owned (pos + Z.of_nat (i * w)) (go_len owned))) as [v|]; [|discriminate].
  injection R as ->. reflexivity.
Qed.

Lemma read_byte_k {B : Type} owned pos (i : nat) s (K : Z -> gres B) : 0 <= pos ->
  s = pos + Z.of_nat i -> s + 1 <= go_len owned ->
  gbind (go_index owned s) K = K (elem owned pos 1 i).
Proof.
  intros Hp -> H. pose proof (read_byte owned pos i Hp H) as R. rewrite Nat.mul_1_r in R. rewrite R. reflexivity.
Qed.

(** the element of the payload [p = owned[pos:pos+len]] is the element of [owned] *)
Lemma elem_payload owned pos len w i : 0 <= pos -> (Z.of_nat ((i + 1) * w) <= len) ->
  be_dec (firstn w (skipn (i * w) (firstn (Z.to_nat len) (skipn (Z.to_nat pos) owned)))) = elem owned pos w i.
Proof.
  intros Hp H. unfold elem. f_equal. rewrite skipn_firstn_comm, firstn_firstn, skipn_skipn'.
  rewrite Nat.min_l by lia. do 2 f_equal; lia.
Qed.

(** ** filling [vals[i] = g i] for [i = 0 .. c-1] *)
Lemma splice_at (done rest : list Z) x y :
  splice (done ++ x :: rest) (Z.of_nat (length done)) [y] = done ++ y :: rest.
Proof.
  unfold splice. rewrite Nat2Z.id. rewrite firstn_app, firstn_all, Nat.sub_diag. cbn [firstn length].
  rewrite app_nil_r. f_equal. cbn [app]. f_equal.
  rewrite skipn_app, skipn_all2 by lia. replace (length done + 1 - length done)%nat with 1%nat by lia.
  reflexivity.
Qed.

Lemma set_at (done rest : list Z) x y :
  go_set (done ++ x :: rest) (Z.of_nat (length done)) y = GOk (done ++ y :: rest).
Proof.
  unfold go_set. replace ((0 <=? Z.of_nat (length done)) && (Z.of_nat (length done) <? go_len (done ++ x :: rest))) with true
    by (unfold go_len; rewrite app_length; cbn [length]; lia).
  rewrite splice_at. reflexivity.
Qed.

Lemma fill_loop {R : Type} (f : Z -> list Z -> gres (lctl (list Z) R)) (g : nat -> Z) (c : nat) :
  (forall i done rest, length done = i -> (i < c)%nat ->
     f (Z.of_nat i) (done ++ 0 :: rest) = GOk (LNext (done ++ g i :: rest))) ->
  count_loop f 0 (Z.of_nat c) (go_zeros (Z.of_nat c)) = GOk (LDone (map g (seq 0 c))).
Proof.
  intros Hf. unfold count_loop, go_zeros. rewrite Z.sub_0_r, Nat2Z.id.
  assert (G : forall n i done, length done = i -> (i + n = c)%nat ->
            count_loop_n f n (Z.of_nat i) (done ++ repeat 0 n) = GOk (LDone (done ++ map g (seq i n)))).
  { induction n as [|n IH]; intros i done Hd Hc; cbn [count_loop_n repeat seq map]; [reflexivity|].
    rewrite Hf by lia.
    replace (Z.of_nat i + 1) with (Z.of_nat (S i)) by lia.
    replace (done ++ g i :: repeat 0 n) with ((done ++ [g i]) ++ repeat 0 n) by (rewrite <- app_assoc; reflexivity).
    rewrite IH by (rewrite ?app_length; cbn [length]; lia). rewrite <- app_assoc. reflexivity. }
  exact (G c 0%nat [] eq_refl (Nat.add_0_l c)).
Qed.

Lemma split_at_firstn (bs : list Z) n : 0 <= n <= go_len bs ->
  split_at n bs = Some (firstn (Z.to_nat n) bs, skipn (Z.to_nat n) bs).
Proof.
  intros H. rewrite <- (firstn_skipn (Z.to_nat n) bs) at 1.
  replace n with (Z.of_nat (length (firstn (Z.to_nat n) bs))) at 1
    by (rewrite firstn_length; unfold go_len in H; lia).
  apply split_at_app.
Qed.

(** ** decodeUintItem *)
Definition uint_item_of (w : width) (us raw : list Z) : UintItem :=
  match us with
  | [v] => mk_UintItem 1 (wz w) v (raw_base raw) []
  | _ => mk_UintItem (zlen us) (wz w) 0 (raw_base raw) us
  end.

Definition err_multiple_u : string := "invalid payload length %d for U%d item: not a multiple of %d".
Definition err_end_u : string := "unexpected end of data: U%d needs %d bytes, have %d".

Definition uint_result (owned : list Z) (sp pos len : Z) (w : width) (r : res (item * list Z)) : Item * Z * goerror :=
  match r with
  | Err ErrMultiple => (Item_nil, pos, ErrNew err_multiple_u)
  | Err _ => (Item_nil, pos, ErrNew err_end_u)
  | Ok (IUint _ us, _) =>
      (Item_UintItem (Some (uint_item_of w us (sub owned sp (pos + len)))), pos + len, ErrNil)
  | Ok _ => (Item_nil, pos, ErrNil)
  end.

Lemma wz_wnat w : wz w = Z.of_nat (wnat w).
Proof. destruct w; reflexivity. Qed.

Lemma wrapS64_id x : - 2 ^ 63 <= x < 2 ^ 63 -> wrapS 64 x = x.
Proof. intros. apply wrapS_id; [lia|]. unfold inS. change (64 - 1) with 63. lia. Qed.

Lemma bridge_decodeUintItem owned sp pos w len slab :
  bytes_ok owned -> go_len owned < 2 ^ 62 -> 0 <= sp <= pos -> pos <= go_len owned -> 0 <= len < 2 ^ 31 ->
  decodeUintItem owned sp pos (wz w) len slab =
  GOk (uint_result owned sp pos len w (decode_num KUint w len (skipn (Z.to_nat pos) owned))).
Proof.
  intros Hb Hlo Hsp Hpos Hlen. unfold decodeUintItem, decode_num.
  assert (Wp : 1 <= wz w <= 8) by (destruct w; cbn; lia).
  unfold go_rem, go_quot. replace (wz w =? 0) with false by lia. cbn [gbind].
  unfold gorem, goquot. rewrite Z.rem_mod_nonneg, Z.quot_div_nonneg by lia.
  assert (M : 0 <= len mod wz w < wz w) by (apply Z.mod_pos_bound; lia).
  rewrite (wrapS64_id (len mod wz w)) by lia.
  destruct (negb (len mod wz w =? 0)) eqn:C1; [reflexivity|].
  rewrite (wrapS64_id (pos + len)) by lia.
  pose proof (skipn_length_z owned pos ltac:(lia)) as Lsk.
  destruct (pos + len >? go_len owned) eqn:C2.
  { rewrite split_at_short by (unfold go_len in *; lia). reflexivity. }
  rewrite split_at_firstn by lia. cbv zeta.
  set (p := firstn (Z.to_nat len) (skipn (Z.to_nat pos) owned)).
  assert (Lp : length p = Z.to_nat len) by (subst p; rewrite firstn_length; unfold go_len in *; lia).
  set (c := Z.to_nat (len / wz w)).
  assert (Dv : len = Z.of_nat c * wz w).
  { subst c. rewrite Z2Nat.id by (apply Z.div_pos; lia). pose proof (Z.div_mod len (wz w)). lia. }
  assert (Lpc : length p = (c * wnat w)%nat) by (rewrite Lp, Dv, wz_wnat; lia).
  unfold payload_elems. rewrite (elems_spec (wnat w) ltac:(destruct w; cbn; lia) c p (length p) Lpc)
    by (rewrite Lpc; destruct w; cbn [wnat]; nia).
  assert (Q : len / wz w = Z.of_nat c) by (subst c; rewrite Z2Nat.id by (apply Z.div_pos; lia); reflexivity).
  rewrite Q. rewrite (wrapS64_id (Z.of_nat c)) by nia.
  assert (Hraw : go_slice owned sp (pos + len) = GOk (sub owned sp (pos + len))) by (apply go_slice_ok; lia).
  assert (W32 : wrapU 32 (wz w) = wz w) by (unfold wrapU; apply Z.mod_small; change (2 ^ 32) with 4294967296; lia).
  assert (C32 : wrapS 32 (Z.of_nat c) = Z.of_nat c).
  { apply wrapS_id; [lia|]. unfold inS. change (32 - 1) with 31. nia. }
  assert (EP : forall i, (i < c)%nat ->
             be_dec (firstn (wnat w) (skipn (i * wnat w) p)) = elem owned pos (wnat w) i).
  { intros i Hi. subst p. apply elem_payload; [lia|]. rewrite Dv, wz_wnat. nia. }
  rewrite Hraw, W32, C32.
  destruct (Z.of_nat c =? 1) eqn:C3.
  - (* one element: the scalar fast path *)
    assert (c = 1%nat) as Hc1 by lia. rewrite Hc1 in *. cbn [seq map uint_result uint_item_of].
    rewrite EP by lia.
    assert (R64 : wrapU 64 (elem owned pos (wnat w) 0) = elem owned pos (wnat w) 0).
    { unfold wrapU. apply Z.mod_small. apply elem_range; [exact Hb|destruct w; cbn; lia]. }
    destruct w; cbn [wz wnat Z.eqb Pos.eqb] in *.
    + rewrite (read_byte_k owned pos 0 pos) by lia. rewrite R64. cbn [go_deref gbind].
      rewrite setRaw_spec. reflexivity.
    + rewrite (read_be_k owned pos 2 0 pos) by lia. rewrite R64. cbn [go_deref gbind].
      rewrite setRaw_spec. reflexivity.
    + rewrite (read_be_k owned pos 4 0 pos) by lia. rewrite R64. cbn [go_deref gbind].
      rewrite setRaw_spec. reflexivity.
    + rewrite (read_be_k owned pos 8 0 pos) by lia. cbn [go_deref gbind].
      rewrite setRaw_spec. reflexivity.
  - (* zero or several elements: the slice path *)
    rewrite go_make_ok by lia. cbn [gbind].
    erewrite (fill_loop _ (elem owned pos (wnat w)) c).
    2:{ intros i done rest Hd Hi. subst i. cbv beta.
        assert (B1 : Z.of_nat (length done) * wz w + wz w <= len) by (rewrite Dv; nia).
        rewrite (wrapS64_id (Z.of_nat (length done) * wz w)) by nia.
        rewrite (wrapS64_id (pos + Z.of_nat (length done) * wz w)) by nia.
        assert (R64 : wrapU 64 (elem owned pos (wnat w) (length done)) = elem owned pos (wnat w) (length done)).
        { unfold wrapU. apply Z.mod_small. apply elem_range; [exact Hb|destruct w; cbn; lia]. }
        destruct w; cbn [wz wnat Z.eqb Pos.eqb] in *.
        + rewrite (read_byte_k owned pos (length done)) by lia. rewrite R64, set_at. reflexivity.
        + rewrite (read_be_k owned pos 2 (length done)) by lia. rewrite R64, set_at. reflexivity.
        + rewrite (read_be_k owned pos 4 (length done)) by lia. rewrite R64, set_at. reflexivity.
        + rewrite (read_be_k owned pos 8 (length done)) by lia. rewrite set_at. reflexivity. }
    cbn [loop_k go_deref gbind]. rewrite setRaw_spec. cbn [gbind go_deref uint_result].
    rewrite (map_ext_in (fun i => be_dec (firstn (wnat w) (skipn (i * wnat w) p))) (elem owned pos (wnat w)) (seq 0 c))
      by (intros i Hi; apply in_seq in Hi; apply EP; lia).
    assert (ZL : zlen (map (elem owned pos (wnat w)) (seq 0 c)) = Z.of_nat c)
      by (unfold zlen; rewrite map_length, seq_length; reflexivity).
    unfold uint_item_of. rewrite ZL.
    destruct c as [|[|c']]; [reflexivity|lia|reflexivity].
Qed.

(** ** decodeIntItem: the same walk; each element is sign-extended ([int64(intN(...))] = [to_signed]) *)
Lemma sval1 x : 0 <= x < 256 -> wrapS 64 (wrapS 8 x) = to_signed 256 x.
Proof.
  intros H. unfold to_signed. change (256 / 2) with 128.
  assert (E : wrapS 8 x = if x <? 128 then x else x - 256).
  { unfold wrapS. cbv zeta. change (2 ^ 8) with 256. change (2 ^ (8 - 1)) with 128. rewrite Z.mod_small by lia. reflexivity. }
  rewrite E. apply wrapS64_id. destruct (x <? 128); lia.
Qed.
Lemma sval2 x : 0 <= x < 65536 -> wrapS 64 (wrapS 16 x) = to_signed 65536 x.
Proof.
  intros H. unfold to_signed. change (65536 / 2) with 32768.
  assert (E : wrapS 16 x = if x <? 32768 then x else x - 65536).
  { unfold wrapS. cbv zeta. change (2 ^ 16) with 65536. change (2 ^ (16 - 1)) with 32768. rewrite Z.mod_small by lia. reflexivity. }
  rewrite E. apply wrapS64_id. destruct (x <? 32768); lia.
Qed.
Lemma sval4 x : 0 <= x < 4294967296 -> wrapS 64 (wrapS 32 x) = to_signed 4294967296 x.
Proof.
  intros H. unfold to_signed. change (4294967296 / 2) with 2147483648.
  assert (E : wrapS 32 x = if x <? 2147483648 then x else x - 4294967296).
  { unfold wrapS. cbv zeta. change (2 ^ 32) with 4294967296. change (2 ^ (32 - 1)) with 2147483648. rewrite Z.mod_small by lia. reflexivity. }
  rewrite E. apply wrapS64_id. destruct (x <? 2147483648); lia.
Qed.
Lemma sval8 x : 0 <= x < 18446744073709551616 -> wrapS 64 x = to_signed 18446744073709551616 x.
Proof.
  intros H. unfold to_signed, wrapS. cbv zeta. change (2 ^ 64) with 18446744073709551616.
  change (2 ^ (64 - 1)) with 9223372036854775808. change (18446744073709551616 / 2) with 9223372036854775808.
  rewrite Z.mod_small by lia. reflexivity.
Qed.

Definition int_item_of (w : width) (vs raw : list Z) : IntItem :=
  match vs with
  | [v] => mk_IntItem 1 (wz w) v (raw_base raw) []
  | _ => mk_IntItem (zlen vs) (wz w) 0 (raw_base raw) vs
  end.

Definition err_multiple_i : string := "invalid payload length %d for I%d item: not a multiple of %d".
Definition err_end_i : string := "unexpected end of data: I%d needs %d bytes, have %d".

Definition int_result (owned : list Z) (sp pos len : Z) (w : width) (r : res (item * list Z)) : Item * Z * goerror :=
  match r with
  | Err ErrMultiple => (Item_nil, pos, ErrNew err_multiple_i)
  | Err _ => (Item_nil, pos, ErrNew err_end_i)
  | Ok (IInt _ vs, _) =>
      (Item_IntItem (Some (int_item_of w vs (sub owned sp (pos + len)))), pos + len, ErrNil)
  | Ok _ => (Item_nil, pos, ErrNil)
  end.

Definition selem (owned : list Z) (pos : Z) (w : width) (i : nat) : Z :=
  to_signed (wmod w) (elem owned pos (wnat w) i).

Lemma bridge_decodeIntItem owned sp pos w len slab :
  bytes_ok owned -> go_len owned < 2 ^ 62 -> 0 <= sp <= pos -> pos <= go_len owned -> 0 <= len < 2 ^ 31 ->
  decodeIntItem owned sp pos (wz w) len slab =
  GOk (int_result owned sp pos len w (decode_num KInt w len (skipn (Z.to_nat pos) owned))).
Proof.
  intros Hb Hlo Hsp Hpos Hlen. unfold decodeIntItem, decode_num.
  assert (Wp : 1 <= wz w <= 8) by (destruct w; cbn; lia).
  unfold go_rem, go_quot. replace (wz w =? 0) with false by lia. cbn [gbind].
  unfold gorem, goquot. rewrite Z.rem_mod_nonneg, Z.quot_div_nonneg by lia.
  assert (M : 0 <= len mod wz w < wz w) by (apply Z.mod_pos_bound; lia).
  rewrite (wrapS64_id (len mod wz w)) by lia.
  destruct (negb (len mod wz w =? 0)) eqn:C1; [reflexivity|].
  rewrite (wrapS64_id (pos + len)) by lia.
  pose proof (skipn_length_z owned pos ltac:(lia)) as Lsk.
  destruct (pos + len >? go_len owned) eqn:C2.
  { rewrite split_at_short by (unfold go_len in *; lia). reflexivity. }
  rewrite split_at_firstn by lia. cbv zeta.
  set (p := firstn (Z.to_nat len) (skipn (Z.to_nat pos) owned)).
  assert (Lp : length p = Z.to_nat len) by (subst p; rewrite firstn_length; unfold go_len in *; lia).
  set (c := Z.to_nat (len / wz w)).
  assert (Dv : len = Z.of_nat c * wz w).
  { subst c. rewrite Z2Nat.id by (apply Z.div_pos; lia). pose proof (Z.div_mod len (wz w)). lia. }
  assert (Lpc : length p = (c * wnat w)%nat) by (rewrite Lp, Dv, wz_wnat; lia).
  unfold payload_elems. rewrite (elems_spec (wnat w) ltac:(destruct w; cbn; lia) c p (length p) Lpc)
    by (rewrite Lpc; destruct w; cbn [wnat]; nia).
  assert (Q : len / wz w = Z.of_nat c) by (subst c; rewrite Z2Nat.id by (apply Z.div_pos; lia); reflexivity).
  rewrite Q. rewrite (wrapS64_id (Z.of_nat c)) by nia.
  assert (Hraw : go_slice owned sp (pos + len) = GOk (sub owned sp (pos + len))) by (apply go_slice_ok; lia).
  assert (W32 : wrapU 32 (wz w) = wz w) by (unfold wrapU; apply Z.mod_small; change (2 ^ 32) with 4294967296; lia).
  assert (C32 : wrapS 32 (Z.of_nat c) = Z.of_nat c).
  { apply wrapS_id; [lia|]. unfold inS. change (32 - 1) with 31. nia. }
  assert (EP : forall i, (i < c)%nat ->
             be_dec (firstn (wnat w) (skipn (i * wnat w) p)) = elem owned pos (wnat w) i).
  { intros i Hi. subst p. apply elem_payload; [lia|]. rewrite Dv, wz_wnat. nia. }
  rewrite Hraw, W32, C32.
  destruct (Z.of_nat c =? 1) eqn:C3.
  - (* one element: the scalar fast path *)
    assert (c = 1%nat) as Hc1 by lia. rewrite Hc1 in *. cbn [seq map int_result int_item_of].
    rewrite EP by lia.
    pose proof (elem_range_w owned pos (wnat w) 0 Hb) as RW.
    destruct w; cbn [wz wnat Z.eqb Pos.eqb] in *.
    + rewrite (read_byte_k owned pos 0 pos) by lia. rewrite sval1 by exact RW. cbn [go_deref gbind].
      rewrite setRaw_spec. reflexivity.
    + rewrite (read_be_k owned pos 2 0 pos) by lia. rewrite sval2 by exact RW. cbn [go_deref gbind].
      rewrite setRaw_spec. reflexivity.
    + rewrite (read_be_k owned pos 4 0 pos) by lia. rewrite sval4 by exact RW. cbn [go_deref gbind].
      rewrite setRaw_spec. reflexivity.
    + rewrite (read_be_k owned pos 8 0 pos) by lia. rewrite sval8 by exact RW. cbn [go_deref gbind].
      rewrite setRaw_spec. reflexivity.
  - (* zero or several elements: the slice path *)
    rewrite go_make_ok by lia. cbn [gbind].
    erewrite (fill_loop _ (selem owned pos w) c).
    2:{ intros i done rest Hd Hi. subst i. cbv beta.
        assert (B1 : Z.of_nat (length done) * wz w + wz w <= len) by (rewrite Dv; nia).
        rewrite (wrapS64_id (Z.of_nat (length done) * wz w)) by nia.
        rewrite (wrapS64_id (pos + Z.of_nat (length done) * wz w)) by nia.
        pose proof (elem_range_w owned pos (wnat w) (length done) Hb) as RW. unfold selem.
        destruct w; cbn [wz wnat Z.eqb Pos.eqb] in *.
        + rewrite (read_byte_k owned pos (length done)) by lia. rewrite sval1 by exact RW. rewrite set_at. reflexivity.
        + rewrite (read_be_k owned pos 2 (length done)) by lia. rewrite sval2 by exact RW. rewrite set_at. reflexivity.
        + rewrite (read_be_k owned pos 4 (length done)) by lia. rewrite sval4 by exact RW. rewrite set_at. reflexivity.
        + rewrite (read_be_k owned pos 8 (length done)) by lia. rewrite sval8 by exact RW. rewrite set_at. reflexivity. }
    cbn [loop_k go_deref gbind]. rewrite setRaw_spec. cbn [gbind go_deref int_result].
    rewrite (map_ext_in (fun i => be_dec (firstn (wnat w) (skipn (i * wnat w) p))) (elem owned pos (wnat w)) (seq 0 c))
      by (intros i Hi; apply in_seq in Hi; apply EP; lia).
    rewrite map_map. fold (selem owned pos w).
    assert (ZL : zlen (map (selem owned pos w) (seq 0 c)) = Z.of_nat c)
      by (unfold zlen; rewrite map_length, seq_length; reflexivity).
    unfold int_item_of. rewrite ZL.
    destruct c as [|[|c']]; [reflexivity|lia|reflexivity].
Qed.
