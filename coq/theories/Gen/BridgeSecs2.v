(** Bridge for the SECS-II codec: the constants and pure functions REGENERATED from the current
    Go source ([Gen.v]) equal the ones the model (Secs2/Item.v, Encode.v, Decode.v) is written
    with. A changed format code, size cap, depth cap or [headerLen] stops this file compiling. *)
From Coq Require Import ZArith Bool List Lia.
From GoSecs Require Import Base.GoInt Gen.Gen Base.BytesBE Secs2.Item Secs2.Encode Secs2.DecodeCost Secs2.Slab.
Import ListNotations.
Open Scope Z_scope.

Lemma bridge_format_codes :
  Gen.secs2.ListFormatCode = fc_list /\
  Gen.secs2.BinaryFormatCode = fc_binary /\
  Gen.secs2.BooleanFormatCode = fc_boolean /\
  Gen.secs2.ASCIIFormatCode = fc_ascii /\
  Gen.secs2.JIS8FormatCode = fc_jis8 /\
  Gen.secs2.LocalizedStrFormatCode = fc_localized /\
  Gen.secs2.Int8FormatCode = fc_int W1 /\
  Gen.secs2.Int16FormatCode = fc_int W2 /\
  Gen.secs2.Int32FormatCode = fc_int W4 /\
  Gen.secs2.Int64FormatCode = fc_int W8 /\
  Gen.secs2.Uint8FormatCode = fc_uint W1 /\
  Gen.secs2.Uint16FormatCode = fc_uint W2 /\
  Gen.secs2.Uint32FormatCode = fc_uint W4 /\
  Gen.secs2.Uint64FormatCode = fc_uint W8 /\
  Gen.secs2.Float32FormatCode = fc_float W4 /\
  Gen.secs2.Float64FormatCode = fc_float W8.
Proof. repeat split; reflexivity. Qed.

Lemma bridge_limits :
  Gen.secs2.MaxByteSize = max_size /\ Gen.secs2.MaxListDepth = max_depth.
Proof. split; reflexivity. Qed.

Lemma bridge_headerLen n : Gen.secs2.headerLen n = header_len n.
Proof. reflexivity. Qed.

Lemma bridge_slabChunkSizes : Gen.secs2.slabChunkSizes = [1; 4; 16; 64; 128].
Proof. reflexivity. Qed.

(** The slab schedule of the current source: non-empty, every chunk >= 1 struct (so [next] never
    indexes an empty chunk), and its largest chunk times the largest slabbed struct (72 bytes)
    times the 8 slabs is the constant the allocation accounting uses. *)
Lemma bridge_slab_schedule :
  (Gen.secs2.slabChunkSizes <> []) /\
  (Forall (fun c => 1 <= c) Gen.secs2.slabChunkSizes) /\
  (8 * max_chunk Gen.secs2.slabChunkSizes * 72 = slab_tail).
Proof. split; [discriminate|]. split; [repeat constructor; lia|reflexivity]. Qed.
