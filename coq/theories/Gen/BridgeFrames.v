(** Bridge for C03/C04: the SType table, [IsValidSType], the stream bound and the frame cap the
    frame models rely on are the ones REGENERATED from the current Go source ([Gen.v]). A change
    of any of these constants or of [IsValidSType] stops this file from compiling. *)
From Coq Require Import ZArith Bool List Lia ZifyBool.
From GoSecs Require Import Base.GoInt Gen.Gen Hsms.Header Hsms.HeaderProofs Hsms.Frame Hsms.FrameProofs.
Import ListNotations.
Open Scope Z_scope.

(** hsms.IsValidSType (message.go) on every byte value *)
Lemma bridge_IsValidSType b : 0 <= b < 256 -> Gen.hsms.IsValidSType b = valid_stype b.
Proof.
  intros H. apply (sweep (fun b => Bool.eqb (Gen.hsms.IsValidSType b) (valid_stype b)) 256) in H.
  - apply Bool.eqb_prop. exact H.
  - vm_compute. reflexivity.
Qed.

(** the MsgType constants *)
Lemma bridge_stypes :
  Gen.hsms.DataMsgType = ST_DATA /\ Gen.hsms.SelectReqType = ST_SELECT_REQ /\
  Gen.hsms.SelectRspType = ST_SELECT_RSP /\ Gen.hsms.DeselectReqType = ST_DESELECT_REQ /\
  Gen.hsms.DeselectRspType = ST_DESELECT_RSP /\ Gen.hsms.LinktestReqType = ST_LINKTEST_REQ /\
  Gen.hsms.LinktestRspType = ST_LINKTEST_RSP /\ Gen.hsms.RejectReqType = ST_REJECT_REQ /\
  Gen.hsms.SeparateReqType = ST_SEPARATE_REQ /\ Gen.hsms.UndefinedMsgType = ST_UNDEFINED.
Proof. repeat split; reflexivity. Qed.

Lemma bridge_misc :
  Gen.hsms.MaxStreamCode = MAX_STREAM /\
  Gen.hsms.RejectPTypeNotSupported = REJECT_PTYPE_NOT_SUPPORTED /\
  Gen.hsms.RejectSTypeNotSupported = 1 /\ Gen.hsms.RejectNotSelected = 4.
Proof. repeat split; reflexivity. Qed.

(** the frame cap: [maxHSMSMsgLen] (decode.go) and [secs2.MaxByteSize] (readFrame) are the same
    number, at least a header and below 2^31 (so the 4-byte length field can carry it, with room) *)
Definition frame_cap : Z := Gen.hsms.maxHSMSMsgLen.
Lemma bridge_cap :
  Gen.hsms.maxHSMSMsgLen = Gen.secs2.MaxByteSize /\ 10 <= frame_cap /\ frame_cap < 2147483648.
Proof. unfold frame_cap. repeat split; vm_compute; congruence. Qed.

(** the set [decodeOwnedFrame] switches on is the set [IsValidSType] accepts *)
Lemma bridge_decode_stypes st : 0 <= st < 256 ->
  ((st =? 0) || ((st =? 1) || (st =? 2) || (st =? 3) || (st =? 4) || (st =? 5) || (st =? 6) || (st =? 7) || (st =? 9)))
  = Gen.hsms.IsValidSType st.
Proof.
  intros H. rewrite bridge_IsValidSType by exact H. unfold valid_stype. destruct (st =? 0); reflexivity.
Qed.

(** the round trip at the cap the source defines *)
Lemma roundtrip_at_cap m : wf_msg frame_cap m ->
  decode_message frame_cap (to_bytes m) = Ok (forget_reply m) /\ to_bytes (forget_reply m) = to_bytes m.
Proof. apply decode_to_bytes. pose proof bridge_cap. lia. Qed.

(** the size edge at the cap the source defines: a body of cap-9 bytes (<= MaxByteSize+4, the
    largest single-item encoding) is accepted by the constructor and refused by the decoder *)
Lemma roundtrip_unbounded_refuted : exists stream fn w sid sb it m,
  new_data_message stream fn w sid sb it = Ok m /\
  len (d_body m) <= Gen.secs2.MaxByteSize + 4 /\
  decode_message frame_cap (to_bytes (MData m)) = Err ELenBig.
Proof.
  exists 1, 1, false, 0, (0, 0, 0, 1), (ItemOk (repeat 0 (Z.to_nat (frame_cap - 9)))).
  eexists. split; [reflexivity|].
  assert (L : len (repeat 0 (Z.to_nat (frame_cap - 9))) = frame_cap - 9).
  { unfold len. rewrite repeat_length. pose proof bridge_cap. lia. }
  split.
  - cbn [d_body item_body]. rewrite L. pose proof bridge_cap as (E & _). unfold frame_cap. rewrite E. lia.
  - apply decode_to_bytes_oversize; cbn [d_body item_body]; rewrite ?L; pose proof bridge_cap; lia.
Qed.
