(** Bridge between the send-core model and the constants / pure functions regenerated from /repo
    on every check (Gen.v): the SType validity table, the control STypes the dispatcher switches on,
    the reject reasons and the select / deselect status values the model's frame builders use. *)
From Coq Require Import ZArith Bool List Lia.
From GoSecs Require Import Base.GoInt Gen.Gen Hsms.SendCore.
Import ListNotations.
Open Scope Z_scope.

Lemma bridge_valid_stype : forall b, 0 <= b < 256 -> Gen.hsms.IsValidSType b = valid_stype b.
Proof.
  intros b H.
  assert (A : forallb (fun n => Bool.eqb (Gen.hsms.IsValidSType (Z.of_nat n)) (valid_stype (Z.of_nat n))) (seq 0 256) = true)
    by (vm_compute; reflexivity).
  rewrite forallb_forall in A. specialize (A (Z.to_nat b)).
  rewrite Z2Nat.id in A by lia. apply eqb_prop. apply A. apply in_seq. lia.
Qed.

Lemma bridge_constants :
  Gen.hsms.DataMsgType = 0 /\ Gen.hsms.SelectReqType = 1 /\ Gen.hsms.SelectRspType = 2 /\
  Gen.hsms.DeselectReqType = 3 /\ Gen.hsms.DeselectRspType = 4 /\ Gen.hsms.LinktestReqType = 5 /\
  Gen.hsms.LinktestRspType = 6 /\ Gen.hsms.RejectReqType = 7 /\ Gen.hsms.SeparateReqType = 9 /\
  Gen.hsms.RejectSTypeNotSupported = 1 /\ Gen.hsms.RejectPTypeNotSupported = 2 /\
  Gen.hsms.RejectTransactionNotOpen = 3 /\ Gen.hsms.RejectNotSelected = 4 /\
  Gen.hsms.SelectStatusSuccess = 0 /\ Gen.hsms.SelectStatusAlreadyActive = 1 /\
  Gen.hsms.DeselectStatusSuccess = 0 /\ Gen.hsms.DeselectStatusNotEstablished = 1 /\
  Gen.hsms.NotConnectedState = 0 /\ Gen.hsms.NotSelectedState = 1 /\ Gen.hsms.SelectedState = 2.
Proof. repeat split; reflexivity. Qed.

(* the model's frame builders use exactly these values *)
Lemma bridge_builders : forall f,
  f_st (reject_not_selected f) = Gen.hsms.RejectReqType /\ f_b3 (reject_not_selected f) = Gen.hsms.RejectNotSelected /\
  f_b3 (reject_not_open f) = Gen.hsms.RejectTransactionNotOpen /\
  f_st (select_rsp f Gen.hsms.SelectStatusSuccess) = Gen.hsms.SelectRspType /\
  f_st (deselect_rsp f Gen.hsms.DeselectStatusSuccess) = Gen.hsms.DeselectRspType /\
  f_st (linktest_rsp f) = Gen.hsms.LinktestRspType.
Proof. intros f. repeat split; reflexivity. Qed.
