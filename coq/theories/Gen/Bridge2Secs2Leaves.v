(** Bridge (translator v2): the SECS-II leaf encoders REGENERATED from secs2/{binary,boolean,ascii,
    jis8,localized_str,int,uint}.go into [Gen/Gen2.v] — [AppendTo] of each item type — equal
    [append_to] of Secs2/Encode.v on constructed items (scalar fast path and slice path), append
    the raw bytes of a decoded item, and leave [dst] alone on an item with a deferred error.

    A Go item is the generated Record (embedded [baseItem] = deferred error + raw-bytes pointer and
    length). The relation between a Go item and the model's value list is explicit in each lemma:
    [size] is the count, a single value lives in [scalar], two or more in [values]. *)
From Coq Require Import String.
From Coq Require Import ZArith Bool List Lia ZifyBool.
From GoSecs Require Import Base.GoInt Base.BytesBE Base.GoSlice Gen.Gen2 Secs2.Item Secs2.Encode Gen.Bridge2Secs2.
Import ListNotations.
Open Scope Z_scope.

Import Gen2.secs2.

Ltac projs :=
  cbn [go_deref gbind goerr_is_nil go_is_nil negb
       baseItem_itemErr baseItem_rawPtr baseItem_rawLen
       BinaryItem_baseItem BinaryItem_values ASCIIItem_baseItem ASCIIItem_value JIS8Item_baseItem JIS8Item_value
       LocalizedStrItem_baseItem LocalizedStrItem_lsh LocalizedStrItem_value
       BooleanItem_size BooleanItem_scalar BooleanItem_baseItem BooleanItem_values
       IntItem_size IntItem_byteSize IntItem_scalar IntItem_baseItem IntItem_values
       UintItem_size UintItem_byteSize UintItem_scalar UintItem_baseItem UintItem_values].

(** a constructed item: no deferred error, no raw bytes *)
Definition base_ok (rl : Z) : baseItem := mk_baseItem ErrNil None rl.
(** a decoded item: raw bytes retained *)
Definition base_raw (mem : list Z) (n : Z) : baseItem := mk_baseItem ErrNil (Some mem) n.

Lemma hdr_ok dst fc n : 0 <= fc < 64 -> n <= 16777215 ->
  appendHeaderBytesFC dst fc n = GOk (dst ++ header fc n, ErrNil).
Proof.
  intros Hf Hn. rewrite bridge_appendHeaderBytesFC by exact Hf.
  destruct (n >? 16777215) eqn:C; [lia|reflexivity].
Qed.

Lemma raw_ok mem n e : 0 <= n <= go_len mem ->
  baseItem_raw (Some (mk_baseItem e (Some mem) n)) = GOk (firstn (Z.to_nat n) mem).
Proof.
  intros H. unfold baseItem_raw. projs. unfold go_unsafe_slice.
  destruct ((0 <=? n) && (n <=? go_len mem)) eqn:C; [reflexivity|lia].
Qed.

(** ** big-endian facts *)
Lemma be_enc_1 v : be_enc 1 v = [v mod 256].
Proof. unfold be_enc. change 1%nat with (S O). rewrite le_enc_S. reflexivity. Qed.

Lemma be_enc_2' v : be_enc 2 v = [(v / 256) mod 256; v mod 256].
Proof. unfold be_enc. change 2%nat with (S (S O)). rewrite !le_enc_S. reflexivity. Qed.

Lemma le_enc_mod k v : le_enc k (v mod pow256 k) = le_enc k v.
Proof.
  revert v. induction k as [|k IH]; intros v; [reflexivity|].
  rewrite !le_enc_S. rewrite pow256_S. pose proof (pow256_pos k) as P.
  rewrite Z.rem_mul_r by lia.
  set (X := (v / 256) mod pow256 k).
  assert (A : 0 <= v mod 256 < 256) by (apply Z.mod_pos_bound; lia).
  assert (E1 : (v mod 256 + 256 * X) mod 256 = v mod 256) by (clearbody X; Z.div_mod_to_equations; lia).
  assert (E2 : (v mod 256 + 256 * X) / 256 = X) by (clearbody X; Z.div_mod_to_equations; lia).
  subst X.
  rewrite E1, E2, IH. reflexivity.
Qed.

Lemma be_enc_mod k v : be_enc k (v mod pow256 k) = be_enc k v.
Proof. unfold be_enc. rewrite le_enc_mod. reflexivity. Qed.

Lemma be_enc_wrapU w v : be_enc (wnat w) (v mod wmod w) = be_enc (wnat w) v.
Proof.
  destruct w; cbn [wnat wmod].
  - exact (be_enc_mod 1 v).
  - exact (be_enc_mod 2 v).
  - exact (be_enc_mod 4 v).
  - exact (be_enc_mod 8 v).
Qed.

(** ** Binary / ASCII / JIS8 / LocalizedStr *)
Lemma bridge_BinaryItem_AppendTo bs rl dst : zlen bs <= 16777215 ->
  BinaryItem_AppendTo (Some (mk_BinaryItem (base_ok rl) bs)) dst = GOk (append_to (IBinary bs) dst).
Proof.
  intros H. unfold BinaryItem_AppendTo, base_ok. projs.
  rewrite hdr_ok by (unfold go_len, zlen in *; lia). projs. reflexivity.
Qed.

Lemma bridge_ASCIIItem_AppendTo bs rl dst : zlen bs <= 16777215 ->
  ASCIIItem_AppendTo (Some (mk_ASCIIItem (base_ok rl) bs)) dst = GOk (append_to (IAscii bs) dst).
Proof.
  intros H. unfold ASCIIItem_AppendTo, base_ok. projs.
  rewrite hdr_ok by (unfold go_len, zlen in *; lia). projs. reflexivity.
Qed.

Lemma bridge_JIS8Item_AppendTo bs rl dst : zlen bs <= 16777215 ->
  JIS8Item_AppendTo (Some (mk_JIS8Item (base_ok rl) bs)) dst = GOk (append_to (IJis8 bs) dst).
Proof.
  intros H. unfold JIS8Item_AppendTo, base_ok. projs.
  rewrite hdr_ok by (unfold go_len, zlen in *; lia). projs. reflexivity.
Qed.

Lemma bridge_LocalizedStrItem_AppendTo lsh bs rl dst : zlen bs + 2 <= 16777215 ->
  LocalizedStrItem_AppendTo (Some (mk_LocalizedStrItem (base_ok rl) lsh bs)) dst =
  GOk (append_to (ILocalized lsh bs) dst).
Proof.
  intros H. unfold LocalizedStrItem_AppendTo, base_ok. projs. cbv zeta.
  assert (N : 0 <= zlen bs) by (unfold zlen; lia).
  change (go_len bs) with (zlen bs).
  rewrite wrapS_id by (unfold inS; change (64 - 1) with 63; lia).
  rewrite hdr_ok by lia. projs.
  cbn [append_to]. rewrite be_enc_2'.
  unfold shrU. cbn [Z.ltb Z.compare Pos.compare Pos.compare_cont]. rewrite Z.shiftr_div_pow2 by lia.
  reflexivity.
Qed.

(** ** Boolean *)
Definition bool_repr (size : Z) (scalar : bool) (values vs : list bool) : Prop :=
  size = zlen vs /\
  match vs with [] => True | [v] => scalar = v | _ => values = vs end.

Lemma bool_loop (R : Type) vs dst :
  range_loop (R := R) (fun (_ : Z) (v : bool) dst =>
     gbind (if v then GOk (dst ++ [1]) else GOk (dst ++ [0])) (fun dst => GOk (LNext dst))) 0 vs dst
  = GOk (LDone (fold_left (fun d v => d ++ [bool_byte v]) vs dst)).
Proof.
  apply range_loop_fold. intros i v s. destruct v; reflexivity.
Qed.

Lemma bridge_BooleanItem_AppendTo size scalar values vs rl dst :
  bool_repr size scalar values vs -> zlen vs <= 16777215 ->
  BooleanItem_AppendTo (Some (mk_BooleanItem size scalar (base_ok rl) values)) dst =
  GOk (append_to (IBoolean vs) dst).
Proof.
  intros [Hs Hv] H. subst size. unfold BooleanItem_AppendTo, base_ok. projs.
  assert (N : 0 <= zlen vs) by (unfold zlen; lia).
  rewrite wrapS_id by (unfold inS; change (64 - 1) with 63; lia).
  rewrite hdr_ok by lia. projs. cbn [append_to].
  destruct vs as [|v [|v2 vs]].
  - reflexivity.
  - subst scalar. change (Z.eqb (zlen [v]) 0) with false. change (Z.eqb (zlen [v]) 1) with true.
    cbv iota. projs. destruct v; reflexivity.
  - subst values.
    replace (Z.eqb (zlen (v :: v2 :: vs)) 0) with false by (unfold zlen; cbn [length]; lia).
    replace (Z.eqb (zlen (v :: v2 :: vs)) 1) with false by (unfold zlen; cbn [length]; lia).
    projs. rewrite bool_loop. reflexivity.
Qed.

(** ** Int / Uint *)
Definition num_repr (size byteSize scalar : Z) (values : list Z) (w : width) (vs : list Z) : Prop :=
  size = zlen vs /\ byteSize = wz w /\
  match vs with [] => True | [v] => scalar = v | _ => values = vs end.

Lemma num_loop (R : Type) (enc : Z -> list Z) vs dst :
  range_loop (R := R) (fun (_ : Z) (v : Z) dst => GOk (LNext (dst ++ enc v))) 0 vs dst
  = GOk (LDone (fold_left (fun d v => d ++ enc v) vs dst)).
Proof. apply range_loop_fold. reflexivity. Qed.

Lemma fold_ext {A B} (f g : A -> B -> A) l a : (forall a b, f a b = g a b) -> fold_left f l a = fold_left g l a.
Proof. intros E. revert a. induction l as [|x l IH]; intros a; cbn [fold_left]; [reflexivity|]. rewrite E. apply IH. Qed.

Lemma len_field (vs : list Z) w : zlen vs * wz w <= 16777215 ->
  wrapS 64 (wrapS 64 (zlen vs) * wrapS 64 (wz w)) = zlen vs * wz w.
Proof.
  intros H. assert (N : 0 <= zlen vs) by (unfold zlen; lia).
  assert (W : 1 <= wz w <= 8) by (destruct w; cbn; lia).
  assert (zlen vs <= 16777215) by nia.
  rewrite (wrapS_id 64 (zlen vs)) by (unfold inS; change (64 - 1) with 63; lia).
  rewrite (wrapS_id 64 (wz w)) by (unfold inS; change (64 - 1) with 63; lia).
  apply wrapS_id; [lia|]. unfold inS. change (64 - 1) with 63. nia.
Qed.

Lemma bridge_IntItem_AppendTo size byteSize scalar values w vs rl dst :
  num_repr size byteSize scalar values w vs -> zlen vs * wz w <= 16777215 ->
  IntItem_AppendTo (Some (mk_IntItem size byteSize scalar (base_ok rl) values)) dst =
  GOk (append_to (IInt w vs) dst).
Proof.
  intros (Hs & Hb & Hv) H. subst size byteSize. unfold IntItem_AppendTo, base_ok, IntItem_formatCode. projs.
  cbv zeta.
  assert (FC : (if Z.eqb (wz w) 1 then GOk (25, true) else if Z.eqb (wz w) 2 then GOk (26, true)
                else if Z.eqb (wz w) 4 then GOk (28, true) else if Z.eqb (wz w) 8 then GOk (24, true)
                else GOk (0, false)) = GOk (fc_int w, true)) by (destruct w; reflexivity).
  rewrite FC. projs. rewrite len_field by exact H.
  rewrite hdr_ok by (try (destruct w; cbn; lia); lia). projs. cbn [append_to].
  set (d0 := dst ++ header (fc_int w) (zlen vs * wz w)).
  destruct vs as [|v [|v2 vs]].
  - reflexivity.
  - subst scalar. change (Z.eqb (zlen [v]) 0) with false. change (Z.eqb (zlen [v]) 1) with true.
    cbv iota. cbn [fold_left]. unfold to_unsigned.
    destruct w; cbn [wz wnat wmod Z.eqb Pos.eqb gbind]; unfold be_append; try reflexivity.
    rewrite be_enc_1. unfold wrapU. change (2 ^ 8) with 256. rewrite Z.mod_mod by lia. reflexivity.
  - subst values.
    replace (Z.eqb (zlen (v :: v2 :: vs)) 0) with false by (unfold zlen; cbn [length]; lia).
    replace (Z.eqb (zlen (v :: v2 :: vs)) 1) with false by (unfold zlen; cbn [length]; lia).
    unfold to_unsigned.
    destruct w; cbn [wz wnat wmod Z.eqb Pos.eqb gbind]; unfold be_append; rewrite num_loop; cbn [loop_k gbind];
      try reflexivity.
    f_equal. apply fold_ext. intros a b. rewrite be_enc_1. unfold wrapU. change (2 ^ 8) with 256.
    rewrite Z.mod_mod by lia. reflexivity.
Qed.

Lemma bridge_UintItem_AppendTo size byteSize scalar values w vs rl dst :
  num_repr size byteSize scalar values w vs -> zlen vs * wz w <= 16777215 ->
  UintItem_AppendTo (Some (mk_UintItem size byteSize scalar (base_ok rl) values)) dst =
  GOk (append_to (IUint w vs) dst).
Proof.
  intros (Hs & Hb & Hv) H. subst size byteSize. unfold UintItem_AppendTo, base_ok, UintItem_formatCode. projs.
  cbv zeta.
  assert (FC : (if Z.eqb (wz w) 1 then GOk (41, true) else if Z.eqb (wz w) 2 then GOk (42, true)
                else if Z.eqb (wz w) 4 then GOk (44, true) else if Z.eqb (wz w) 8 then GOk (40, true)
                else GOk (0, false)) = GOk (fc_uint w, true)) by (destruct w; reflexivity).
  rewrite FC. projs. rewrite len_field by exact H.
  rewrite hdr_ok by (try (destruct w; cbn; lia); lia). projs. cbn [append_to].
  set (d0 := dst ++ header (fc_uint w) (zlen vs * wz w)).
  destruct vs as [|v [|v2 vs]].
  - reflexivity.
  - subst scalar. change (Z.eqb (zlen [v]) 0) with false. change (Z.eqb (zlen [v]) 1) with true.
    cbv iota. cbn [fold_left].
    destruct w; cbn [wz wnat wmod Z.eqb Pos.eqb gbind]; unfold be_append.
    + rewrite be_enc_1. reflexivity.
    + do 2 f_equal. exact (be_enc_mod 2 v).
    + do 2 f_equal. exact (be_enc_mod 4 v).
    + reflexivity.
  - subst values.
    replace (Z.eqb (zlen (v :: v2 :: vs)) 0) with false by (unfold zlen; cbn [length]; lia).
    replace (Z.eqb (zlen (v :: v2 :: vs)) 1) with false by (unfold zlen; cbn [length]; lia).
    destruct w; cbn [wz wnat wmod Z.eqb Pos.eqb gbind]; unfold be_append; rewrite num_loop; cbn [loop_k gbind];
      f_equal; apply fold_ext; intros a b.
    all: try (rewrite be_enc_1; reflexivity).
    all: try (f_equal; first [exact (be_enc_mod 2 b) | exact (be_enc_mod 4 b)]).
    all: try reflexivity.
Qed.

(** ** decoded items (raw bytes retained) and items with a deferred error, all seven types *)
Lemma bridge_raw_paths mem n dst : 0 <= n <= go_len mem ->
  let b := base_raw mem n in let r := GOk (dst ++ firstn (Z.to_nat n) mem) in
  (forall x, BinaryItem_AppendTo (Some (mk_BinaryItem b x)) dst = r) /\
  (forall s c x, BooleanItem_AppendTo (Some (mk_BooleanItem s c b x)) dst = r) /\
  (forall x, ASCIIItem_AppendTo (Some (mk_ASCIIItem b x)) dst = r) /\
  (forall x, JIS8Item_AppendTo (Some (mk_JIS8Item b x)) dst = r) /\
  (forall l x, LocalizedStrItem_AppendTo (Some (mk_LocalizedStrItem b l x)) dst = r) /\
  (forall s z c x, IntItem_AppendTo (Some (mk_IntItem s z c b x)) dst = r) /\
  (forall s z c x, UintItem_AppendTo (Some (mk_UintItem s z c b x)) dst = r).
Proof.
  intros H b r. subst b r. unfold base_raw.
  repeat split; intros;
    unfold BinaryItem_AppendTo, BooleanItem_AppendTo, ASCIIItem_AppendTo, JIS8Item_AppendTo,
      LocalizedStrItem_AppendTo, IntItem_AppendTo, UintItem_AppendTo; projs; rewrite raw_ok by exact H; reflexivity.
Qed.

Lemma bridge_error_paths e p n dst : e <> ErrNil ->
  let b := mk_baseItem e p n in let r := GOk dst in
  (forall x, BinaryItem_AppendTo (Some (mk_BinaryItem b x)) dst = r) /\
  (forall s c x, BooleanItem_AppendTo (Some (mk_BooleanItem s c b x)) dst = r) /\
  (forall x, ASCIIItem_AppendTo (Some (mk_ASCIIItem b x)) dst = r) /\
  (forall x, JIS8Item_AppendTo (Some (mk_JIS8Item b x)) dst = r) /\
  (forall l x, LocalizedStrItem_AppendTo (Some (mk_LocalizedStrItem b l x)) dst = r) /\
  (forall s z c x, IntItem_AppendTo (Some (mk_IntItem s z c b x)) dst = r) /\
  (forall s z c x, UintItem_AppendTo (Some (mk_UintItem s z c b x)) dst = r).
Proof.
  intros H b r. subst b r.
  assert (E : goerr_is_nil e = false) by (destruct e; [congruence|reflexivity|reflexivity]).
  repeat split; intros;
    unfold BinaryItem_AppendTo, BooleanItem_AppendTo, ASCIIItem_AppendTo, JIS8Item_AppendTo,
      LocalizedStrItem_AppendTo, IntItem_AppendTo, UintItem_AppendTo;
    cbn [go_deref gbind baseItem_itemErr BinaryItem_baseItem BooleanItem_baseItem ASCIIItem_baseItem JIS8Item_baseItem
         LocalizedStrItem_baseItem IntItem_baseItem UintItem_baseItem]; rewrite E; reflexivity.
Qed.
