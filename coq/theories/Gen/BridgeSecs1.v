(** Bridge: the SECS-I constants REGENERATED from the current Go source ([Gen.v], written by the
    translator on every check) equal the constants the hand-written models use. None of the
    secs1 functions fits the translator's subset (they work on structs, arrays, slices and
    iterators), so functions are tied by the hook differential of the C17/C18 checks instead. If
    a constant changes in the source, a lemma here stops compiling. *)
From Coq Require Import ZArith.
From GoSecs Require Import Gen.Gen Secs1.Block.
Open Scope Z_scope.

Lemma bridge_maxBlockBodySize : Gen.secs1.maxBlockBodySize = max_block_body.
Proof. reflexivity. Qed.
Lemma bridge_blockHeaderSize : Gen.secs1.blockHeaderSize = block_header_size.
Proof. reflexivity. Qed.
Lemma bridge_checksumSize : Gen.secs1.checksumSize = checksum_size.
Proof. reflexivity. Qed.
Lemma bridge_minBlockLength : Gen.secs1.minBlockLength = min_block_length.
Proof. reflexivity. Qed.
Lemma bridge_maxBlockLength : Gen.secs1.maxBlockLength = max_block_length.
Proof. reflexivity. Qed.
Lemma bridge_maxBlockNumber : Gen.secs1.maxBlockNumber = max_block_number.
Proof. reflexivity. Qed.
Lemma bridge_hsmsHeaderLen : Gen.secs1.hsmsHeaderLen = hsms_header_len.
Proof. reflexivity. Qed.

Lemma bridge_block_constants :
  Gen.secs1.maxBlockBodySize = max_block_body /\ Gen.secs1.blockHeaderSize = block_header_size /\
  Gen.secs1.checksumSize = checksum_size /\ Gen.secs1.minBlockLength = min_block_length /\
  Gen.secs1.maxBlockLength = max_block_length /\ Gen.secs1.maxBlockNumber = max_block_number /\
  Gen.secs1.hsmsHeaderLen = hsms_header_len.
Proof. repeat split; reflexivity. Qed.

(** Line-control characters (C18). *)
From GoSecs Require Import Secs1.Line Secs1.LineBytes.
Lemma bridge_line_chars :
  ch_code ENQ = Some Gen.secs1.enq /\ ch_code EOT = Some Gen.secs1.eot /\
  ch_code ACK = Some Gen.secs1.ack /\ ch_code NAK = Some Gen.secs1.nak.
Proof. repeat split; reflexivity. Qed.

(** The same characters in the character-level receive model (C17). *)
From GoSecs Require Import Secs1.RecvStream.
Lemma bridge_recv_chars :
  c_enq = Gen.secs1.enq /\ c_eot = Gen.secs1.eot /\ c_ack = Gen.secs1.ack /\ c_nak = Gen.secs1.nak.
Proof. repeat split; reflexivity. Qed.
