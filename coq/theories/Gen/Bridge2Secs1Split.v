(** Bridge (translator v2): [splitBody] (secs1/message.go) REGENERATED into [Gen/Gen2.v] equals
    [split_body] of Secs1/Block.v. splitBody returns an iterator (iter.Seq[block]); the translation
    is the LIST of the blocks the iterator yields, in order, to a consumer that drains it
    (generator-to-list rule of the translator: every translated consumer is checked to be a range
    loop without break / return). wire.Body is its encoded bytes; Body.Chunk(off, n) is
    [wire.chunkView] on them (the body of both implementations), translated as well. *)
From Coq Require Import String.
From Coq Require Import ZArith Bool List Lia ZifyBool.
From GoSecs Require Import Base.GoInt Base.BytesBE Base.GoSlice Gen.Gen2 Secs1.Block Gen.Bridge2Secs1.
Import ListNotations.
Open Scope Z_scope.

Definition split_result_of (r : result (list block)) : prod (list Gen2.secs1.block) goerror :=
  match r with
  | Ok bs => (map blk_of bs, ErrNil)
  | Err ETooLarge => ([], ErrIs "ErrMessageTooLarge")
  | Err _ => ([], ErrIs "ErrInvalidHeader")
  end.

(** chunkView on a range inside the body *)
Lemma chunkView_ok body off n : 0 <= off -> 0 <= n -> off + n <= go_len body -> go_len body < 2 ^ 62 ->
  Gen2.wire.chunkView body off n = GOk (Gen2.wire.mk_Chunk (firstn (Z.to_nat n) (skipn (Z.to_nat off) body))).
Proof.
  intros Ho Hn Hb HL. unfold Gen2.wire.chunkView.
  rewrite (wrapS64_small (go_len body - off)) by lia. rewrite (wrapS64_small (off + n)) by lia.
  replace (orb (orb (orb (Z.ltb off 0) (Z.ltb n 0)) (Z.gtb off (go_len body))) (Z.gtb n (go_len body - off))) with false by lia.
  cbn [gbind]. rewrite go_slice_ok by lia. cbn [gbind]. unfold sub. replace (off + n - off) with n by lia. reflexivity.
Qed.

(** the body of the generator's loop (copied from the generated splitBody) *)
Definition split_f (body : list Z) (gh : Gen2.secs1.messageHeader) (total : Z)
  : Z -> prod (list Gen2.secs1.block) Z -> gres (lctl (prod (list Gen2.secs1.block) Z) (prod (list Gen2.secs1.block) goerror)) :=
  fun off '(yield, blockNumber) =>
  (let n := (Z.min 244 (wrapS 64 (total - off))) in
  (let last := (Z.eqb (wrapS 64 (off + n)) total) in
  (gbind (Gen2.secs1.buildHeader gh blockNumber last) (fun t_2 =>
  (gbind (Gen2.wire.chunkView body off n) (fun t_3 =>
  (let yield := (yield ++ [(Gen2.secs1.mk_block t_2 t_3)]) in
  (let blockNumber := (wrapU 16 (blockNumber + 1)) in
  (GOk (LNext (yield, blockNumber))))))))))).

Lemma skipn_add (l : list Z) a b : skipn a (skipn b l) = skipn (b + a) l.
Proof.
  revert l. induction b as [|b IH]; intros l; [reflexivity|]. destruct l; [destruct a; reflexivity|]. cbn [skipn Nat.add]. apply IH.
Qed.

Lemma skipn_len_z (l : list Z) k : 0 <= k <= zlen l -> zlen (skipn (Z.to_nat k) l) = zlen l - k.
Proof. intros H. unfold zlen in *. rewrite skipn_length. lia. Qed.

Lemma split_loop h body :
  0 <= h_func h < 256 -> length (h_sys h) = 4%nat -> zlen body <= 244 * 32767 ->
  forall n j acc num rest fuel,
    rest = skipn (Z.to_nat (j * 244)) body -> rest <> [] -> 0 <= j ->
    (Z.of_nat n - 1) * 244 < zlen rest <= Z.of_nat n * 244 ->
    (n <= fuel)%nat -> 1 <= num -> num + Z.of_nat n <= 32768 ->
    count_loop_n (fun i st => split_f body (mh_of h) (zlen body) (0 + i * 244) st) n j (acc, num) =
    GOk (LDone (acc ++ map blk_of (split_go h fuel num rest), num + Z.of_nat n)).
Proof.
  intros Hf Hs HB. induction n as [|n IH]; intros j acc num rest fuel Hr Hne Hj Hn Hfu Hnum Hmax.
  - exfalso. destruct rest; [congruence|]. unfold zlen in Hn. cbn [length] in Hn. lia.
  - destruct fuel as [|f]; [lia|].
    assert (Hk : j * 244 < zlen body).
    { destruct (Z_lt_ge_dec (j * 244) (zlen body)) as [H|H]; [exact H|].
      exfalso. apply Hne. rewrite Hr. apply skipn_all2. unfold zlen in H. lia. }
    assert (HL : zlen rest = zlen body - j * 244) by (rewrite Hr; apply skipn_len_z; lia).
    set (L := zlen rest) in *.
    assert (Lpos : 0 < L) by (destruct rest; [congruence|]; unfold L, zlen; cbn [length]; lia).
    cbn [count_loop_n]. unfold split_f at 1. cbv zeta.
    replace (0 + j * 244) with (j * 244) by lia.
    rewrite (wrapS64_small (zlen body - j * 244)) by lia.
    replace (zlen body - j * 244) with L by lia.
    rewrite (wrapS64_small (j * 244 + Z.min 244 L)) by lia.
    rewrite bridge_buildHeader by assumption. cbn [gbind].
    rewrite chunkView_ok by (change (go_len body) with (zlen body); lia). cbn [gbind].
    rewrite <- Hr.
    assert (Hchunk : firstn (Z.to_nat (Z.min 244 L)) rest = firstn max_body_nat rest).
    { unfold max_body_nat, max_block_body. destruct (Z_le_gt_dec L 244) as [H|H].
      - rewrite Z.min_r by lia. rewrite !firstn_all2 by (unfold L, zlen in *; lia). reflexivity.
      - rewrite Z.min_l by lia. reflexivity. }
    rewrite Hchunk.
    rewrite (wrapU_id 16 (num + 1)) by (unfold inU; change (2 ^ 16) with 65536; lia).
    cbn [split_go].
    destruct (Z_le_gt_dec L 244) as [Hle|Hgt].
    + (* the last block *)
      assert (n = 0%nat) by lia. subst n.
      replace (skipn max_body_nat rest) with (@nil Z)
        by (symmetry; apply skipn_all2; unfold max_body_nat, max_block_body, L, zlen in *; lia).
      replace (j * 244 + Z.min 244 L =? zlen body) with true by lia.
      cbn [count_loop_n map]. unfold blk_of at 1. cbn [b_hdr b_body]. do 3 f_equal; try reflexivity; try lia.
    + replace (j * 244 + Z.min 244 L =? zlen body) with false by lia.
      assert (Hr' : skipn max_body_nat rest = skipn (Z.to_nat ((j + 1) * 244)) body).
      { rewrite Hr, skipn_add. f_equal. unfold max_body_nat, max_block_body. lia. }
      assert (Hlen' : zlen (skipn max_body_nat rest) = L - 244).
      { unfold zlen, L, zlen. rewrite skipn_length. unfold max_body_nat, max_block_body. unfold L, zlen in Hgt. lia. }
      destruct (skipn max_body_nat rest) as [|x xs] eqn:E.
      { exfalso. unfold zlen in Hlen'. cbn [length] in Hlen'. lia. }
      rewrite (IH (j + 1) (acc ++ [Gen2.secs1.mk_block (build_header h num false) (Gen2.wire.mk_Chunk (firstn max_body_nat rest))])
                  (num + 1) (x :: xs) f Hr' ltac:(discriminate) ltac:(lia) ltac:(rewrite Hlen'; lia) ltac:(lia) ltac:(lia) ltac:(lia)).
      cbn [map]. unfold blk_of at 2. cbn [b_hdr b_body]. rewrite <- app_assoc. cbn [app].
      do 3 f_equal; try reflexivity; try lia.
Qed.

Theorem bridge_splitBody body h :
  0 <= h_func h < 256 -> length (h_sys h) = 4%nat ->
  Gen2.secs1.splitBody body (mh_of h) = GOk (split_result_of (split_body body h)).
Proof.
  intros Hf Hs. unfold Gen2.secs1.splitBody, split_body, mh_of.
  cbn [Gen2.secs1.messageHeader_deviceID Gen2.secs1.messageHeader_stream].
  destruct (h_dev h >? 32767); [reflexivity|].
  destruct (h_stream h >? 127); [reflexivity|].
  change (go_len body) with (zlen body). change (max_block_body * max_block_number) with 7995148.
  destruct (zlen body >? 7995148) eqn:Cb; [reflexivity|].
  fold (mh_of h).
  destruct (zlen body =? 0) eqn:C0.
  - assert (body = []) by (destruct body; [reflexivity|unfold zlen in C0; cbn [length] in C0; lia]). subst body.
    rewrite bridge_buildHeader by assumption. cbn [gbind app]. reflexivity.
  - unfold stride_loop. replace (zlen body >? 9223372036854775807 - 244) with false by lia.
    unfold count_loop. rewrite Z.sub_0_r.
    assert (Hpos : 0 < zlen body) by (unfold zlen in *; lia).
    set (q := (zlen body - 0 + 244 - 1) / 244).
    assert (Hq : (q - 1) * 244 < zlen body <= q * 244) by (unfold q; Z.div_mod_to_equations; lia).
    pose proof (split_loop h body Hf Hs ltac:(lia) (Z.to_nat q) 0 [] 1 body (S (length body))
                  eq_refl ltac:(intros ->; unfold zlen in C0; cbn [length] in C0; lia) ltac:(lia)
                  ltac:(lia) ltac:(unfold zlen in *; lia) ltac:(lia) ltac:(lia)) as LP.
    unfold split_f in LP.
    cbv zeta in LP |- *. rewrite LP. cbn [loop_k app]. reflexivity.
Qed.
