(** Bridge (translator v2): [decodeItem] REGENERATED from secs2/decode.go into [Gen/Gen2.v] - the
    recursive-descent SECS-II decoder (entry guard, format byte, 1..3 length bytes, depth counter,
    child-count pre-check, the loop over the children of a list, the leaf paths) - agrees with
    [decode_item] of Secs2/Decode.v on EVERY owned buffer and position: same success / failure,
    same consumed length, and a tree related to the model tree by [repr]; and it never panics.

    [decodeItem] is self-recursive: it is a Fixpoint on an explicit fuel (out of fuel = GPanic). The
    recursion depth is bounded by MaxListDepth, so [65 - depth] units of fuel suffice; the theorems
    quantify over any fuel at least that large. The model has its own fuel ([decode] uses
    [S (length bs)], proved never to be exhausted in Secs2/DecodeSound.v). *)
From Coq Require Import String.
From Coq Require Import ZArith Bool List Lia ZifyBool.
From GoSecs Require Import Base.GoInt Base.BytesBE Base.GoSlice Gen.Gen2 Secs2.Item Secs2.Decode Secs2.EncodeProofs Secs2.DecodeProofs Secs2.DecodeSound Secs2.DecodeChkProofs
  Gen.Bridge2Secs2Decode.
Import ListNotations.
Open Scope Z_scope.
Import Gen2.secs2.

(** ** the two sub-terms of the generated function the proofs name *)
Definition leaf_go (owned : list Z) (startPos pos length t_9 : Z) (slab : option decodeSlab) : gres (Item * Z * goerror) :=
 (if (Z.eqb t_9 16)
 then (if (Z.gtb (wrapS 64 (pos + length)) (go_len owned))
 then (GOk (Item_nil, pos, (ErrNew "unexpected end of data: ASCII needs %d bytes, have %d"%string)))
 else (gbind (go_slice owned pos (wrapS 64 (pos + length))) (fun t_21 =>
 (gbind (ownedString t_21) (fun t_22 =>
 (let s := t_22 in
 (let pos := (wrapS 64 (pos + length)) in
 (let it := (Some (mk_ASCIIItem (mk_baseItem ErrNil None 0) [])) in
 (gbind (go_deref it) (fun t_23 =>
 (let it := (Some (set_ASCIIItem_value t_23 s)) in
 (gbind (go_deref it) (fun t_24 =>
 (gbind (go_slice owned startPos pos) (fun t_25 =>
 (gbind (baseItem_setRaw (Some (ASCIIItem_baseItem t_24)) t_25) (fun t_26 =>
 (let '(t_27, t_28) := t_26 in
 (gbind (go_deref t_27) (fun t_29 =>
 (let it := (Some (set_ASCIIItem_baseItem t_24 t_29)) in
 (GOk ((Item_ASCIIItem it), pos, ErrNil)))))))))))))))))))))))
 else (if (Z.eqb t_9 17)
 then (if (Z.gtb (wrapS 64 (pos + length)) (go_len owned))
 then (GOk (Item_nil, pos, (ErrNew "unexpected end of data: JIS8 needs %d bytes, have %d"%string)))
 else (gbind (go_slice owned pos (wrapS 64 (pos + length))) (fun t_30 =>
 (gbind (ownedString t_30) (fun t_31 =>
 (let s := t_31 in
 (let pos := (wrapS 64 (pos + length)) in
 (let it := (Some (mk_JIS8Item (mk_baseItem ErrNil None 0) [])) in
 (gbind (go_deref it) (fun t_32 =>
 (let it := (Some (set_JIS8Item_value t_32 s)) in
 (gbind (go_deref it) (fun t_33 =>
 (gbind (go_slice owned startPos pos) (fun t_34 =>
 (gbind (baseItem_setRaw (Some (JIS8Item_baseItem t_33)) t_34) (fun t_35 =>
 (let '(t_36, t_37) := t_35 in
 (gbind (go_deref t_36) (fun t_38 =>
 (let it := (Some (set_JIS8Item_baseItem t_33 t_38)) in
 (GOk ((Item_JIS8Item it), pos, ErrNil)))))))))))))))))))))))
 else (if (Z.eqb t_9 8)
 then (if (Z.gtb (wrapS 64 (pos + length)) (go_len owned))
 then (GOk (Item_nil, pos, (ErrNew "unexpected end of data: binary needs %d bytes, have %d"%string)))
 else (gbind (go_slice owned pos (wrapS 64 (pos + length))) (fun t_39 =>
 (let payload := t_39 in
 (let pos := (wrapS 64 (pos + length)) in
 (let it := (Some (mk_BinaryItem (mk_baseItem ErrNil None 0) [])) in
 (gbind (go_deref it) (fun t_40 =>
 (let it := (Some (set_BinaryItem_values t_40 payload)) in
 (gbind (go_deref it) (fun t_41 =>
 (gbind (go_slice owned startPos pos) (fun t_42 =>
 (gbind (baseItem_setRaw (Some (BinaryItem_baseItem t_41)) t_42) (fun t_43 =>
 (let '(t_44, t_45) := t_43 in
 (gbind (go_deref t_44) (fun t_46 =>
 (let it := (Some (set_BinaryItem_baseItem t_41 t_46)) in
 (GOk ((Item_BinaryItem it), pos, ErrNil)))))))))))))))))))))
 else (if (Z.eqb t_9 9)
 then (if (Z.gtb (wrapS 64 (pos + length)) (go_len owned))
 then (GOk (Item_nil, pos, (ErrNew "unexpected end of data: boolean needs %d bytes, have %d"%string)))
 else (if (Z.eqb length 1)
 then (gbind (go_index owned pos) (fun t_47 =>
 (let val := (negb (Z.eqb t_47 0)) in
 (let pos := (wrapS 64 (pos + 1)) in
 (let it := (Some (mk_BooleanItem 0 false (mk_baseItem ErrNil None 0) [])) in
 (gbind (go_deref it) (fun t_48 =>
 (let it := (Some (set_BooleanItem_size t_48 1)) in
 (gbind (go_deref it) (fun t_49 =>
 (let it := (Some (set_BooleanItem_scalar t_49 val)) in
 (gbind (go_deref it) (fun t_50 =>
 (gbind (go_slice owned startPos pos) (fun t_51 =>
 (gbind (baseItem_setRaw (Some (BooleanItem_baseItem t_50)) t_51) (fun t_52 =>
 (let '(t_53, t_54) := t_52 in
 (gbind (go_deref t_53) (fun t_55 =>
 (let it := (Some (set_BooleanItem_baseItem t_50 t_55)) in
 (GOk ((Item_BooleanItem it), pos, ErrNil)))))))))))))))))))))))
 else (gbind (go_make_g false length) (fun t_56 =>
 (let bools := t_56 in
 (loop_k (count_loop (R:=(Item * Z * goerror)) (fun i bools =>
 (gbind (go_index owned (wrapS 64 (pos + i))) (fun t_57 =>
 (gbind (go_set_g bools i (negb (Z.eqb t_57 0))) (fun t_58 =>
 (let bools := t_58 in
 (GOk (LNext bools)))))))) 0 length bools)
 (fun bools =>
 (let pos := (wrapS 64 (pos + length)) in
 (let it := (Some (mk_BooleanItem (wrapS 32 length) false (mk_baseItem ErrNil None 0) bools)) in
 (gbind (go_deref it) (fun t_59 =>
 (gbind (go_slice owned startPos pos) (fun t_60 =>
 (gbind (baseItem_setRaw (Some (BooleanItem_baseItem t_59)) t_60) (fun t_61 =>
 (let '(t_62, t_63) := t_61 in
 (gbind (go_deref t_62) (fun t_64 =>
 (let it := (Some (set_BooleanItem_baseItem t_59 t_64)) in
 (GOk ((Item_BooleanItem it), pos, ErrNil)))))))))))))))
 (fun r_ => (GOk r_))))))))
 else (if (Z.eqb t_9 18)
 then (if (Z.ltb length 2)
 then (GOk (Item_nil, pos, (ErrNew "localized string payload too short: %d bytes (minimum 2 for LSH)"%string)))
 else (if (Z.gtb (wrapS 64 (pos + length)) (go_len owned))
 then (GOk (Item_nil, pos, (ErrNew "unexpected end of data: localized string needs %d bytes, have %d"%string)))
 else (gbind (go_index owned pos) (fun t_65 =>
 (gbind (go_index owned (wrapS 64 (pos + 1))) (fun t_66 =>
 (let lsh := (Z.lor (shlU 16 (wrapU 16 t_65) 8) (wrapU 16 t_66)) in
 (gbind (go_slice owned (wrapS 64 (pos + 2)) (wrapS 64 (pos + length))) (fun t_67 =>
 (gbind (ownedString t_67) (fun t_68 =>
 (let s := t_68 in
 (let pos := (wrapS 64 (pos + length)) in
 (let it := (Some (mk_LocalizedStrItem (mk_baseItem ErrNil None 0) 0 [])) in
 (gbind (go_deref it) (fun t_69 =>
 (let it := (Some (set_LocalizedStrItem_lsh t_69 lsh)) in
 (gbind (go_deref it) (fun t_70 =>
 (let it := (Some (set_LocalizedStrItem_value t_70 s)) in
 (gbind (go_deref it) (fun t_71 =>
 (gbind (go_slice owned startPos pos) (fun t_72 =>
 (gbind (baseItem_setRaw (Some (LocalizedStrItem_baseItem t_71)) t_72) (fun t_73 =>
 (let '(t_74, t_75) := t_73 in
 (gbind (go_deref t_74) (fun t_76 =>
 (let it := (Some (set_LocalizedStrItem_baseItem t_71 t_76)) in
 (GOk ((Item_LocalizedStrItem it), pos, ErrNil))))))))))))))))))))))))))))))))
 else (if (Z.eqb t_9 25)
 then (gbind (decodeIntItem owned startPos pos 1 length slab) (fun t_77 =>
 (GOk t_77)))
 else (if (Z.eqb t_9 26)
 then (gbind (decodeIntItem owned startPos pos 2 length slab) (fun t_78 =>
 (GOk t_78)))
 else (if (Z.eqb t_9 28)
 then (gbind (decodeIntItem owned startPos pos 4 length slab) (fun t_79 =>
 (GOk t_79)))
 else (if (Z.eqb t_9 24)
 then (gbind (decodeIntItem owned startPos pos 8 length slab) (fun t_80 =>
 (GOk t_80)))
 else (if (Z.eqb t_9 41)
 then (gbind (decodeUintItem owned startPos pos 1 length slab) (fun t_81 =>
 (GOk t_81)))
 else (if (Z.eqb t_9 42)
 then (gbind (decodeUintItem owned startPos pos 2 length slab) (fun t_82 =>
 (GOk t_82)))
 else (if (Z.eqb t_9 44)
 then (gbind (decodeUintItem owned startPos pos 4 length slab) (fun t_83 =>
 (GOk t_83)))
 else (if (Z.eqb t_9 40)
 then (gbind (decodeUintItem owned startPos pos 8 length slab) (fun t_84 =>
 (GOk t_84)))
 else (if (Z.eqb t_9 36)
 then (gbind (decodeFloatItem owned startPos pos 4 length slab) (fun t_85 =>
 (GOk t_85)))
 else (if (Z.eqb t_9 32)
 then (gbind (decodeFloatItem owned startPos pos 8 length slab) (fun t_86 =>
 (GOk t_86)))
 else (GOk (Item_nil, pos, (ErrNew "unknown format code: %d"%string)))))))))))))))))).

Definition child_body (fuel_ : nat) (owned : list Z) (depth : Z) (slab : option decodeSlab) :
  Z -> Z * list Item -> gres (lctl (Z * list Item) (Item * Z * goerror)) :=
 (fun _ '(pos, children) =>
 (gbind (decodeItem fuel_ owned pos depth slab) (fun t_11 =>
 (let '(t_12, t_13, t_14) := t_11 in
 (let child := t_12 in
 (let newPos := t_13 in
 (let err := t_14 in
 (if (negb (goerr_is_nil err))
 then (GOk (LRet (Item_nil, pos, err)))
 else (let pos := newPos in
 (let children := (children ++ [child]) in
 (GOk (LNext (pos, children))))))))))))).

Definition list_go (fuel_ : nat) (owned : list Z) (startPos pos length depth : Z) (slab : option decodeSlab) :
  gres (Item * Z * goerror) :=
 (let depth := (wrapS 64 (depth + 1)) in
 (if (Z.gtb depth 64)
 then (GOk (Item_nil, pos, (ErrNew "list nesting depth exceeds maximum allowed: %d"%string)))
 else (if (Z.gtb (wrapS 64 (length * 2)) (wrapS 64 ((go_len owned) - pos)))
 then (GOk (Item_nil, pos, (ErrNew "list child count %d exceeds remaining bytes: need at least %d, have %d"%string)))
 else (gbind (if length <? 0 then GPanic else GOk tt) (fun t_10 =>
 (let children := [] in
 (loop_k (count_loop (R:=(Item * Z * goerror)) (fun _ '(pos, children) =>
 (gbind (decodeItem fuel_ owned pos depth slab) (fun t_11 =>
 (let '(t_12, t_13, t_14) := t_11 in
 (let child := t_12 in
 (let newPos := t_13 in
 (let err := t_14 in
 (if (negb (goerr_is_nil err))
 then (GOk (LRet (Item_nil, pos, err)))
 else (let pos := newPos in
 (let children := (children ++ [child]) in
 (GOk (LNext (pos, children))))))))))))) 0 length (pos, children))
 (fun '(pos, children) =>
 (let it := (Some (mk_ListItem (mk_baseItem ErrNil None 0) children true)) in
 (gbind (go_deref it) (fun t_15 =>
 (gbind (go_slice owned startPos pos) (fun t_16 =>
 (gbind (baseItem_setRaw (Some (ListItem_baseItem t_15)) t_16) (fun t_17 =>
 (let '(t_18, t_19) := t_17 in
 (gbind (go_deref t_18) (fun t_20 =>
 (let it := (Some (set_ListItem_baseItem t_15 t_20)) in
 (GOk ((Item_ListItem it), pos, ErrNil))))))))))))))
 (fun r_ => (GOk r_))))))))).

(** ** representation: the Go item tree [g] stands for the model tree [x] *)
Definition fwiden (w : width) (u : Z) : Z := match w with W4 => go_f32_widen u | _ => u end.

Definition float_item_of (w : width) (vs raw : list Z) : FloatItem :=
  match vs with
  | [v] => mk_FloatItem 1 (wz w) v (raw_base raw) []
  | _ => mk_FloatItem (zlen vs) (wz w) 0 (raw_base raw) vs
  end.

Definition bool_item_of (bs : list bool) (raw : list Z) : BooleanItem :=
  match bs with
  | [b] => mk_BooleanItem 1 b (raw_base raw) []
  | _ => mk_BooleanItem (zlen bs) false (raw_base raw) bs
  end.

Fixpoint repr (x : item) (g : Item) : Prop :=
  match x with
  | IList cs =>
      exists raw vs, g = Item_ListItem (Some (mk_ListItem (raw_base raw) vs true)) /\
        (fix all2 (cs : list item) (vs : list Item) : Prop :=
           match cs, vs with
           | [], [] => True
           | c :: cs', v :: vs' => repr c v /\ all2 cs' vs'
           | _, _ => False
           end) cs vs
  | IBinary p => exists raw, g = Item_BinaryItem (Some (mk_BinaryItem (raw_base raw) p))
  | IBoolean bs => exists raw, g = Item_BooleanItem (Some (bool_item_of bs raw))
  | IAscii p => exists raw, g = Item_ASCIIItem (Some (mk_ASCIIItem (raw_base raw) p))
  | IJis8 p => exists raw, g = Item_JIS8Item (Some (mk_JIS8Item (raw_base raw) p))
  | ILocalized lsh p => exists raw, g = Item_LocalizedStrItem (Some (mk_LocalizedStrItem (raw_base raw) lsh p))
  | IInt w vs => exists raw, g = Item_IntItem (Some (int_item_of w vs raw))
  | IUint w vs => exists raw, g = Item_UintItem (Some (uint_item_of w vs raw))
  | IFloat w us => exists raw, g = Item_FloatItem (Some (float_item_of w (map (fwiden w) us) raw))
  | IEmpty => False
  end.

Fixpoint repr_all (cs : list item) (vs : list Item) : Prop :=
  match cs, vs with
  | [], [] => True
  | c :: cs', v :: vs' => repr c v /\ repr_all cs' vs'
  | _, _ => False
  end.

Lemma repr_list cs raw vs : repr_all cs vs -> repr (IList cs) (Item_ListItem (Some (mk_ListItem (raw_base raw) vs true))).
Proof.
  intros H. cbn [repr]. exists raw, vs. split; [reflexivity|].
  revert vs H. induction cs as [|c cs IH]; intros [|v vs] H; cbn [repr_all] in H; try contradiction; [exact I|].
  destruct H as [H1 H2]. split; [exact H1|]. apply IH. exact H2.
Qed.

Lemma repr_all_app cs vs c v : repr_all cs vs -> repr c v -> repr_all (cs ++ [c]) (vs ++ [v]).
Proof.
  revert vs. induction cs as [|c0 cs IH]; intros [|v0 vs] H Hc; cbn [repr_all app] in *; try contradiction.
  - split; [exact Hc|exact I].
  - destruct H as [H1 H2]. split; [exact H1|]. apply IH; assumption.
Qed.

(** what a result triple says about a model outcome *)
Definition agrees (L : Z) (r : res (item * list Z)) (o : gres (Item * Z * goerror)) : Prop :=
  match r with
  | Ok (x, rest) => exists it, o = GOk (it, L - zlen rest, ErrNil) /\ repr x it
  | Err ErrFuel => True
  | Err _ => exists p e, o = GOk (Item_nil, p, e) /\ e <> ErrNil
  end.

(** ** bit facts for the header *)
Lemma lor_shift x b k : 0 <= k -> 0 <= b < 2 ^ k -> Z.lor (x * 2 ^ k) b = x * 2 ^ k + b.
Proof.
  intros Hk Hb. rewrite <- Z.shiftl_mul_pow2 by lia.
  assert (H0 : Z.land (Z.shiftl x k) b = 0).
  { apply Z.bits_inj'. intros n Hn. rewrite Z.land_spec, Z.bits_0.
    destruct (Z_lt_le_dec n k) as [Hlt|Hge].
    - rewrite Z.shiftl_spec_low by lia. reflexivity.
    - destruct (Z.eq_dec b 0) as [->|Hnz]; [rewrite Z.bits_0; apply andb_false_r|].
      rewrite (Z.bits_above_log2 b n); [apply andb_false_r|lia|].
      assert (Z.log2 b < k) by (apply Z.log2_lt_pow2; lia). lia. }
  rewrite (Z.add_nocarry_lxor _ _ H0). symmetry. apply Z.lxor_lor. exact H0.
Qed.

Lemma wrapS64_i x : - 2 ^ 62 <= x <= 2 ^ 62 -> wrapS 64 x = x.
Proof. intros. apply wrapS_id; [lia|]. unfold inS. change (64 - 1) with 63. lia. Qed.

Lemma shlS64 x n : 0 <= n < 32 -> 0 <= x < 2 ^ 16 -> shlS 64 x n = x * 2 ^ n.
Proof.
  intros Hn Hx. unfold shlS. replace (n <? 64) with true by lia.
  rewrite Z.shiftl_mul_pow2 by lia. apply wrapS64_i.
  assert (2 ^ n <= 2 ^ 32) by (apply Z.pow_le_mono_r; lia).
  assert (0 < 2 ^ n) by (apply Z.pow_pos_nonneg; lia). nia.
Qed.

Lemma ownedString_id b : ownedString b = GOk b.
Proof.
  unfold ownedString. destruct b as [|x b]; [reflexivity|].
  replace (Z.eqb (go_len (x :: b)) 0) with false by (unfold go_len; cbn [length]; lia).
  unfold go_slice_data, go_unsafe_slice.
  replace ((0 <=? go_len (x :: b)) && (go_len (x :: b) <=? go_len (x :: b))) with true by (unfold go_len; lia).
  unfold go_len. rewrite Nat2Z.id, firstn_all. reflexivity.
Qed.

Lemma nth_skipn_hd (l : list Z) n : nth n l 0 = hd 0 (skipn n l).
Proof.
  revert l. induction n as [|n IH]; intros [|x l]; cbn [nth skipn hd]; try reflexivity. apply IH.
Qed.

(** ** decodeFloatItem (F4 / F8): bit patterns; an F4 element is widened to a float64 *)
Definition err_multiple_f : string := "invalid payload length %d for F%d item: not a multiple of %d".
Definition err_end_f : string := "unexpected end of data: F%d needs %d bytes, have %d".

Definition float_result (owned : list Z) (sp pos len : Z) (w : width) (r : res (item * list Z)) : Item * Z * goerror :=
  match r with
  | Err ErrMultiple => (Item_nil, pos, ErrNew err_multiple_f)
  | Err _ => (Item_nil, pos, ErrNew err_end_f)
  | Ok (IFloat _ us, _) =>
      (Item_FloatItem (Some (float_item_of w (map (fwiden w) us) (sub owned sp (pos + len)))), pos + len, ErrNil)
  | Ok _ => (Item_nil, pos, ErrNil)
  end.

Lemma bridge_decodeFloatItem owned sp pos w len slab :
  float_width w = true -> bytes_ok owned -> go_len owned < 2 ^ 62 -> 0 <= sp <= pos -> pos <= go_len owned -> 0 <= len < 2 ^ 31 ->
  decodeFloatItem owned sp pos (wz w) len slab =
  GOk (float_result owned sp pos len w (decode_num KFloat w len (skipn (Z.to_nat pos) owned))).
Proof.
  intros Hfw Hb Hlo Hsp Hpos Hlen. unfold decodeFloatItem, decode_num.
  assert (Wp : 1 <= wz w <= 8) by (destruct w; cbn; lia).
  unfold go_rem, go_quot. replace (wz w =? 0) with false by lia. cbn [gbind].
  unfold gorem, goquot. rewrite Z.rem_mod_nonneg, Z.quot_div_nonneg by lia.
  assert (M : 0 <= len mod wz w < wz w) by (apply Z.mod_pos_bound; lia).
  rewrite (wrapS64_id (len mod wz w)) by lia.
  destruct (negb (len mod wz w =? 0)) eqn:C1; [reflexivity|].
  rewrite (wrapS64_id (pos + len)) by lia.
  pose proof (skipn_length_z owned pos ltac:(lia)) as Lsk.
  destruct (pos + len >? go_len owned) eqn:C2.
  { rewrite split_at_short by (unfold go_len in *; lia). reflexivity. }
  rewrite split_at_firstn by lia. cbv zeta.
  set (p := firstn (Z.to_nat len) (skipn (Z.to_nat pos) owned)).
  assert (Lp : length p = Z.to_nat len) by (subst p; rewrite firstn_length; unfold go_len in *; lia).
  set (c := Z.to_nat (len / wz w)).
  assert (Dv : len = Z.of_nat c * wz w).
  { subst c. rewrite Z2Nat.id by (apply Z.div_pos; lia). pose proof (Z.div_mod len (wz w)). lia. }
  assert (Lpc : length p = (c * wnat w)%nat) by (rewrite Lp, Dv, wz_wnat; lia).
  unfold payload_elems. rewrite (elems_spec (wnat w) ltac:(destruct w; cbn; lia) c p (length p) Lpc)
    by (rewrite Lpc; destruct w; cbn [wnat]; nia).
  assert (Q : len / wz w = Z.of_nat c) by (subst c; rewrite Z2Nat.id by (apply Z.div_pos; lia); reflexivity).
  rewrite Q. rewrite (wrapS64_id (Z.of_nat c)) by nia.
  assert (Hraw : go_slice owned sp (pos + len) = GOk (sub owned sp (pos + len))) by (apply go_slice_ok; lia).
  assert (W32 : wrapU 32 (wz w) = wz w) by (unfold wrapU; apply Z.mod_small; change (2 ^ 32) with 4294967296; lia).
  assert (C32 : wrapS 32 (Z.of_nat c) = Z.of_nat c).
  { apply wrapS_id; [lia|]. unfold inS. change (32 - 1) with 31. nia. }
  assert (EP : forall i, (i < c)%nat ->
             be_dec (firstn (wnat w) (skipn (i * wnat w) p)) = elem owned pos (wnat w) i).
  { intros i Hi. subst p. apply elem_payload; [lia|]. rewrite Dv, wz_wnat. nia. }
  rewrite Hraw, W32, C32.
  destruct (Z.of_nat c =? 1) eqn:C3.
  - (* one element: the scalar fast path *)
    assert (c = 1%nat) as Hc1 by lia. rewrite Hc1 in *. cbn [seq map float_result float_item_of].
    rewrite EP by lia.
    destruct w; try discriminate Hfw; cbn [wz wnat Z.eqb Pos.eqb fwiden] in *.
    + rewrite (read_be_k owned pos 4 0 pos) by lia. cbn [go_deref gbind].
      rewrite setRaw_spec. reflexivity.
    + rewrite (read_be_k owned pos 8 0 pos) by lia. cbn [go_deref gbind].
      rewrite setRaw_spec. reflexivity.
  - (* zero or several elements: the slice path *)
    rewrite go_make_ok by lia. cbn [gbind].
    erewrite (fill_loop _ (fun i => fwiden w (elem owned pos (wnat w) i)) c).
    2:{ intros i done rest Hd Hi. subst i. cbv beta.
        assert (B1 : Z.of_nat (length done) * wz w + wz w <= len) by (rewrite Dv; nia).
        rewrite (wrapS64_id (Z.of_nat (length done) * wz w)) by nia.
        rewrite (wrapS64_id (pos + Z.of_nat (length done) * wz w)) by nia.
        destruct w; try discriminate Hfw; cbn [wz wnat Z.eqb Pos.eqb fwiden] in *.
        + rewrite (read_be_k owned pos 4 (length done)) by lia. rewrite set_at. reflexivity.
        + rewrite (read_be_k owned pos 8 (length done)) by lia. rewrite set_at. reflexivity. }
    cbn [loop_k go_deref gbind]. rewrite setRaw_spec. cbn [gbind go_deref float_result].
    rewrite (map_ext_in (fun i => be_dec (firstn (wnat w) (skipn (i * wnat w) p))) (elem owned pos (wnat w)) (seq 0 c))
      by (intros i Hi; apply in_seq in Hi; apply EP; lia).
    rewrite map_map.
    assert (ZL : zlen (map (fun i => fwiden w (elem owned pos (wnat w) i)) (seq 0 c)) = Z.of_nat c)
      by (unfold zlen; rewrite map_length, seq_length; reflexivity).
    unfold float_item_of. rewrite ZL.
    destruct c as [|[|c']]; [reflexivity|lia|reflexivity].
Qed.

Section Owned.
  Variable owned : list Z.
  Hypothesis Hbytes : bytes_ok owned.
  Variable slab : option decodeSlab.
  Local Notation L := (zlen owned).
  Hypothesis HL : L < 2 ^ 31.
  Local Notation sfx := (DecodeChkProofs.sfx owned).

  Lemma L_len : go_len owned = L.
  Proof. reflexivity. Qed.

  Lemma idx_ok p : 0 <= p < L ->
    exists b, go_index owned p = GOk b /\ sfx p = b :: sfx (p + 1) /\ 0 <= b < 256.
  Proof.
    intros Hp. destruct (get_ok owned p Hp) as [b [_ Sb]]. exists b.
    rewrite go_index_ok by (unfold go_len, zlen in *; lia).
    assert (N : nth (Z.to_nat p) owned 0 = b).
    { rewrite nth_skipn_hd. change (skipn (Z.to_nat p) owned) with (sfx p). rewrite Sb. reflexivity. }
    rewrite N. split; [reflexivity|]. split; [exact Sb|].
    assert (I : In b owned).
    { rewrite <- N. apply nth_In. unfold zlen in Hp. lia. }
    unfold bytes_ok in Hbytes. rewrite Forall_forall in Hbytes. exact (Hbytes b I).
  Qed.

  Lemma slice_ok lo hi : 0 <= lo <= hi -> hi <= L ->
    go_slice owned lo hi = GOk (firstn (Z.to_nat (hi - lo)) (sfx lo)).
  Proof. intros H1 H2. rewrite go_slice_ok by (try rewrite L_len; lia). reflexivity. Qed.

  (** the raw bytes kept by setRaw *)
  Lemma keep_raw {B : Type} sp p (b0 : baseItem) (K : option baseItem * unit -> gres B) :
    0 <= sp <= p -> p <= L -> b0 = mk_baseItem ErrNil None 0 ->
    gbind (go_slice owned sp p) (fun t => gbind (baseItem_setRaw (Some b0) t) K) =
    K (Some (raw_base (firstn (Z.to_nat (p - sp)) (sfx sp))), tt).
  Proof. intros H1 H2 ->. rewrite slice_ok by lia. cbn [gbind]. rewrite setRaw_spec. reflexivity. Qed.

  (** *** the leaf paths of decodeItem against decode_leaf *)
  Definition leaf_ok (fc sp pos len : Z) : Prop :=
    match decode_leaf fc len (sfx pos) with
    | Ok (y, rest) => exists it, leaf_go owned sp pos len fc slab = GOk (it, pos + len, ErrNil) /\ repr y it /\
                                 rest = sfx (pos + len) /\ pos + len <= L
    | Err e => e <> ErrFuel /\ exists p e', leaf_go owned sp pos len fc slab = GOk (Item_nil, p, e') /\ e' <> ErrNil
    end.

  Ltac end_check pos len :=
    rewrite ?(wrapS64_i (pos + len)) by lia; rewrite ?L_len.

  Lemma leaf_bytes_kinds fc sp pos len : 0 <= sp <= pos -> pos <= L -> 0 <= len < 2 ^ 24 ->
    fc = 16 \/ fc = 17 \/ fc = 8 -> leaf_ok fc sp pos len.
  Proof.
    intros Hsp Hp Hl Hfc. unfold leaf_ok, decode_leaf, fc_ascii, fc_jis8, fc_binary, leaf_go.
    destruct (Z_le_gt_dec (pos + len) L) as [Hin|Hout].
    - rewrite (split_sfx owned pos len) by lia.
      destruct Hfc as [ -> | [ -> | -> ] ]; cbn [Z.eqb Pos.eqb]; end_check pos len;
        (replace (Z.gtb (pos + len) L) with false by lia);
        rewrite (slice_ok pos (pos + len)) by lia; cbn [gbind]; rewrite ?ownedString_id; cbn [gbind go_deref];
        cbv zeta; cbn [go_deref gbind ASCIIItem_baseItem JIS8Item_baseItem BinaryItem_baseItem
                       set_ASCIIItem_value set_JIS8Item_value set_BinaryItem_values];
        replace (pos + len - pos) with len by lia.
      all: eexists; split; [|split; [|split; [reflexivity|lia]]].
      all: try (rewrite (keep_raw sp (pos + len)) by (try reflexivity; lia); reflexivity).
      all: cbn [repr]; eexists; reflexivity.
    - rewrite (split_sfx_none owned pos len) by lia.
      destruct Hfc as [ -> | [ -> | -> ] ]; cbn [Z.eqb Pos.eqb]; end_check pos len;
        (replace (Z.gtb (pos + len) L) with true by lia); (split; [discriminate|]); eexists _, _; (split; [reflexivity|discriminate]).
  Qed.

  Lemma num_result_ok k w sp pos len (o : gres (Item * Z * goerror)) :
    0 <= sp <= pos -> pos <= L -> 0 <= len < 2 ^ 24 ->
    (k = KInt -> o = GOk (int_result owned sp pos len w (decode_num KInt w len (sfx pos)))) ->
    (k = KUint -> o = GOk (uint_result owned sp pos len w (decode_num KUint w len (sfx pos)))) ->
    k <> KFloat ->
    match decode_num k w len (sfx pos) with
    | Ok (y, rest) => exists it, o = GOk (it, pos + len, ErrNil) /\ repr y it /\ rest = sfx (pos + len) /\ pos + len <= L
    | Err e => e <> ErrFuel /\ exists p e', o = GOk (Item_nil, p, e') /\ e' <> ErrNil
    end.
  Proof.
    intros Hsp Hp Hl HI HU HF.
    destruct k; [specialize (HI eq_refl); clear HU|specialize (HU eq_refl); clear HI|congruence].
    - subst o. unfold decode_num. destruct (negb (len mod wz w =? 0)).
      { split; [discriminate|]. eexists _, _. split; [reflexivity|discriminate]. }
      destruct (Z_le_gt_dec (pos + len) L) as [Hin|Hout].
      + rewrite (split_sfx owned pos len) by lia. eexists. split; [reflexivity|]. split; [|split; [reflexivity|lia]].
        cbn [repr]. eexists. reflexivity.
      + rewrite (split_sfx_none owned pos len) by lia. split; [discriminate|]. eexists _, _. split; [reflexivity|discriminate].
    - subst o. unfold decode_num. destruct (negb (len mod wz w =? 0)).
      { split; [discriminate|]. eexists _, _. split; [reflexivity|discriminate]. }
      destruct (Z_le_gt_dec (pos + len) L) as [Hin|Hout].
      + rewrite (split_sfx owned pos len) by lia. eexists. split; [reflexivity|]. split; [|split; [reflexivity|lia]].
        cbn [repr]. eexists. reflexivity.
      + rewrite (split_sfx_none owned pos len) by lia. split; [discriminate|]. eexists _, _. split; [reflexivity|discriminate].
  Qed.

  Lemma leaf_int_kinds w sp pos len : 0 <= sp <= pos -> pos <= L -> 0 <= len < 2 ^ 24 ->
    leaf_ok (fc_int w) sp pos len /\ leaf_ok (fc_uint w) sp pos len.
  Proof.
    intros Hsp Hp Hl.
    assert (HB : go_len owned < 2 ^ 62) by (rewrite L_len; lia).
    pose proof (bridge_decodeIntItem owned sp pos w len slab Hbytes HB Hsp ltac:(rewrite L_len; lia) ltac:(lia)) as BI.
    pose proof (bridge_decodeUintItem owned sp pos w len slab Hbytes HB Hsp ltac:(rewrite L_len; lia) ltac:(lia)) as BU.
    change (skipn (Z.to_nat pos) owned) with (sfx pos) in BI, BU.
    split; unfold leaf_ok.
    - rewrite leaf_int.
      assert (E : leaf_go owned sp pos len (fc_int w) slab = decodeIntItem owned sp pos (wz w) len slab).
      { destruct w; unfold leaf_go; cbn [fc_int wz Z.eqb Pos.eqb]; destruct (decodeIntItem owned sp pos _ len slab); reflexivity. }
      rewrite E. apply (num_result_ok KInt w sp pos len); try assumption; try discriminate; intros; assumption.
    - rewrite leaf_uint.
      assert (E : leaf_go owned sp pos len (fc_uint w) slab = decodeUintItem owned sp pos (wz w) len slab).
      { destruct w; unfold leaf_go; cbn [fc_uint wz Z.eqb Pos.eqb]; destruct (decodeUintItem owned sp pos _ len slab); reflexivity. }
      rewrite E. apply (num_result_ok KUint w sp pos len); try assumption; try discriminate; intros; assumption.
  Qed.

  Lemma leaf_float_kinds w sp pos len : float_width w = true -> 0 <= sp <= pos -> pos <= L -> 0 <= len < 2 ^ 24 ->
    leaf_ok (fc_float w) sp pos len.
  Proof.
    intros Hfw Hsp Hp Hl. unfold leaf_ok. rewrite leaf_float by exact Hfw.
    assert (HB : go_len owned < 2 ^ 62) by (rewrite L_len; lia).
    pose proof (bridge_decodeFloatItem owned sp pos w len slab Hfw Hbytes HB Hsp ltac:(rewrite L_len; lia) ltac:(lia)) as BF.
    change (skipn (Z.to_nat pos) owned) with (sfx pos) in BF.
    assert (E : leaf_go owned sp pos len (fc_float w) slab = decodeFloatItem owned sp pos (wz w) len slab).
    { destruct w; try discriminate Hfw; unfold leaf_go; cbn [fc_float wz Z.eqb Pos.eqb];
        destruct (decodeFloatItem owned sp pos _ len slab); reflexivity. }
    rewrite E, BF. unfold decode_num. destruct (negb (len mod wz w =? 0)).
    { split; [discriminate|]. eexists _, _. split; [reflexivity|discriminate]. }
    destruct (Z_le_gt_dec (pos + len) L) as [Hin|Hout].
    - rewrite (split_sfx owned pos len) by lia. eexists. split; [reflexivity|]. split; [|split; [reflexivity|lia]].
      cbn [repr]. eexists. reflexivity.
    - rewrite (split_sfx_none owned pos len) by lia. split; [discriminate|]. eexists _, _. split; [reflexivity|discriminate].
  Qed.

  (** the boolean leaf *)
  Lemma set_at_g {A : Type} (done rest : list A) x y :
    go_set_g (done ++ x :: rest) (Z.of_nat (length done)) y = GOk (done ++ y :: rest).
  Proof.
    unfold go_set_g.
    replace ((0 <=? Z.of_nat (length done)) && (Z.of_nat (length done) <? Z.of_nat (length (done ++ x :: rest)))) with true
      by (rewrite app_length; cbn [length]; lia).
    rewrite Nat2Z.id, firstn_app, firstn_all, Nat.sub_diag. cbn [firstn]. rewrite app_nil_r.
    replace (S (length done)) with (length done + 1)%nat by lia.
    rewrite skipn_app, skipn_all2 by lia. replace (length done + 1 - length done)%nat with 1%nat by lia. reflexivity.
  Qed.

  Lemma fill_loop_g {A R : Type} (d0 : A) (f : Z -> list A -> gres (lctl (list A) R)) (g : nat -> A) (c : nat) :
    (forall i done rest, length done = i -> (i < c)%nat ->
       f (Z.of_nat i) (done ++ d0 :: rest) = GOk (LNext (done ++ g i :: rest))) ->
    count_loop f 0 (Z.of_nat c) (repeat d0 c) = GOk (LDone (map g (seq 0 c))).
  Proof.
    intros Hf. unfold count_loop. rewrite Z.sub_0_r, Nat2Z.id.
    assert (G : forall n i done, length done = i -> (i + n = c)%nat ->
              count_loop_n f n (Z.of_nat i) (done ++ repeat d0 n) = GOk (LDone (done ++ map g (seq i n)))).
    { induction n as [|n IH]; intros i done Hd Hc; cbn [count_loop_n repeat seq map]; [reflexivity|].
      rewrite Hf by lia.
      replace (Z.of_nat i + 1) with (Z.of_nat (S i)) by lia.
      replace (done ++ g i :: repeat d0 n) with ((done ++ [g i]) ++ repeat d0 n) by (rewrite <- app_assoc; reflexivity).
      rewrite IH by (rewrite ?app_length; cbn [length]; lia). rewrite <- app_assoc. reflexivity. }
    exact (G c 0%nat [] eq_refl (Nat.add_0_l c)).
  Qed.

  Lemma firstn_seq_nth (l : list Z) c : (c <= length l)%nat -> firstn c l = map (fun i => nth i l 0) (seq 0 c).
  Proof.
    revert l. induction c as [|c IH]; intros l H; [reflexivity|].
    destruct l as [|x l]; [cbn [length] in H; lia|]. cbn [firstn seq map nth]. f_equal.
    rewrite <- seq_shift, map_map. cbn [nth]. apply IH. cbn [length] in H. lia.
  Qed.

  Lemma nth_sfx p i : nth i (sfx p) 0 = nth (Z.to_nat p + i) owned 0.
  Proof. unfold DecodeChkProofs.sfx. rewrite !nth_skipn_hd, skipn_skipn'. reflexivity. Qed.

  Lemma leaf_bool_kind sp pos len : 0 <= sp <= pos -> pos <= L -> 0 <= len < 2 ^ 24 -> leaf_ok 9 sp pos len.
  Proof.
    intros Hsp Hp Hl. unfold leaf_ok, decode_leaf, fc_ascii, fc_jis8, fc_binary, fc_boolean, leaf_go.
    cbn [Z.eqb Pos.eqb]. end_check pos len.
    destruct (Z_le_gt_dec (pos + len) L) as [Hin|Hout].
    2:{ rewrite (split_sfx_none owned pos len) by lia. replace (Z.gtb (pos + len) L) with true by lia.
        split; [discriminate|]. eexists _, _. split; [reflexivity|discriminate]. }
    rewrite (split_sfx owned pos len) by lia. replace (Z.gtb (pos + len) L) with false by lia.
    set (p := firstn (Z.to_nat len) (sfx pos)).
    assert (Lp : length p = Z.to_nat len).
    { subst p. rewrite firstn_length. pose proof (sfx_len owned pos ltac:(lia)) as SL. unfold zlen in *. lia. }
    destruct (len =? 1) eqn:C1.
    - (* one element: the scalar fast path *)
      replace (Z.eqb len 1) with true. assert (len = 1) by lia. subst len.
      destruct (idx_ok pos ltac:(lia)) as [b [Gb [Sb Rb]]]. rewrite Gb. cbn [gbind]. cbv zeta.
      rewrite (wrapS64_i (pos + 1)) by lia. cbn [go_deref gbind BooleanItem_baseItem set_BooleanItem_size set_BooleanItem_scalar].
      rewrite (keep_raw sp (pos + 1)) by (try reflexivity; lia).
      cbn [gbind go_deref]. eexists. split; [reflexivity|]. split; [|split; [reflexivity|lia]].
      subst p. change (Z.to_nat 1) with 1%nat. rewrite Sb; cbn [firstn map repr]. eexists. unfold bool_item_of, byte_bool. reflexivity.
    - replace (Z.eqb len 1) with false.
      unfold go_make_g. replace (len <? 0) with false by lia. cbn [gbind].
      match goal with |- context [count_loop ?f 0 len (repeat false (Z.to_nat len))] =>
        assert (FL : count_loop f 0 len (repeat false (Z.to_nat len)) =
                     GOk (LDone (map (fun i => byte_bool (nth (Z.to_nat pos + i) owned 0)) (seq 0 (Z.to_nat len))))) end.
      { rewrite <- (Z2Nat.id len) at 1 by lia. apply fill_loop_g.
        intros i done rest Hd Hi. subst i.
        rewrite (wrapS64_i (pos + Z.of_nat (length done))) by lia.
        destruct (idx_ok (pos + Z.of_nat (length done)) ltac:(lia)) as [b [Gb [Sb Rb]]]. rewrite Gb. cbn [gbind].
        rewrite set_at_g. cbn [gbind]. do 3 f_equal. unfold byte_bool. do 2 f_equal. symmetry.
        pose proof (nth_sfx (pos + Z.of_nat (length done)) 0) as N. rewrite Sb in N. cbn [nth] in N.
        rewrite N. replace (Z.to_nat (pos + Z.of_nat (length done)) + 0)%nat with (Z.to_nat pos + length done)%nat by lia. reflexivity. }
      rewrite FL.
      cbn [loop_k]. cbv zeta.
      cbn [go_deref gbind BooleanItem_baseItem].
      rewrite (keep_raw sp (pos + len)) by (try reflexivity; lia). cbn [gbind go_deref].
      eexists. split; [reflexivity|]. split; [|split; [reflexivity|lia]].
      cbn [repr]. eexists. unfold set_BooleanItem_baseItem.
      cbn [BooleanItem_size BooleanItem_scalar BooleanItem_values].
      assert (EM : map byte_bool p = map (fun i => byte_bool (nth (Z.to_nat pos + i) owned 0)) (seq 0 (Z.to_nat len))).
      { subst p. rewrite firstn_seq_nth by (pose proof (sfx_len owned pos ltac:(lia)) as SL; unfold zlen in *; lia).
        rewrite map_map. apply map_ext. intros i. rewrite nth_sfx. reflexivity. }
      rewrite <- EM.
      assert (W32 : wrapS 32 len = len) by (apply wrapS_id; [lia|]; unfold inS; change (32 - 1) with 31; lia).
      rewrite W32. unfold bool_item_of.
      assert (ZL : zlen (map byte_bool p) = len) by (unfold zlen; rewrite map_length; lia).
      destruct (map byte_bool p) as [|b0 [|b1 bs]] eqn:EB.
      + rewrite ZL. reflexivity.
      + exfalso. unfold zlen in ZL. cbn [length] in ZL. lia.
      + rewrite ZL. reflexivity.
  Qed.

  (** the localized-string leaf *)
  Lemma leaf_localized_kind sp pos len : 0 <= sp <= pos -> pos <= L -> 0 <= len < 2 ^ 24 -> leaf_ok 18 sp pos len.
  Proof.
    intros Hsp Hp Hl. unfold leaf_ok, decode_leaf, fc_ascii, fc_jis8, fc_binary, fc_boolean, fc_localized, leaf_go.
    cbn [Z.eqb Pos.eqb]. end_check pos len.
    destruct (len <? 2) eqn:C2.
    { replace (Z.ltb len 2) with true. split; [discriminate|]. eexists _, _. split; [reflexivity|discriminate]. }
    replace (Z.ltb len 2) with false.
    destruct (Z_le_gt_dec (pos + len) L) as [Hin|Hout].
    2:{ rewrite (split_sfx_none owned pos len) by lia. replace (Z.gtb (pos + len) L) with true by lia.
        split; [discriminate|]. eexists _, _. split; [reflexivity|discriminate]. }
    rewrite (split_sfx owned pos len) by lia. replace (Z.gtb (pos + len) L) with false by lia.
    destruct (idx_ok pos ltac:(lia)) as [b0 [G0 [S0 R0]]]. rewrite G0. cbn [gbind].
    rewrite (wrapS64_i (pos + 1)) by lia.
    destruct (idx_ok (pos + 1) ltac:(lia)) as [b1 [G1 [S1 R1]]]. rewrite G1. cbn [gbind]. cbv zeta.
    rewrite (wrapS64_i (pos + 2)) by lia.
    rewrite (slice_ok (pos + 2) (pos + len)) by lia. cbn [gbind]. rewrite ownedString_id. cbn [gbind go_deref].
    cbn [go_deref gbind LocalizedStrItem_baseItem set_LocalizedStrItem_lsh set_LocalizedStrItem_value].
    rewrite (keep_raw sp (pos + len)) by (try reflexivity; lia). cbn [gbind go_deref].
    eexists. split; [reflexivity|]. split; [|split; [reflexivity|lia]].
    cbn [repr]. eexists. unfold set_LocalizedStrItem_baseItem.
    cbn [LocalizedStrItem_lsh LocalizedStrItem_value].
    assert (E1 : be_dec (firstn 2 (firstn (Z.to_nat len) (sfx pos))) = Z.lor (shlU 16 (wrapU 16 b0) 8) (wrapU 16 b1)).
    { rewrite S0. replace (pos + 1 + 1) with (pos + 2) in S1 by lia. rewrite S1.
      replace (Z.to_nat len) with (S (S (Z.to_nat (len - 2)))) by lia. cbn [firstn]. unfold be_dec. cbn [fold_left].
      unfold byte_ok in R0, R1.
      rewrite !wrapU_id by (unfold inU; change (2 ^ 16) with 65536; lia).
      unfold shlU. change (8 <? 16) with true. cbv iota. rewrite Z.shiftl_mul_pow2 by lia.
      rewrite wrapU_id by (unfold inU; change (2 ^ 16) with 65536; change (2 ^ 8) with 256; lia).
      rewrite lor_shift by (change (2 ^ 8) with 256; lia). change (2 ^ 8) with 256. lia. }
    assert (E2 : skipn 2 (firstn (Z.to_nat len) (sfx pos)) = firstn (Z.to_nat (pos + len - (pos + 2))) (sfx (pos + 2))).
    { rewrite S0. replace (pos + 1 + 1) with (pos + 2) in S1 by lia. rewrite S1.
      replace (Z.to_nat len) with (S (S (Z.to_nat (len - 2)))) by lia. cbn [firstn skipn].
      f_equal. lia. }
    rewrite E1, E2. reflexivity.
  Qed.

  Definition known_fc (fc : Z) : bool :=
    (fc =? 16) || (fc =? 17) || (fc =? 8) || (fc =? 9) || (fc =? 18) ||
    (fc =? 25) || (fc =? 26) || (fc =? 28) || (fc =? 24) ||
    (fc =? 41) || (fc =? 42) || (fc =? 44) || (fc =? 40) || (fc =? 36) || (fc =? 32).

  Lemma leaf_unknown_kind fc sp pos len : known_fc fc = false -> leaf_ok fc sp pos len.
  Proof.
    unfold known_fc. intros H. repeat (apply orb_false_elim in H; destruct H as [H ?]).
    unfold leaf_ok, decode_leaf, fc_ascii, fc_jis8, fc_binary, fc_boolean, fc_localized, leaf_go.
    cbn [fc_int fc_uint fc_float].
    repeat match goal with E : (fc =? _) = false |- _ => rewrite !E; clear E end.
    split; [discriminate|]. eexists _, _. split; [reflexivity|discriminate].
  Qed.

  Lemma leaf_all fc sp pos len : 0 <= sp <= pos -> pos <= L -> 0 <= len < 2 ^ 24 -> leaf_ok fc sp pos len.
  Proof.
    intros Hsp Hp Hl. destruct (known_fc fc) eqn:K; [|exact (leaf_unknown_kind fc sp pos len K)].
    unfold known_fc in K.
    repeat (apply orb_true_elim in K; destruct K as [K|K]); apply Z.eqb_eq in K; subst fc.
    - apply leaf_bytes_kinds; auto.
    - apply leaf_bytes_kinds; auto.
    - apply leaf_bytes_kinds; auto.
    - apply leaf_bool_kind; auto.
    - apply leaf_localized_kind; auto.
    - exact (proj1 (leaf_int_kinds W1 sp pos len Hsp Hp Hl)).
    - exact (proj1 (leaf_int_kinds W2 sp pos len Hsp Hp Hl)).
    - exact (proj1 (leaf_int_kinds W4 sp pos len Hsp Hp Hl)).
    - exact (proj1 (leaf_int_kinds W8 sp pos len Hsp Hp Hl)).
    - exact (proj2 (leaf_int_kinds W1 sp pos len Hsp Hp Hl)).
    - exact (proj2 (leaf_int_kinds W2 sp pos len Hsp Hp Hl)).
    - exact (proj2 (leaf_int_kinds W4 sp pos len Hsp Hp Hl)).
    - exact (proj2 (leaf_int_kinds W8 sp pos len Hsp Hp Hl)).
    - exact (leaf_float_kinds W4 sp pos len eq_refl Hsp Hp Hl).
    - exact (leaf_float_kinds W8 sp pos len eq_refl Hsp Hp Hl).
  Qed.

  (** *** one unfolding of decodeItem: the header walk in closed form *)
  Definition hdr_err1 : string := "unexpected end of data: need format byte".
  Definition hdr_err2 : string := "invalid item header: length-byte count is zero".
  Definition hdr_err3 : string := "unexpected end of data: need %d length bytes, have %d".

  Lemma firstn_sfx_1 p b : sfx p = b :: sfx (p + 1) -> firstn 1 (sfx p) = [b].
  Proof. intros ->. reflexivity. Qed.

  Lemma decodeItem_S gf pos d : 0 <= pos <= L ->
    decodeItem (S gf) owned pos d slab =
    if pos >=? L then GOk (Item_nil, pos, ErrNew hdr_err1)
    else match sfx pos with
         | [] => GPanic
         | fb :: _ =>
             let nl := fb mod 4 in
             if nl =? 0 then GOk (Item_nil, pos + 1, ErrNew hdr_err2)
             else if pos + 1 + nl >? L then GOk (Item_nil, pos + 1, ErrNew hdr_err3)
             else let len := be_dec (firstn (Z.to_nat nl) (sfx (pos + 1))) in
                  if fb / 4 =? 0 then list_go gf owned pos (pos + 1 + nl) len d slab
                  else leaf_go owned pos (pos + 1 + nl) len (fb / 4) slab
         end.
  Proof.
    intros Hp. cbn [decodeItem]. cbv zeta. rewrite L_len.
    destruct (pos >=? L) eqn:C0.
    { replace (Z.geb pos L) with true. reflexivity. }
    replace (Z.geb pos L) with false.
    destruct (idx_ok pos ltac:(lia)) as [fb [Gfb [Sfb Rfb]]]. rewrite Gfb, Sfb. cbn [gbind].
    rewrite (wrapS64_i (pos + 1)) by lia.
    assert (Enl : wrapS 64 (Z.land fb 3) = fb mod 4).
    { change 3 with (Z.ones 2). rewrite Z.land_ones by lia. change (2 ^ 2) with 4. apply wrapS64_i.
      Z.div_mod_to_equations; lia. }
    assert (Efc : wrapU 8 (shrU 8 fb 2) = fb / 4).
    { unfold shrU. cbn [Z.ltb Z.compare Pos.compare Pos.compare_cont]. rewrite Z.shiftr_div_pow2 by lia.
      change (2 ^ 2) with 4. unfold wrapU. change (2 ^ 8) with 256. apply Z.mod_small. Z.div_mod_to_equations; lia. }
    rewrite Enl, Efc.
    assert (Hnl : 0 <= fb mod 4 <= 3) by (Z.div_mod_to_equations; lia).
    destruct (fb mod 4 =? 0) eqn:C1.
    { replace (Z.eqb (fb mod 4) 0) with true. reflexivity. }
    replace (Z.eqb (fb mod 4) 0) with false.
    rewrite (wrapS64_i (pos + 1 + fb mod 4)) by lia.
    destruct (pos + 1 + fb mod 4 >? L) eqn:C2.
    { replace (Z.gtb (pos + 1 + fb mod 4) L) with true. reflexivity. }
    replace (Z.gtb (pos + 1 + fb mod 4) L) with false.
    (* the length bytes *)
    destruct (idx_ok (pos + 1) ltac:(lia)) as [b1 [G1 [S1 R1]]].
    assert (LEN : (if Z.eqb (fb mod 4) 1
                   then gbind (go_index owned (pos + 1)) (fun t_3 => GOk (wrapS 64 t_3))
                   else if Z.eqb (fb mod 4) 2
                        then gbind (go_index owned (pos + 1)) (fun t_4 =>
                             gbind (go_index owned (wrapS 64 (pos + 1 + 1))) (fun t_5 =>
                             GOk (Z.lor (shlS 64 (wrapS 64 t_4) 8) (wrapS 64 t_5))))
                        else if Z.eqb (fb mod 4) 3
                             then gbind (go_index owned (pos + 1)) (fun t_6 =>
                                  gbind (go_index owned (wrapS 64 (pos + 1 + 1))) (fun t_7 =>
                                  gbind (go_index owned (wrapS 64 (pos + 1 + 2))) (fun t_8 =>
                                  GOk (Z.lor (Z.lor (shlS 64 (wrapS 64 t_6) 16) (shlS 64 (wrapS 64 t_7) 8)) (wrapS 64 t_8)))))
                             else GOk 0)
                  = GOk (be_dec (firstn (Z.to_nat (fb mod 4)) (sfx (pos + 1))))).
    { assert (fb mod 4 = 1 \/ fb mod 4 = 2 \/ fb mod 4 = 3) as [E|[E|E]] by lia; rewrite E.
      - cbn [Z.eqb Pos.eqb]. rewrite G1. cbn [gbind]. rewrite wrapS64_i by lia.
        change (Z.to_nat 1) with 1%nat. rewrite (firstn_sfx_1 _ _ S1), be_dec_1. reflexivity.
      - cbn [Z.eqb Pos.eqb]. rewrite G1. cbn [gbind]. rewrite (wrapS64_i (pos + 1 + 1)) by lia.
        destruct (idx_ok (pos + 1 + 1) ltac:(lia)) as [b2 [G2 [S2 R2]]]. rewrite G2. cbn [gbind].
        rewrite !wrapS64_i by lia. rewrite shlS64 by (change (2 ^ 16) with 65536; lia).
        rewrite (lor_shift b1 b2 8) by (change (2 ^ 8) with 256; lia). change (2 ^ 8) with 256.
        rewrite S1, S2. change (Z.to_nat 2) with 2%nat. cbn [firstn]. rewrite be_dec_2. reflexivity.
      - cbn [Z.eqb Pos.eqb]. rewrite G1. cbn [gbind]. rewrite (wrapS64_i (pos + 1 + 1)), (wrapS64_i (pos + 1 + 2)) by lia.
        destruct (idx_ok (pos + 1 + 1) ltac:(lia)) as [b2 [G2 [S2 R2]]]. rewrite G2. cbn [gbind].
        destruct (idx_ok (pos + 1 + 2) ltac:(lia)) as [b3 [G3 [S3 R3]]]. rewrite G3. cbn [gbind].
        rewrite !wrapS64_i by lia. rewrite !shlS64 by (change (2 ^ 16) with 65536; lia).
        rewrite (lor_shift b1 (b2 * 2 ^ 8) 16) by (change (2 ^ 16) with 65536; change (2 ^ 8) with 256; lia).
        change (2 ^ 16) with 65536. change (2 ^ 8) with 256.
        replace (b1 * 65536 + b2 * 256) with ((b1 * 256 + b2) * 2 ^ 8) by (change (2 ^ 8) with 256; lia).
        rewrite (lor_shift (b1 * 256 + b2) b3 8) by (change (2 ^ 8) with 256; lia). change (2 ^ 8) with 256.
        replace (pos + 1 + 1 + 1) with (pos + 1 + 2) in S2 by lia.
        rewrite S1, S2, S3. change (Z.to_nat 3) with 3%nat. cbn [firstn]. rewrite be_dec_3. f_equal. lia. }
    match goal with
    | |- gbind ?X ?K = _ => transitivity (gbind (GOk (be_dec (firstn (Z.to_nat (fb mod 4)) (sfx (pos + 1))))) K)
    end.
    { f_equal. rewrite <- LEN. cbv zeta.
      destruct (Z.eqb (fb mod 4) 1); [destruct (go_index owned (pos + 1)); reflexivity|].
      destruct (Z.eqb (fb mod 4) 2); [destruct (go_index owned (pos + 1)); [|reflexivity]; cbn [gbind];
                                      destruct (go_index owned (wrapS 64 (pos + 1 + 1))); reflexivity|].
      destruct (Z.eqb (fb mod 4) 3); [|reflexivity].
      destruct (go_index owned (pos + 1)); [|reflexivity]; cbn [gbind].
      destruct (go_index owned (wrapS 64 (pos + 1 + 1))); [|reflexivity]; cbn [gbind].
      destruct (go_index owned (wrapS 64 (pos + 1 + 2))); reflexivity. }
    cbn [gbind]. cbv zeta.
    destruct (fb / 4 =? 0) eqn:CF.
    - replace (Z.eqb (fb / 4) 0) with true. reflexivity.
    - replace (Z.eqb (fb / 4) 0) with false. reflexivity.
  Qed.

  (** *** the recursion: decodeItem against decode_item, the child loop against decode_children *)
  Lemma Hleaf : forall fc sp pos len,
    0 <= sp <= pos -> pos <= L -> 0 <= len < 2 ^ 24 -> 1 <= fc < 64 -> leaf_ok fc sp pos len.
  Proof. intros; apply leaf_all; assumption. Qed.

  Definition item_ok (r : res (item * list Z)) (pos : Z) (o : gres (Item * Z * goerror)) : Prop :=
    match r with
    | Ok (y, rest) => exists pos' it, pos <= pos' <= L /\ rest = sfx pos' /\ o = GOk (it, pos', ErrNil) /\ repr y it
    | Err e => e = ErrFuel \/ exists p e', o = GOk (Item_nil, p, e') /\ e' <> ErrNil
    end.

  Definition children_ok (r : res (list item * list Z)) (pos : Z) (acc : list Item)
             (o : gres (lres (Z * list Item) (Item * Z * goerror))) : Prop :=
    match r with
    | Ok (cs, rest) => exists pos' its, pos <= pos' <= L /\ rest = sfx pos' /\ repr_all cs its /\
                                        o = GOk (LDone (pos', acc ++ its))
    | Err e => e = ErrFuel \/ exists p e', o = GOk (LRetd (Item_nil, p, e')) /\ e' <> ErrNil
    end.

  Lemma be_dec_len_range nl p : 0 <= nl <= 3 -> 0 <= be_dec (firstn (Z.to_nat nl) (sfx p)) < 2 ^ 24.
  Proof.
    intros H. pose proof (be_dec_range (firstn (Z.to_nat nl) (sfx p)) (sub_bytes_ok owned Hbytes _ _)) as R.
    assert (P : pow256 (length (firstn (Z.to_nat nl) (sfx p))) <= 2 ^ 24).
    { unfold pow256. change (2 ^ 24) with (256 ^ 3). apply Z.pow_le_mono_r; [lia|]. rewrite firstn_length. lia. }
    lia.
  Qed.

  Lemma child_body_eq gf d i pos acc :
    child_body gf owned d slab i (pos, acc) =
    gbind (decodeItem gf owned pos d slab) (fun t =>
      let '(child, newPos, err) := t in
      if negb (goerr_is_nil err) then GOk (LRet (Item_nil, pos, err)) else GOk (LNext (newPos, acc ++ [child]))).
  Proof. reflexivity. Qed.

  Lemma gen_agrees_both mf :
    (forall pos d gf, 0 <= pos <= L -> 0 <= d <= 64 -> (Z.to_nat (65 - d) <= gf)%nat ->
       item_ok (decode_item mf d (sfx pos)) pos (decodeItem gf owned pos d slab)) /\
    (forall pos d n gf acc i, 0 <= pos <= L -> 1 <= d <= 64 -> (Z.to_nat (65 - d) <= gf)%nat ->
       children_ok (decode_children mf d n (sfx pos)) pos acc
                   (count_loop_n (child_body gf owned d slab) (Z.to_nat n) i (pos, acc))).
  Proof.
    induction mf as [|f [IHi IHc]]; [split; intros; left; reflexivity|]. split.
    - intros pos d gf Hp Hd Hg. destruct gf as [|gf]; [lia|].
      rewrite decodeItem_S by exact Hp. cbn [decode_item]. unfold item_ok.
      destruct (pos >=? L) eqn:C0.
      { assert (pos = L) by lia. subst pos.
        assert (E : sfx L = []).
        { pose proof (sfx_len owned L ltac:(lia)) as E. destruct (sfx L); [reflexivity|]. rewrite zlen_cons in E.
          pose proof (zlen_nonneg l). lia. }
        rewrite E. right. eexists _, _. split; [reflexivity|discriminate]. }
      destruct (idx_ok pos ltac:(lia)) as [fb [_ [Sfb Rfb]]]. rewrite Sfb. cbv zeta.
      assert (Hnl : 0 <= fb mod 4 <= 3) by (Z.div_mod_to_equations; lia).
      destruct (fb mod 4 =? 0) eqn:C1.
      { right. eexists _, _. split; [reflexivity|discriminate]. }
      destruct (pos + 1 + fb mod 4 >? L) eqn:C2.
      { rewrite (split_sfx_none owned (pos + 1) (fb mod 4)) by lia. right. eexists _, _. split; [reflexivity|discriminate]. }
      rewrite (split_sfx owned (pos + 1) (fb mod 4)) by lia.
      set (len := be_dec (firstn (Z.to_nat (fb mod 4)) (sfx (pos + 1)))).
      pose proof (be_dec_len_range (fb mod 4) (pos + 1) Hnl) as Rlen. fold len in Rlen.
      replace (pos + 1 + fb mod 4) with (pos + 1 + fb mod 4) by reflexivity.
      set (pos2 := pos + 1 + fb mod 4) in *.
      assert (Hfc : 0 <= fb / 4 < 64) by (Z.div_mod_to_equations; lia).
      unfold fc_list. destruct (fb / 4 =? 0) eqn:CF.
      + (* a list *)
        unfold list_go. cbv zeta. rewrite (wrapS64_i (d + 1)) by lia. unfold max_depth.
        destruct (d + 1 >? 64) eqn:CD.
        { replace (Z.gtb (d + 1) 64) with true. right. eexists _, _. split; [reflexivity|discriminate]. }
        replace (Z.gtb (d + 1) 64) with false.
        rewrite has_len_spec. fold (zlen (sfx pos2)). rewrite (sfx_len owned pos2) by (unfold pos2; lia).
        rewrite (wrapS64_i (len * 2)), L_len, (wrapS64_i (L - pos2)) by (unfold pos2; lia).
        destruct (len * 2 <=? L - pos2) eqn:CC.
        2:{ replace (Z.gtb (len * 2) (L - pos2)) with true by lia. cbn [negb]. right. eexists _, _. split; [reflexivity|discriminate]. }
        replace (Z.gtb (len * 2) (L - pos2)) with false by lia. cbn [negb].
        replace (len <? 0) with false by lia. cbn [gbind].
        change (count_loop (R := (Item * Z * goerror)%type) _ 0 len (pos2, []))
          with (count_loop_n (child_body gf owned (d + 1) slab) (Z.to_nat (len - 0)) 0 (pos2, [])).
        rewrite Z.sub_0_r.
        specialize (IHc pos2 (d + 1) len gf [] 0 ltac:(unfold pos2; lia) ltac:(lia) ltac:(lia)).
        unfold children_ok in IHc.
        destruct (decode_children f (d + 1) len (sfx pos2)) as [[cs r3]|e].
        * destruct IHc as [pos3 [its [H3 [-> [Hr HC]]]]]. rewrite HC. cbn [loop_k app].
          cbn [go_deref gbind ListItem_baseItem].
          rewrite (keep_raw pos pos3) by (try reflexivity; unfold pos2 in *; lia).
          cbn [gbind go_deref set_ListItem_baseItem ListItem_values ListItem_clean].
          exists pos3, (Item_ListItem (Some (mk_ListItem (raw_base (firstn (Z.to_nat (pos3 - pos)) (sfx pos))) its true))).
          split; [unfold pos2 in *; lia|]. split; [reflexivity|]. split; [reflexivity|]. apply repr_list. exact Hr.
        * destruct IHc as [->|[p [e' [HC He']]]]; [left; reflexivity|]. rewrite HC. cbn [loop_k].
          right. eexists _, _. split; [reflexivity|exact He'].
      + (* a leaf *)
        pose proof (Hleaf (fb / 4) pos pos2 len ltac:(unfold pos2; lia) ltac:(unfold pos2; lia) Rlen ltac:(lia)) as HLf.
        unfold leaf_ok in HLf.
        destruct (decode_leaf (fb / 4) len (sfx pos2)) as [[y rest]|e].
        * destruct HLf as [it [HG [Hr [-> Hle]]]]. exists (pos2 + len), it.
          split; [unfold pos2 in *; lia|]. split; [reflexivity|]. split; [exact HG|exact Hr].
        * destruct HLf as [_ [p [e' [HG He']]]]. right. exists p, e'. split; [exact HG|exact He'].
    - intros pos d n gf acc i Hp Hd Hg. cbn [decode_children]. unfold children_ok.
      destruct (n <=? 0) eqn:Cn.
      { replace (Z.to_nat n) with 0%nat by lia. cbn [count_loop_n]. exists pos, []. rewrite app_nil_r.
        split; [lia|]. split; [reflexivity|]. split; [exact I|reflexivity]. }
      replace (Z.to_nat n) with (S (Z.to_nat (n - 1))) by lia. cbn [count_loop_n].
      rewrite child_body_eq.
      specialize (IHi pos d gf Hp ltac:(lia) Hg). unfold item_ok in IHi.
      destruct (decode_item f d (sfx pos)) as [[c r]|e].
      + destruct IHi as [pos1 [it [H1 [-> [HG Hr]]]]]. rewrite HG. cbn [gbind goerr_is_nil negb].
        specialize (IHc pos1 d (n - 1) gf (acc ++ [it]) (i + 1) ltac:(lia) Hd Hg). unfold children_ok in IHc.
        destruct (decode_children f d (n - 1) (sfx pos1)) as [[cs r']|e].
        * destruct IHc as [pos2 [its [H2 [-> [Hrs HC]]]]]. rewrite HC.
          exists pos2, (it :: its). split; [lia|]. split; [reflexivity|]. split; [split; assumption|].
          rewrite <- app_assoc. reflexivity.
        * destruct IHc as [->|[p [e' [HC He']]]]; [left; reflexivity|]. right. exists p, e'. split; [exact HC|exact He'].
      + destruct IHi as [->|[p [e' [HG He']]]]; [left; reflexivity|]. rewrite HG. cbn [gbind].
        replace (negb (goerr_is_nil e')) with true by (destruct e'; [congruence|reflexivity|reflexivity]).
        right. eexists _, _. split; [reflexivity|exact He'].
  Qed.
End Owned.

(** * The regenerated decodeItem against Secs2/Decode.v, for every buffer

    For every byte buffer (shorter than 2^31), every start position, every
    slab and every Go-side fuel of at least 65 - depth, the regenerated
    decodeItem does not panic and
      - when the model decodes an item tree [y] leaving [rest], the Go code
        returns (it, pos', nil) with [rest] = the buffer from pos' and
        [repr y it] (same tree, same leaf values, floats as bit patterns);
      - when the model refuses, the Go code returns a nil item and a
        non-nil error.
    The model's own fuel is the one [decode] uses, so [ErrFuel] is excluded
    by [decode_nofuel]. *)
Theorem bridge_decodeItem_at owned slab pos gf :
  bytes_ok owned -> zlen owned < 2 ^ 31 -> 0 <= pos <= zlen owned -> (65 <= gf)%nat ->
  match decode_item (S (length (DecodeChkProofs.sfx owned pos))) 0 (DecodeChkProofs.sfx owned pos) with
  | Ok (y, rest) => exists pos' it, pos <= pos' <= zlen owned /\ rest = DecodeChkProofs.sfx owned pos' /\
                                    decodeItem gf owned pos 0 slab = GOk (it, pos', ErrNil) /\ repr y it
  | Err e => exists p e', decodeItem gf owned pos 0 slab = GOk (Item_nil, p, e') /\ e' <> ErrNil
  end.
Proof.
  intros Hb HL Hp Hg.
  pose proof (proj1 (gen_agrees_both owned Hb slab HL (S (length (DecodeChkProofs.sfx owned pos)))) pos 0 gf Hp ltac:(lia)
                    ltac:(change (Z.to_nat (65 - 0)) with 65%nat; exact Hg)) as A.
  pose proof (proj1 (decode_nofuel (S (length (DecodeChkProofs.sfx owned pos)))) 0 (DecodeChkProofs.sfx owned pos) ltac:(lia)) as NF.
  unfold item_ok in A.
  destruct (decode_item (S (length (DecodeChkProofs.sfx owned pos))) 0 (DecodeChkProofs.sfx owned pos)) as [[y rest]|e].
  - exact A.
  - destruct A as [->|A]; [congruence|exact A].
Qed.

(** the whole-buffer form: [Secs2/Decode.decode] on a non-empty buffer *)
Theorem bridge_decodeItem owned slab gf :
  bytes_ok owned -> zlen owned < 2 ^ 31 -> owned <> [] -> (65 <= gf)%nat ->
  match decode owned with
  | Ok (y, rest) => exists pos' it, 0 <= pos' <= zlen owned /\ rest = skipn (Z.to_nat pos') owned /\
                                    decodeItem gf owned 0 0 slab = GOk (it, pos', ErrNil) /\ repr y it
  | Err e => exists p e', decodeItem gf owned 0 0 slab = GOk (Item_nil, p, e') /\ e' <> ErrNil
  end.
Proof.
  intros Hb HL Hne Hg.
  pose proof (bridge_decodeItem_at owned slab 0 gf Hb HL ltac:(pose proof (zlen_nonneg owned); lia) Hg) as A.
  change (DecodeChkProofs.sfx owned 0) with owned in A.
  unfold decode. destruct owned as [|b t]; [congruence|]. exact A.
Qed.

(** never a panic, whatever the buffer *)
Corollary decodeItem_no_panic owned slab gf :
  bytes_ok owned -> zlen owned < 2 ^ 31 -> owned <> [] -> (65 <= gf)%nat ->
  decodeItem gf owned 0 0 slab <> GPanic.
Proof.
  intros Hb HL Hne Hg. pose proof (bridge_decodeItem owned slab gf Hb HL Hne Hg) as A.
  destruct (decode owned) as [[y rest]|e].
  - destruct A as [p [it [_ [_ [E _]]]]]. rewrite E. discriminate.
  - destruct A as [p [e' [E _]]]. rewrite E. discriminate.
Qed.
