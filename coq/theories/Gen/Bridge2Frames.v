(** Bridge (translator v2): the HSMS header / framing functions REGENERATED from hsms/control_msg.go,
    data_msg.go, id_gen.go, message.go and connection_runtime.go into [Gen/Gen2.v] equal the
    hand-written model of Hsms/Header.v and Hsms/Frame.v: the accessors, the functions that write
    the ten header bytes ([New*Req], [New*Rsp], [With*]), the 4-byte length prefix ([ToBytes]), the
    System Bytes conversions and the reply discriminator [isSecondaryReply].

    A Go [*ControlMessage] / [*DataMessage] is [option]: [None] is the nil pointer (every function
    here answers [GPanic] on it, as Go does); the lemmas are about non-nil receivers. [wire.Body]
    is modelled as its encoded bytes (see translator/targets2_hsms.go). *)
From Coq Require Import String.
From Coq Require Import ZArith Bool List Lia ZifyBool.
From GoSecs Require Import Base.GoInt Base.BytesBE Base.GoSlice Gen.Gen2 Hsms.Header Hsms.Frame.
Import ListNotations.
Open Scope Z_scope.

(** ** correspondence of values *)
Definition sbl (sb : Z * Z * Z * Z) : list Z := let '(a, b, c, d) := sb in [a; b; c; d].

Definition cm_of (c : cmsg) : option Gen2.hsms.ControlMessage :=
  Some (Gen2.hsms.mk_ControlMessage (hdr_bytes (c_hdr c)) (c_reply c)).

Definition dm_of (d : dmsg) (dec : option Gen2.hsms.decodeState) : option Gen2.hsms.DataMessage :=
  Some (Gen2.hsms.mk_DataMessage (hdr_bytes (d_hdr d)) (d_body d) dec).

(** ** big-endian facts *)
Lemma be_enc_2 v : be_enc 2 v = [(v / 256) mod 256; v mod 256].
Proof. unfold be_enc. change 2%nat with (S (S O)). rewrite !le_enc_S. reflexivity. Qed.

Lemma be_enc_4 v :
  be_enc 4 v = [(v / 16777216) mod 256; (v / 65536) mod 256; (v / 256) mod 256; v mod 256].
Proof.
  unfold be_enc. change 4%nat with (S (S (S (S O)))). rewrite !le_enc_S. cbn [le_enc rev app].
  rewrite !Z.div_div by lia. reflexivity.
Qed.

Lemma be_put_2 a b v : be_put 2 [a; b] v = GOk [(v / 256) mod 256; v mod 256].
Proof. unfold be_put. replace (go_len [a; b] <? Z.of_nat 2) with false by reflexivity. rewrite be_enc_2. reflexivity. Qed.

Lemma be_put_4 a b c d v :
  be_put 4 [a; b; c; d] v = GOk [(v / 16777216) mod 256; (v / 65536) mod 256; (v / 256) mod 256; v mod 256].
Proof. unfold be_put. replace (go_len [a; b; c; d] <? Z.of_nat 4) with false by reflexivity. rewrite be_enc_4. reflexivity. Qed.

Lemma be_get_2 a b : be_get 2 [a; b] = GOk (de16 a b).
Proof.
  unfold be_get. replace (go_len [a; b] <? Z.of_nat 2) with false by reflexivity.
  cbn [firstn]. rewrite be_dec_2. reflexivity.
Qed.

Lemma be_get_4 a b c d : be_get 4 [a; b; c; d] = GOk (de32 a b c d).
Proof.
  unfold be_get. replace (go_len [a; b; c; d] <? Z.of_nat 4) with false by reflexivity.
  cbn [firstn]. unfold be_dec, de32. cbn [fold_left]. f_equal; lia.
Qed.

(** ** message.go / id_gen.go *)
Lemma bridge_IsValidSType b : 0 <= b < 256 -> Gen2.hsms.IsValidSType b = GOk (valid_stype b).
Proof.
  intros H.
  assert (A : allb_upto 256 (fun b => match Gen2.hsms.IsValidSType b with
                                      | GOk r => Bool.eqb r (valid_stype b) | GPanic => false end) = true)
    by (vm_compute; reflexivity).
  apply (allb_upto_spec _ _ A) in H.
  destruct (Gen2.hsms.IsValidSType b) as [r|]; [|discriminate]. apply Bool.eqb_prop in H. congruence.
Qed.

Lemma bridge_ToSystemBytes id : Gen2.hsms.ToSystemBytes id = GOk (sbl (to_system_bytes id)).
Proof.
  unfold Gen2.hsms.ToSystemBytes. change (go_zeros 4) with [0; 0; 0; 0].
  rewrite be_put_4. reflexivity.
Qed.

Lemma bridge_FromSystemBytes sb : Gen2.hsms.FromSystemBytes (sbl sb) = GOk (from_system_bytes sb).
Proof. destruct sb as [[[a b] c] d]. unfold Gen2.hsms.FromSystemBytes, sbl. rewrite be_get_4. reflexivity. Qed.

(** ** control_msg.go: accessors *)
Lemma bridge_ControlMessage_Type c : 0 <= h5 (c_hdr c) < 256 ->
  Gen2.hsms.ControlMessage_Type (cm_of c) = GOk (ctrl_type c).
Proof.
  destruct c as [[a0 a1 a2 a3 a4 a5 a6 a7 a8 a9] r]. cbn [c_hdr h5]. intros H.
  unfold Gen2.hsms.ControlMessage_Type, cm_of, ctrl_type. cbn [go_deref gbind c_hdr h5 hdr_bytes c_reply].
  change (arr_get _ 5) with a5. cbv zeta.
  rewrite bridge_IsValidSType by exact H. cbn [gbind].
  destruct (valid_stype a5); [|reflexivity]. cbn [negb]. unfold wrapU. rewrite Z.mod_small by (change (2 ^ 8) with 256; lia).
  reflexivity.
Qed.

Lemma bridge_ControlMessage_SessionID c :
  Gen2.hsms.ControlMessage_SessionID (cm_of c) = GOk (session_id (c_hdr c)).
Proof.
  destruct c as [[a0 a1 a2 a3 a4 a5 a6 a7 a8 a9] r].
  unfold Gen2.hsms.ControlMessage_SessionID, cm_of. cbn [go_deref gbind c_hdr hdr_bytes c_reply Gen2.hsms.ControlMessage_header].
  change (arr_slice _ 0 2) with [a0; a1]. rewrite be_get_2. reflexivity.
Qed.

Lemma bridge_ControlMessage_SystemBytes c :
  Gen2.hsms.ControlMessage_SystemBytes (cm_of c) = GOk (sbl (system_bytes (c_hdr c))).
Proof. destruct c as [[a0 a1 a2 a3 a4 a5 a6 a7 a8 a9] r]. reflexivity. Qed.

Lemma bridge_ControlMessage_HeaderBytes c :
  Gen2.hsms.ControlMessage_HeaderBytes (cm_of c) = GOk (hdr_bytes (c_hdr c)).
Proof. reflexivity. Qed.

Lemma bridge_ControlMessage_WaitBit c : Gen2.hsms.ControlMessage_WaitBit (cm_of c) = GOk (c_reply c).
Proof. reflexivity. Qed.

Lemma bridge_ControlMessage_ID c : Gen2.hsms.ControlMessage_ID (cm_of c) = GOk (msg_id (c_hdr c)).
Proof.
  unfold Gen2.hsms.ControlMessage_ID. rewrite bridge_ControlMessage_SystemBytes. cbn [gbind].
  rewrite bridge_FromSystemBytes. destruct c as [[a0 a1 a2 a3 a4 a5 a6 a7 a8 a9] r]. reflexivity.
Qed.

(** ** control_msg.go: ToBytes = 00 00 00 0A ++ header, for every control message with a
    ten-byte header (always, by the Go type) *)
Lemma bridge_ControlMessage_ToBytes c :
  Gen2.hsms.ControlMessage_ToBytes (cm_of c) = GOk (ctrl_to_bytes c).
Proof. destruct c as [[a0 a1 a2 a3 a4 a5 a6 a7 a8 a9] r]. reflexivity. Qed.

(** ** control_msg.go: withers and factories (the functions that write the ten header bytes) *)
Lemma bridge_ControlMessage_WithSessionID c id :
  Gen2.hsms.ControlMessage_WithSessionID (cm_of c) id = GOk (cm_of (c_with_session_id c id)).
Proof.
  destruct c as [[a0 a1 a2 a3 a4 a5 a6 a7 a8 a9] r].
  unfold Gen2.hsms.ControlMessage_WithSessionID, cm_of. cbn [go_deref gbind c_hdr hdr_bytes c_reply Gen2.hsms.ControlMessage_header].
  cbv zeta. cbn [Gen2.hsms.ControlMessage_header]. change (arr_slice _ 0 2) with [a0; a1].
  rewrite be_put_2. reflexivity.
Qed.

Lemma bridge_ControlMessage_WithSystemBytes c sb :
  Gen2.hsms.ControlMessage_WithSystemBytes (cm_of c) (sbl sb) = GOk (cm_of (c_with_system_bytes c sb)).
Proof. destruct c as [[a0 a1 a2 a3 a4 a5 a6 a7 a8 a9] r]. destruct sb as [[[x y] z] w]. reflexivity. Qed.

Ltac put_sid_then_refl :=
  change (arr_slice (go_zeros 10) 0 2) with [0; 0]; rewrite be_put_2; reflexivity.

Lemma bridge_NewSelectReq sid sb :
  Gen2.hsms.NewSelectReq sid (sbl sb) = GOk (cm_of (new_select_req sid sb)).
Proof. destruct sb as [[[x y] z] w]. unfold Gen2.hsms.NewSelectReq. cbv zeta. put_sid_then_refl. Qed.

Lemma bridge_NewDeselectReq sid sb :
  Gen2.hsms.NewDeselectReq sid (sbl sb) = GOk (cm_of (new_deselect_req sid sb)).
Proof. destruct sb as [[[x y] z] w]. unfold Gen2.hsms.NewDeselectReq. cbv zeta. put_sid_then_refl. Qed.

Lemma bridge_NewSeparateReq sid sb :
  Gen2.hsms.NewSeparateReq sid (sbl sb) = GOk (cm_of (new_separate_req sid sb)).
Proof. destruct sb as [[[x y] z] w]. unfold Gen2.hsms.NewSeparateReq. cbv zeta. put_sid_then_refl. Qed.

Lemma bridge_NewLinktestReq sb :
  Gen2.hsms.NewLinktestReq (sbl sb) = GOk (cm_of (new_linktest_req sb)).
Proof. destruct sb as [[[x y] z] w]. reflexivity. Qed.

Lemma bridge_NewRejectReqRaw sid pt st sb reason :
  Gen2.hsms.NewRejectReqRaw sid pt st (sbl sb) reason = GOk (cm_of (new_reject_req_raw sid pt st sb reason)).
Proof.
  destruct sb as [[[x y] z] w]. unfold Gen2.hsms.NewRejectReqRaw, new_reject_req_raw, REJECT_PTYPE_NOT_SUPPORTED. cbv zeta.
  change (arr_slice (go_zeros 10) 0 2) with [0; 0]. rewrite be_put_2. cbn [gbind].
  destruct (reason =? 2) eqn:C.
  - replace (Z.eqb reason 2) with true. reflexivity.
  - replace (Z.eqb reason 2) with false. reflexivity.
Qed.

Definition rsp_result (r : option cmsg) (msg : string) : option Gen2.hsms.ControlMessage * goerror :=
  match r with Some c => (cm_of c, ErrNil) | None => (None, ErrNew msg) end.

Lemma bridge_NewSelectRsp req status : 0 <= h5 (c_hdr req) < 256 ->
  Gen2.hsms.NewSelectRsp (cm_of req) status =
  GOk (rsp_result (new_select_rsp req status) "expected select.req message").
Proof.
  intros H. unfold Gen2.hsms.NewSelectRsp, new_select_rsp, ST_SELECT_REQ.
  rewrite bridge_ControlMessage_Type by exact H. cbn [gbind].
  destruct (ctrl_type req =? 1) eqn:C.
  - replace (Z.eqb (ctrl_type req) 1) with true.
    destruct req as [[a0 a1 a2 a3 a4 a5 a6 a7 a8 a9] r]. reflexivity.
  - replace (Z.eqb (ctrl_type req) 1) with false. reflexivity.
Qed.

Lemma bridge_NewDeselectRsp req status : 0 <= h5 (c_hdr req) < 256 ->
  Gen2.hsms.NewDeselectRsp (cm_of req) status =
  GOk (rsp_result (new_deselect_rsp req status) "expected deselect.req message").
Proof.
  intros H. unfold Gen2.hsms.NewDeselectRsp, new_deselect_rsp, ST_DESELECT_REQ.
  rewrite bridge_ControlMessage_Type by exact H. cbn [gbind].
  destruct (ctrl_type req =? 3) eqn:C.
  - replace (Z.eqb (ctrl_type req) 3) with true.
    destruct req as [[a0 a1 a2 a3 a4 a5 a6 a7 a8 a9] r]. reflexivity.
  - replace (Z.eqb (ctrl_type req) 3) with false. reflexivity.
Qed.

Lemma bridge_NewLinktestRsp req : 0 <= h5 (c_hdr req) < 256 ->
  Gen2.hsms.NewLinktestRsp (cm_of req) =
  GOk (rsp_result (new_linktest_rsp req) "expected linktest.req message").
Proof.
  intros H. unfold Gen2.hsms.NewLinktestRsp, new_linktest_rsp, ST_LINKTEST_REQ.
  rewrite bridge_ControlMessage_Type by exact H. cbn [gbind].
  destruct (ctrl_type req =? 5) eqn:C.
  - replace (Z.eqb (ctrl_type req) 5) with true.
    destruct req as [[a0 a1 a2 a3 a4 a5 a6 a7 a8 a9] r]. reflexivity.
  - replace (Z.eqb (ctrl_type req) 5) with false. reflexivity.
Qed.

(** ** data_msg.go: accessors *)
Lemma bridge_DataMessage_SessionID d dec :
  Gen2.hsms.DataMessage_SessionID (dm_of d dec) = GOk (session_id (d_hdr d)).
Proof.
  destruct d as [[a0 a1 a2 a3 a4 a5 a6 a7 a8 a9] body].
  unfold Gen2.hsms.DataMessage_SessionID, dm_of. cbn [go_deref gbind d_hdr hdr_bytes Gen2.hsms.DataMessage_header].
  change (arr_slice _ 0 2) with [a0; a1]. rewrite be_get_2. reflexivity.
Qed.

Lemma bridge_DataMessage_SystemBytes d dec :
  Gen2.hsms.DataMessage_SystemBytes (dm_of d dec) = GOk (sbl (system_bytes (d_hdr d))).
Proof. destruct d as [[a0 a1 a2 a3 a4 a5 a6 a7 a8 a9] body]. reflexivity. Qed.

Lemma bridge_DataMessage_HeaderBytes d dec :
  Gen2.hsms.DataMessage_HeaderBytes (dm_of d dec) = GOk (hdr_bytes (d_hdr d)).
Proof. reflexivity. Qed.

Lemma bridge_DataMessage_Stream d dec :
  Gen2.hsms.DataMessage_Stream (dm_of d dec) = GOk (stream_of (d_hdr d)).
Proof. destruct d as [[a0 a1 a2 a3 a4 a5 a6 a7 a8 a9] body]. reflexivity. Qed.

Lemma bridge_DataMessage_Function d dec :
  Gen2.hsms.DataMessage_Function (dm_of d dec) = GOk (function_of (d_hdr d)).
Proof. destruct d as [[a0 a1 a2 a3 a4 a5 a6 a7 a8 a9] body]. reflexivity. Qed.

Lemma bridge_DataMessage_WaitBit d dec :
  Gen2.hsms.DataMessage_WaitBit (dm_of d dec) = GOk (wait_bit (d_hdr d)).
Proof. destruct d as [[a0 a1 a2 a3 a4 a5 a6 a7 a8 a9] body]. reflexivity. Qed.

Lemma bridge_DataMessage_ID d dec :
  Gen2.hsms.DataMessage_ID (dm_of d dec) = GOk (msg_id (d_hdr d)).
Proof.
  unfold Gen2.hsms.DataMessage_ID. rewrite bridge_DataMessage_SystemBytes. cbn [gbind].
  rewrite bridge_FromSystemBytes. destruct d as [[a0 a1 a2 a3 a4 a5 a6 a7 a8 a9] body]. reflexivity.
Qed.

(** ** data_msg.go: ToBytes = be32(10 + len body) ++ header ++ body.  The only hypothesis is that
    the body length is an [int] with room for the 14 bytes of [make]'s capacity argument. *)
Lemma length_prefix v : - 2 ^ 63 <= v < 2 ^ 63 ->
  let L := wrapU 32 (wrapS 64 v) in
  [wrapU 8 (shrU 32 L 24); wrapU 8 (shrU 32 L 16); wrapU 8 (shrU 32 L 8); wrapU 8 L] = be32 v.
Proof.
  intros H. rewrite wrapS_id by (unfold inS; change (64 - 1) with 63; lia). cbv zeta.
  unfold shrU. cbn [Z.ltb Z.compare Pos.compare Pos.compare_cont].
  rewrite !Z.shiftr_div_pow2 by lia. unfold wrapU, be32.
  change (2 ^ 32) with 4294967296. change (2 ^ 24) with 16777216. change (2 ^ 16) with 65536.
  change (2 ^ 8) with 256.
  f_equal; [|f_equal; [|f_equal; [|f_equal]]]; try reflexivity; Z.div_mod_to_equations; lia.
Qed.

Lemma bridge_DataMessage_ToBytes d dec : len (d_body d) < 2 ^ 62 ->
  Gen2.hsms.DataMessage_ToBytes (dm_of d dec) = GOk (data_to_bytes d).
Proof.
  destruct d as [h body]. cbn [d_body]. intros H.
  assert (N : 0 <= len body) by (unfold len; lia).
  unfold Gen2.hsms.DataMessage_ToBytes, dm_of, data_to_bytes.
  cbn [go_deref gbind d_hdr d_body Gen2.hsms.DataMessage_body Gen2.hsms.DataMessage_header].
  cbv zeta. fold (len body). change (go_len body) with (len body).
  unfold go_make_cap. rewrite wrapS_id by (unfold inS; change (64 - 1) with 63; lia).
  replace ((0 <? 0) || (14 + len body <? 0)) with false by lia. cbn [gbind].
  change (go_zeros 0) with (@nil Z). cbn [app].
  pose proof (length_prefix (10 + len body)) as P. cbv zeta in P. rewrite <- P by lia.
  reflexivity.
Qed.

(** ** data_msg.go: withers *)
Lemma bridge_DataMessage_WithSessionID d dec id :
  Gen2.hsms.DataMessage_WithSessionID (dm_of d dec) id = GOk (dm_of (d_with_session_id d id) dec).
Proof.
  destruct d as [[a0 a1 a2 a3 a4 a5 a6 a7 a8 a9] body].
  unfold Gen2.hsms.DataMessage_WithSessionID, dm_of.
  cbn [go_deref gbind d_hdr d_body hdr_bytes Gen2.hsms.DataMessage_header Gen2.hsms.DataMessage_body Gen2.hsms.DataMessage_dec].
  cbv zeta. cbn [go_deref gbind Gen2.hsms.DataMessage_header].
  change (arr_slice _ 0 2) with [a0; a1]. rewrite be_put_2. reflexivity.
Qed.

Lemma bridge_DataMessage_WithSystemBytes d dec sb :
  Gen2.hsms.DataMessage_WithSystemBytes (dm_of d dec) (sbl sb) = GOk (dm_of (d_with_system_bytes d sb) dec).
Proof. destruct d as [[a0 a1 a2 a3 a4 a5 a6 a7 a8 a9] body]. destruct sb as [[[x y] z] w]. reflexivity. Qed.

Lemma bridge_DataMessage_WithID d dec id :
  Gen2.hsms.DataMessage_WithID (dm_of d dec) id = GOk (dm_of (d_with_id d id) dec).
Proof.
  unfold Gen2.hsms.DataMessage_WithID, d_with_id. rewrite bridge_ToSystemBytes. cbn [gbind].
  rewrite bridge_DataMessage_WithSystemBytes. reflexivity.
Qed.

(** ** connection_runtime.go: isSecondaryReply = W-bit clear and even function *)
Lemma bridge_isSecondaryReply d dec : 0 <= h3 (d_hdr d) < 256 ->
  Gen2.hsms.isSecondaryReply (dm_of d dec) =
  GOk (negb (wait_bit (d_hdr d)) && (function_of (d_hdr d) mod 2 =? 0)).
Proof.
  intros H. unfold Gen2.hsms.isSecondaryReply.
  rewrite bridge_DataMessage_WaitBit. cbn [gbind].
  destruct (wait_bit (d_hdr d)); cbn [negb andb gbind]; [reflexivity|].
  rewrite bridge_DataMessage_Function. cbn [gbind]. unfold function_of. f_equal.
  unfold gorem, wrapU. change (2 ^ 8) with 256.
  rewrite Z.rem_mod_nonneg by lia. rewrite (Z.mod_small (h3 (d_hdr d) mod 2) 256) by (Z.div_mod_to_equations; lia).
  reflexivity.
Qed.

(** the same discriminator in the terms of the two session models (Responder.v: [b2 < 128 && b3 mod
    2 = 0]; SendCore.v: [negb (128 <= b2) && Z.even b3]) for header bytes in range *)
Lemma secondary_forms b2 b3 : 0 <= b2 < 256 ->
  (negb (negb (Z.shiftr b2 7 =? 0)) && (b3 mod 2 =? 0)) = ((b2 <? 128) && (b3 mod 2 =? 0)) /\
  ((b2 <? 128) && (b3 mod 2 =? 0)) = (negb (128 <=? b2) && Z.even b3).
Proof.
  intros H. rewrite Z.shiftr_div_pow2 by lia. change (2 ^ 7) with 128. split.
  - f_equal. rewrite negb_involutive. Z.div_mod_to_equations; lia.
  - f_equal; [lia|]. destruct (Z.even b3) eqn:E.
    + apply Z.even_spec in E. destruct E as [k ->]. Z.div_mod_to_equations; lia.
    + rewrite <- Z.negb_odd in E. apply negb_false_iff in E. apply Z.odd_spec in E.
      destruct E as [k ->]. Z.div_mod_to_equations; lia.
Qed.

(** ** sysbytes.go: the System Bytes generator.  [sysBytesGen.next] is translated state-passing
    (it returns its updated receiver): the new counter is [next_sys] of Hsms/Responder.v (old + 1
    modulo 2^32) and the bytes handed out are that value big-endian. Sequential semantics of the
    atomic counter; what is tied is the arithmetic. *)
From GoSecs Require Hsms.Responder Hsms.HeaderProofs.

Lemma bridge_sysBytesGen_next n : 0 <= n < 4294967296 ->
  Gen2.hsms.sysBytesGen_next (Some (Gen2.hsms.mk_sysBytesGen n)) =
  GOk (Some (Gen2.hsms.mk_sysBytesGen (Responder.next_sys n)), be32 (Responder.next_sys n)).
Proof.
  intros H. unfold Gen2.hsms.sysBytesGen_next. cbn [go_deref gbind Gen2.hsms.sysBytesGen_n].
  cbv zeta. change (go_zeros 4) with [0; 0; 0; 0]. rewrite be_put_4. reflexivity.
Qed.

(** the value handed out decodes (as [FromSystemBytes] does) to the counter: ids are consecutive *)
Lemma sysBytesGen_next_id n : 0 <= n < 4294967296 ->
  exists g' b, Gen2.hsms.sysBytesGen_next (Some (Gen2.hsms.mk_sysBytesGen n)) = GOk (Some g', b) /\
    Gen2.hsms.sysBytesGen_n g' = (n + 1) mod 4294967296 /\
    Gen2.hsms.FromSystemBytes b = GOk ((n + 1) mod 4294967296).
Proof.
  intros H. rewrite bridge_sysBytesGen_next by exact H. eexists _, _. split; [reflexivity|]. split; [reflexivity|].
  unfold Responder.next_sys, be32, Gen2.hsms.FromSystemBytes. rewrite be_get_4. cbn [gbind].
  rewrite HeaderProofs.de32_be32 by (apply Z.mod_pos_bound; lia). reflexivity.
Qed.
