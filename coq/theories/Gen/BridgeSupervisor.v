(** Bridge: the E37 transition table REGENERATED from hsms/supervisor.go equals the model's table. *)
From Coq Require Import ZArith Bool List.
From GoSecs Require Import Base.GoInt Gen.Gen Hsms.Supervisor.
Open Scope Z_scope.

Definition cstate_z (c : cstate) : Z :=
  match c with NC => Gen.hsms.NotConnectedState | NS => Gen.hsms.NotSelectedState | SEL => Gen.hsms.SelectedState end.

Definition event_z (e : event) : Z :=
  match e with
  | EvTCPUp => Gen.hsms.evTCPUp | EvSelectAccepted => Gen.hsms.evSelectAccepted
  | EvSelectLost => Gen.hsms.evSelectLost | EvDisconnect => Gen.hsms.evDisconnect
  | EvClose => Gen.hsms.evClose | EvT7 => Gen.hsms.evT7Timeout
  | EvUpC => Gen.hsms.evTCPUpCommitted | EvSelAccC => Gen.hsms.evSelectAcceptedCommitted
  | EvSelLostC => Gen.hsms.evSelectLostCommitted
  end.

Lemma bridge_transition c e :
  Gen.hsms.transition (cstate_z c) (event_z e) = (cstate_z (fst (transition c e)), snd (transition c e)).
Proof. destruct c, e; vm_compute; reflexivity. Qed.

(** The three states / six events are pairwise distinct numbers (so the Z image is faithful). *)
Lemma cstate_z_inj a b : cstate_z a = cstate_z b -> a = b.
Proof. destruct a, b; vm_compute; intros H; try reflexivity; discriminate H. Qed.
Lemma event_z_inj a b : event_z a = event_z b -> a = b.
Proof. destruct a, b; vm_compute; intros H; try reflexivity; discriminate H. Qed.

Lemma bridge_notify_cap : Z.of_nat notify_cap = Gen.hsms.supervisorNotifyCap.
Proof. reflexivity. Qed.
