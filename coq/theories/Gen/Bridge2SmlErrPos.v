(** Bridge (translator v2): [newParseError] REGENERATED from sml/errors.go into [Gen/Gen2.v] equals
    [new_parse_error] of Sml/ErrPos.v — for EVERY input string (its bytes), EVERY offset (negative
    and beyond the end included) and every message: no panic (the clamp keeps [input[i]] in range),
    the clamped offset, and the line / column of the one-pass loop. The only hypothesis is that
    the string length is a Go [int] with room for the two counters. *)
From Coq Require Import String.
From Coq Require Import ZArith Bool List Lia ZifyBool.
From GoSecs Require Import Base.GoInt Base.BytesBE Base.GoSlice Base.Decimal Gen.Gen2 Sml.ErrPos.
Import ListNotations.
Open Scope Z_scope.

Definition body (input : list Z) : Z -> Z * Z -> gres (lctl (Z * Z) (option Gen2.sml.ParseError)) :=
  fun i '(line, col) =>
    gbind (go_index input i) (fun t_3 =>
    gbind (if Z.eqb t_3 10 then GOk (wrapS 64 (line + 1), 1) else GOk (line, wrapS 64 (col + 1)))
          (fun '(line, col) => GOk (LNext (line, col)))).

Lemma wrapS64_small x : - 2 ^ 62 <= x <= 2 ^ 62 -> wrapS 64 x = x.
Proof. intros. apply wrapS_id; [lia|]. unfold inS. change (64 - 1) with 63. lia. Qed.

(** the loop from position [i = length pre] over the remaining input [rest] *)
Lemma loop_spec pre : forall n rest line col,
  (n <= length rest)%nat -> Z.of_nat (length pre + length rest) < 2 ^ 62 ->
  1 <= line <= 1 + Z.of_nat (length pre) -> 1 <= col <= 1 + Z.of_nat (length pre) ->
  count_loop_n (body (pre ++ rest)) n (Z.of_nat (length pre)) (line, col) =
  GOk (LDone (lc_loop rest n line col)).
Proof.
  intros n. revert pre. induction n as [|n IH]; intros pre rest line col Hn Hl Hline Hcol; [reflexivity|].
  destruct rest as [|b rest]; [cbn [length] in Hn; lia|].
  cbn [count_loop_n lc_loop]. unfold body at 1.
  rewrite go_index_ok by (unfold go_len; rewrite app_length; cbn [length]; lia).
  rewrite Nat2Z.id, app_nth2 by lia. rewrite Nat.sub_diag. cbn [nth gbind].
  cbn [length] in Hn, Hl.
  assert (E : pre ++ b :: rest = (pre ++ [b]) ++ rest) by (rewrite <- app_assoc; reflexivity).
  assert (L : Z.of_nat (length pre) + 1 = Z.of_nat (length (pre ++ [b]))) by (rewrite app_length; cbn [length]; lia).
  destruct (b =? 10) eqn:C.
  - replace (Z.eqb b 10) with true. cbn [gbind]. rewrite wrapS64_small by lia.
    rewrite E, L. apply IH; rewrite ?app_length; cbn [length]; lia.
  - replace (Z.eqb b 10) with false. cbn [gbind]. rewrite wrapS64_small by lia.
    rewrite E, L. apply IH; rewrite ?app_length; cbn [length]; lia.
Qed.

Lemma after_clamp input off msg : off <= blen input -> blen input < 2 ^ 62 ->
  loop_k (count_loop (R := option Gen2.sml.ParseError) (body input) 0 off (1, 1))
    (fun '(line, col) => GOk (Some (Gen2.sml.mk_ParseError off line col msg))) (fun r_ => GOk r_) =
  GOk (let '(line, col) := lc_loop input (Z.to_nat off) 1 1 in Some (Gen2.sml.mk_ParseError off line col msg)).
Proof.
  intros Ho Hl.
  change (count_loop (R := option Gen2.sml.ParseError) (body input) 0 off (1, 1))
    with (count_loop_n (body ([] ++ input)) (Z.to_nat (off - 0)) (Z.of_nat (length (@nil Z))) (1, 1)).
  rewrite Z.sub_0_r.
  rewrite loop_spec by (unfold blen in *; cbn [length]; lia).
  cbn [loop_k]. destruct (lc_loop input (Z.to_nat off) 1 1) as [line col]. reflexivity.
Qed.

Lemma bridge_newParseError input offset msg : blen input < 2 ^ 62 ->
  Gen2.sml.newParseError input offset msg =
  GOk (let '(off, line, col) := new_parse_error input offset in
       Some (Gen2.sml.mk_ParseError off line col msg)).
Proof.
  intros Hl. unfold Gen2.sml.newParseError, new_parse_error. change (go_len input) with (blen input).
  destruct (offset >? blen input) eqn:C.
  - replace (Z.gtb offset (blen input)) with true. cbn [gbind]. cbv zeta.
    fold (body input). rewrite after_clamp by lia.
    destruct (lc_loop input (Z.to_nat (blen input)) 1 1) as [line col]. reflexivity.
  - replace (Z.gtb offset (blen input)) with false. cbn [gbind]. cbv zeta.
    fold (body input). rewrite after_clamp by lia.
    destruct (lc_loop input (Z.to_nat offset) 1 1) as [line col]. reflexivity.
Qed.
