(** Bridge for the strict SML parser model (C13): the nesting cap the model uses is the constant
    the CURRENT source declares (Gen.v is regenerated from /repo on every check). *)
From Coq Require Import ZArith.
From GoSecs Require Import Gen.Gen Sml.StrictParser.
Open Scope Z_scope.

Lemma bridge_max_list_depth : Gen.secs2.MaxListDepth = max_list_depth.
Proof. reflexivity. Qed.
