(** Bridge: the functions REGENERATED from the current Go source ([Gen.v], written by the
    translator on every check) are pointwise equal to the hand-written model functions the
    property theorems are stated on. If a code change alters one of the translated functions,
    a lemma here stops compiling. *)
From Coq Require Import ZArith Bool List Lia ZifyBool.
From GoSecs Require Import Base.GoInt Gen.Gen Hsms.Linktest.
Open Scope Z_scope.

(** ** hsmsss.linktestFailureStep / linktestDisconnectRecheck (C19) *)

Lemma bridge_linktestFailureStep suppress recvNow sentAt inflight fails recvAtLastFail :
  inS 64 (fails + 1) ->
  Gen.hsmsss.linktestFailureStep suppress recvNow sentAt inflight fails recvAtLastFail =
  failure_step suppress recvNow sentAt inflight fails recvAtLastFail.
Proof.
  intros Hr. unfold Gen.hsmsss.linktestFailureStep, failure_step.
  rewrite (wrapS_id 64 (fails + 1)) by (lia || exact Hr).
  destruct suppress; cbn [andb].
  - destruct ((recvNow >? sentAt) || (inflight >? 0)); [reflexivity|].
    destruct ((fails >? 0) && (recvNow >? recvAtLastFail)); reflexivity.
  - reflexivity.
Qed.

Lemma bridge_linktestDisconnectRecheck suppress inflight recvNow sentAt :
  Gen.hsmsss.linktestDisconnectRecheck suppress inflight recvNow sentAt =
  disconnect_recheck suppress inflight recvNow sentAt.
Proof. reflexivity. Qed.
