(** Bridge (C16): the clamp functions REGENERATED from the current Go source ([Gen.v], written by the
    translator on every check from secs2/int.go and secs2/uint.go) are pointwise the [clamp] the
    constructor model and the property theorems are stated on. A change of a comparison direction or
    of a returned bound in the source breaks these lemmas at coqc time. *)
From Coq Require Import ZArith Bool List Lia ZifyBool.
From GoSecs Require Import Base.GoInt Gen.Gen Secs2.ConstructParse Secs2.Construct Secs2.ConstructProofs.
Open Scope Z_scope.

Lemma bridge_clampInt64 v lo hi : Gen.secs2.clampInt64 v lo hi = clamp lo hi v.
Proof. reflexivity. Qed.

Lemma bridge_clampUint64 v hi : Gen.secs2.clampUint64 v hi = clampU hi v.
Proof. reflexivity. Qed.

Lemma bridge_clampUint64_clamp v hi : 0 <= v -> Gen.secs2.clampUint64 v hi = clamp 0 hi v.
Proof. intros; rewrite bridge_clampUint64; apply clampU_clamp; assumption. Qed.

Lemma bridge_MaxByteSize : Gen.secs2.MaxByteSize = MaxByteSize.
Proof. reflexivity. Qed.

Lemma bridge_MaxStreamCode : Gen.hsms.MaxStreamCode = 127.
Proof. reflexivity. Qed.
