package main

// v2 targets, SECS-I message splitting (C17/C18): splitBody (secs1/message.go) — a generator
// (iter.Seq[block]) translated to the list of blocks it yields — with wire.chunkView, the body of
// both implementations of wire.Body.Chunk. Bridged to split_body of coq/theories/Secs1/Block.v in
// coq/theories/Gen/Bridge2Secs1Split.v.
func init() {
	register2("internal/wire", []string{"chunkView"})
	register2("secs1", []string{"splitBody"})
}
