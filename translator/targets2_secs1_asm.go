package main

// v2 targets, SECS-I inbound assembler (C17/C18/C20): the block header accessors, assembleFrame,
// the six block-level counters the assembler bumps, and the assembler itself - report, reset,
// complete, appendBlock, startMessage, beginMessage, accept - in state-passing form. Bridged to
// hdr_* / assemble_frame of coq/theories/Secs1/Block.v and to accept of Secs1/Assembler.v in
// coq/theories/Gen/Bridge2Secs1Asm.v.
//
// The assembler's environment is explicit: now() is the record field assembler_now (an int64
// instant, the same at every read within one accept - as in the hand model), timers() is the
// field assembler_timers; deliverFrame and notify are outgoing calls logged in
// assembler_deliverFrame_log / assembler_notify_log (deliverFrame answers assembler_deliverFrame_ret).
// logger.Debug calls are dropped (their operands are still evaluated). The *ConnectionMetrics the
// assembler points to is part of its state (sequential reading of the atomic counters).
func init() {
	registerExtField2("secs1", "assembler.now", "read")
	registerExtField2("secs1", "assembler.timers", "read")
	registerExtField2("secs1", "assembler.deliverFrame", "call")
	registerExtField2("secs1", "assembler.notify", "call")
	registerIgnoredCall2("logger", "Debug")
	register2("hsms", nil) // hsms.TimerConfig is declared there
	register2("secs1", []string{
		"block.deviceID", "block.rBit", "block.stream", "block.waitBit", "block.function", "block.blockNumber",
		"block.eBit", "block.systemBytes", "block.messageHeader",
		"assembleFrame",
		"ConnectionMetrics.incDeviceIDMismatchCount", "ConnectionMetrics.incBlockDirDropCount",
		"ConnectionMetrics.incPartialTimeoutCount", "ConnectionMetrics.incBlockDupDropCount",
		"ConnectionMetrics.incBlockNumberMismatchCount", "ConnectionMetrics.incInvalidFirstBlockCount",
		"assembler.report", "assembler.reset", "assembler.complete", "assembler.appendBlock",
		"assembler.startMessage", "assembler.beginMessage", "assembler.accept",
	})
}
