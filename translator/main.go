// Command translator regenerates coq/theories/Gen/Gen.v from the CURRENT /repo sources.
//
// It type-checks the listed packages of arloliu/go-secs with go/types and emits, per package, a
// Coq module holding (a) every package-level integer/boolean constant and (b) the Gallina image
// of each whitelisted pure function. The supported Go subset is small on purpose (see DESIGN.md
// Appendix C): if/else, switch (tagged or tagless, no fallthrough), return (single or tuple),
// local := / = / var, integer / boolean / comparison / shift / bitwise expressions, conversions
// between integer types, calls among translated functions. Anything else is a hard error: the
// translator never skips silently, so a function that leaves the subset breaks the tie loudly.
//
// Sized arithmetic is emitted with explicit wrap-around (wrapS/wrapU from Base/GoInt.v).
package main

import (
	"bytes"
	"crypto/sha256"
	"encoding/json"
	"flag"
	"fmt"
	"go/ast"
	"go/constant"
	"go/format"
	"go/importer"
	"go/parser"
	"go/token"
	"go/types"
	"os"
	"path/filepath"
	"sort"
	"strings"
)

const modPath = "github.com/arloliu/go-secs/v2"

type target struct {
	Pkg   string   // package dir relative to repo root
	Funcs []string // whitelisted function names (package-level, no receiver)
	Vars  []string // package-level integer array/slice tables to export as list Z
}

// The functions and tables the models depend on are registered from targets_*.go files (one per
// property family, so that independent work does not collide). Extending the tie = registering a
// name and proving a bridge lemma in coq/theories/Gen/Bridge<Family>.v.
var registry = map[string]*target{}
var pkgOrder = []string{"secs2", "hsms", "hsmsss", "secs1", "sml"}

func register(pkg string, funcs []string, vars []string) {
	t, ok := registry[pkg]
	if !ok {
		t = &target{Pkg: pkg}
		registry[pkg] = t
		known := false
		for _, p := range pkgOrder {
			known = known || p == pkg
		}
		if !known {
			pkgOrder = append(pkgOrder, pkg)
		}
	}
	for _, f := range funcs {
		dup := false
		for _, g := range t.Funcs {
			dup = dup || g == f
		}
		if !dup {
			t.Funcs = append(t.Funcs, f)
		}
	}
	for _, v := range vars {
		dup := false
		for _, g := range t.Vars {
			dup = dup || g == v
		}
		if !dup {
			t.Vars = append(t.Vars, v)
		}
	}
}

func allTargets() []target {
	out := []target{}
	for _, p := range pkgOrder {
		if t, ok := registry[p]; ok {
			out = append(out, *t)
		} else {
			out = append(out, target{Pkg: p})
		}
	}
	return out
}

type tr struct {
	fset  *token.FileSet
	info  *types.Info
	pkg   *types.Package
	funcs map[string]bool // translated function names in this package
	errs  []string
}

func (t *tr) fail(n ast.Node, format string, a ...any) {
	t.errs = append(t.errs, fmt.Sprintf("%s: %s", t.fset.Position(n.Pos()), fmt.Sprintf(format, a...)))
}

// ---------- type helpers ----------

type ikind struct {
	signed bool
	bits   int
}

func intKind(ty types.Type) (ikind, bool) {
	b, ok := ty.Underlying().(*types.Basic)
	if !ok {
		return ikind{}, false
	}
	switch b.Kind() {
	case types.Int, types.Int64:
		return ikind{true, 64}, true
	case types.Int8:
		return ikind{true, 8}, true
	case types.Int16:
		return ikind{true, 16}, true
	case types.Int32:
		return ikind{true, 32}, true
	case types.Uint, types.Uint64, types.Uintptr:
		return ikind{false, 64}, true
	case types.Uint8:
		return ikind{false, 8}, true
	case types.Uint16:
		return ikind{false, 16}, true
	case types.Uint32:
		return ikind{false, 32}, true
	case types.UntypedInt, types.UntypedRune:
		return ikind{true, 0}, true // bits 0: no wrap (constant-folded by the caller)
	}
	return ikind{}, false
}

func isBool(ty types.Type) bool {
	b, ok := ty.Underlying().(*types.Basic)
	return ok && (b.Kind() == types.Bool || b.Kind() == types.UntypedBool)
}

func (t *tr) coqType(n ast.Node, ty types.Type) string {
	if isBool(ty) {
		return "bool"
	}
	if _, ok := intKind(ty); ok {
		return "Z"
	}
	if tup, ok := ty.(*types.Tuple); ok {
		parts := []string{}
		for i := 0; i < tup.Len(); i++ {
			parts = append(parts, t.coqType(n, tup.At(i).Type()))
		}
		return "(" + strings.Join(parts, " * ") + ")"
	}
	t.fail(n, "unsupported type %s", ty)
	return "unit"
}

func wrap(k ikind, e string) string {
	if k.bits == 0 {
		return e
	}
	if k.signed {
		return fmt.Sprintf("(wrapS %d %s)", k.bits, e)
	}
	return fmt.Sprintf("(wrapU %d %s)", k.bits, e)
}

func zlit(v constant.Value) string {
	s := v.ExactString()
	if strings.HasPrefix(s, "-") {
		return "(" + s + ")"
	}
	return s
}

var coqReserved = map[string]bool{"fix": true, "end": true, "in": true, "let": true, "match": true, "with": true,
	"fun": true, "forall": true, "exists": true, "if": true, "then": true, "else": true, "return": true, "as": true,
	"at": true, "cofix": true, "for": true, "where": true, "Type": true, "Set": true, "Prop": true, "using": true, "ceil": false}

func ident(s string) string {
	if coqReserved[s] {
		return s + "_"
	}
	return s
}

// ---------- expressions ----------

func (t *tr) expr(e ast.Expr) string {
	tv, ok := t.info.Types[e]
	if ok && tv.Value != nil {
		switch tv.Value.Kind() {
		case constant.Int:
			return zlit(tv.Value)
		case constant.Bool:
			if constant.BoolVal(tv.Value) {
				return "true"
			}
			return "false"
		}
	}
	switch x := e.(type) {
	case *ast.ParenExpr:
		return t.expr(x.X)
	case *ast.Ident:
		if x.Name == "true" || x.Name == "false" {
			return x.Name
		}
		return ident(x.Name)
	case *ast.UnaryExpr:
		switch x.Op {
		case token.NOT:
			return "(negb " + t.expr(x.X) + ")"
		case token.SUB:
			k, ok := intKind(t.info.TypeOf(x))
			if !ok {
				t.fail(x, "unary - on non-integer")
			}
			return wrap(k, "(- "+t.expr(x.X)+")")
		case token.ADD:
			return t.expr(x.X)
		}
		t.fail(x, "unsupported unary operator %s", x.Op)
		return "0"
	case *ast.BinaryExpr:
		return t.binary(x)
	case *ast.CallExpr:
		return t.call(x)
	}
	t.fail(e, "unsupported expression %T", e)
	return "0"
}

func (t *tr) binary(x *ast.BinaryExpr) string {
	a, b := t.expr(x.X), t.expr(x.Y)
	lt := t.info.TypeOf(x.X)
	switch x.Op {
	case token.LAND:
		return "(andb " + a + " " + b + ")"
	case token.LOR:
		return "(orb " + a + " " + b + ")"
	case token.EQL, token.NEQ:
		var s string
		if isBool(lt) {
			s = "(Bool.eqb " + a + " " + b + ")"
		} else if _, ok := intKind(lt); ok {
			s = "(Z.eqb " + a + " " + b + ")"
		} else {
			t.fail(x, "== on unsupported type %s", lt)
		}
		if x.Op == token.NEQ {
			return "(negb " + s + ")"
		}
		return s
	case token.LSS, token.LEQ, token.GTR, token.GEQ:
		if _, ok := intKind(lt); !ok {
			t.fail(x, "ordering on unsupported type %s", lt)
		}
		op := map[token.Token]string{token.LSS: "Z.ltb", token.LEQ: "Z.leb", token.GTR: "Z.gtb", token.GEQ: "Z.geb"}[x.Op]
		return "(" + op + " " + a + " " + b + ")"
	}
	k, ok := intKind(t.info.TypeOf(x))
	if !ok {
		t.fail(x, "arithmetic on unsupported type %s", t.info.TypeOf(x))
		return "0"
	}
	switch x.Op {
	case token.ADD:
		return wrap(k, "("+a+" + "+b+")")
	case token.SUB:
		return wrap(k, "("+a+" - "+b+")")
	case token.MUL:
		return wrap(k, "("+a+" * "+b+")")
	case token.QUO:
		return wrap(k, "(goquot "+a+" "+b+")")
	case token.REM:
		return wrap(k, "(gorem "+a+" "+b+")")
	case token.AND:
		return "(Z.land " + a + " " + b + ")"
	case token.OR:
		return "(Z.lor " + a + " " + b + ")"
	case token.XOR:
		return "(Z.lxor " + a + " " + b + ")"
	case token.SHL:
		if k.signed {
			return fmt.Sprintf("(shlS %d %s %s)", k.bits, a, b)
		}
		return fmt.Sprintf("(shlU %d %s %s)", k.bits, a, b)
	case token.SHR:
		if k.signed {
			return fmt.Sprintf("(shrS %d %s %s)", k.bits, a, b)
		}
		return fmt.Sprintf("(shrU %d %s %s)", k.bits, a, b)
	}
	t.fail(x, "unsupported binary operator %s", x.Op)
	return "0"
}

func (t *tr) call(x *ast.CallExpr) string {
	// conversion T(e)
	if tv, ok := t.info.Types[x.Fun]; ok && tv.IsType() {
		if len(x.Args) != 1 {
			t.fail(x, "conversion arity")
			return "0"
		}
		dst := tv.Type
		src := t.info.TypeOf(x.Args[0])
		if isBool(dst) && isBool(src) {
			return t.expr(x.Args[0])
		}
		kd, ok1 := intKind(dst)
		_, ok2 := intKind(src)
		if ok1 && ok2 {
			return wrap(kd, t.expr(x.Args[0]))
		}
		t.fail(x, "unsupported conversion %s -> %s", src, dst)
		return "0"
	}
	if id, ok := x.Fun.(*ast.Ident); ok && t.funcs[id.Name] {
		parts := []string{ident(id.Name)}
		for _, a := range x.Args {
			parts = append(parts, t.expr(a))
		}
		return "(" + strings.Join(parts, " ") + ")"
	}
	t.fail(x, "call to untranslated function")
	return "0"
}

// ---------- statements (continuation style: `rest` is the image of what follows) ----------

const noRest = "\x00"

func (t *tr) stmts(list []ast.Stmt, rest string) string {
	if len(list) == 0 {
		return rest
	}
	return t.stmt(list[0], func() string { return t.stmts(list[1:], rest) })
}

func (t *tr) retExpr(r *ast.ReturnStmt) string {
	if len(r.Results) == 0 {
		t.fail(r, "bare return unsupported")
		return "tt"
	}
	parts := []string{}
	for _, e := range r.Results {
		parts = append(parts, t.expr(e))
	}
	if len(parts) == 1 {
		return parts[0]
	}
	return "(" + strings.Join(parts, ", ") + ")"
}

func (t *tr) stmt(s ast.Stmt, rest func() string) string {
	switch x := s.(type) {
	case *ast.ReturnStmt:
		return t.retExpr(x)
	case *ast.BlockStmt:
		return t.stmts(x.List, rest())
	case *ast.EmptyStmt:
		return rest()
	case *ast.IfStmt:
		if x.Init != nil {
			return t.stmt(x.Init, func() string {
				y := *x
				y.Init = nil
				return t.stmt(&y, rest)
			})
		}
		r := rest()
		thenE := t.stmts(x.Body.List, r)
		elseE := r
		if x.Else != nil {
			elseE = t.stmt(x.Else, func() string { return r })
		}
		return "(if " + t.expr(x.Cond) + "\n then " + thenE + "\n else " + elseE + ")"
	case *ast.SwitchStmt:
		if x.Init != nil {
			t.fail(x, "switch init unsupported")
		}
		r := rest()
		var deflt *ast.CaseClause
		type arm struct{ cond, body string }
		arms := []arm{}
		for _, c := range x.Body.List {
			cc := c.(*ast.CaseClause)
			for _, bs := range cc.Body {
				if br, ok := bs.(*ast.BranchStmt); ok {
					t.fail(br, "branch statement (%s) unsupported in switch", br.Tok)
				}
			}
			if cc.List == nil {
				deflt = cc
				continue
			}
			conds := []string{}
			for _, e := range cc.List {
				if x.Tag == nil {
					conds = append(conds, t.expr(e))
				} else {
					tt := t.info.TypeOf(x.Tag)
					if isBool(tt) {
						conds = append(conds, "(Bool.eqb "+t.expr(x.Tag)+" "+t.expr(e)+")")
					} else if _, ok := intKind(tt); ok {
						conds = append(conds, "(Z.eqb "+t.expr(x.Tag)+" "+t.expr(e)+")")
					} else {
						t.fail(x, "switch on unsupported type %s", tt)
					}
				}
			}
			cond := conds[0]
			for _, c2 := range conds[1:] {
				cond = "(orb " + cond + " " + c2 + ")"
			}
			arms = append(arms, arm{cond, t.stmts(cc.Body, r)})
		}
		out := r
		if deflt != nil {
			out = t.stmts(deflt.Body, r)
		}
		for i := len(arms) - 1; i >= 0; i-- {
			out = "(if " + arms[i].cond + "\n then " + arms[i].body + "\n else " + out + ")"
		}
		return out
	case *ast.AssignStmt:
		if len(x.Lhs) == 1 && len(x.Rhs) == 1 && (x.Tok == token.DEFINE || x.Tok == token.ASSIGN) {
			id, ok := x.Lhs[0].(*ast.Ident)
			if !ok {
				t.fail(x, "assignment to non-identifier")
				return rest()
			}
			return "(let " + ident(id.Name) + " := " + t.expr(x.Rhs[0]) + " in\n " + rest() + ")"
		}
		if len(x.Lhs) > 1 && len(x.Rhs) == 1 && (x.Tok == token.DEFINE || x.Tok == token.ASSIGN) {
			names := []string{}
			for _, l := range x.Lhs {
				id, ok := l.(*ast.Ident)
				if !ok {
					t.fail(x, "assignment to non-identifier")
					return rest()
				}
				names = append(names, ident(id.Name))
			}
			pat := names[0]
			for _, n := range names[1:] {
				pat = "(" + pat + ", " + n + ")"
			}
			return "(let '" + pat + " := " + t.expr(x.Rhs[0]) + " in\n " + rest() + ")"
		}
		t.fail(x, "unsupported assignment form")
		return rest()
	case *ast.DeclStmt:
		gd, ok := x.Decl.(*ast.GenDecl)
		if !ok {
			t.fail(x, "unsupported declaration")
			return rest()
		}
		if gd.Tok == token.CONST {
			return rest() // uses are constant-folded by go/types
		}
		if gd.Tok == token.VAR {
			out := rest
			for i := len(gd.Specs) - 1; i >= 0; i-- {
				vs := gd.Specs[i].(*ast.ValueSpec)
				for j := len(vs.Names) - 1; j >= 0; j-- {
					name := vs.Names[j]
					var val string
					if j < len(vs.Values) {
						val = t.expr(vs.Values[j])
					} else {
						ty := t.info.TypeOf(name)
						if isBool(ty) {
							val = "false"
						} else if _, ok := intKind(ty); ok {
							val = "0"
						} else {
							t.fail(vs, "var of unsupported type %s", ty)
						}
					}
					prev := out
					nm := ident(name.Name)
					out = func() string { return "(let " + nm + " := " + val + " in\n " + prev() + ")" }
				}
			}
			return out()
		}
	}
	t.fail(s, "unsupported statement %T", s)
	return rest()
}

// ---------- package driver ----------

type genItem struct {
	Kind string `json:"kind"`
	Pkg  string `json:"pkg"`
	Name string `json:"name"`
	Pos  string `json:"pos,omitempty"`
	Hash string `json:"hash,omitempty"`
	Val  string `json:"value,omitempty"`
}

type chainImporter struct {
	repo  string
	fset  *token.FileSet
	std   types.Importer
	cache map[string]*types.Package
	infos map[string]*types.Info
	files map[string][]*ast.File
}

func (c *chainImporter) Import(path string) (*types.Package, error) {
	if p, ok := c.cache[path]; ok {
		return p, nil
	}
	if strings.HasPrefix(path, modPath+"/") {
		p, err := c.check(strings.TrimPrefix(path, modPath+"/"))
		return p, err
	}
	first := strings.SplitN(path, "/", 2)[0]
	if !strings.Contains(first, ".") {
		p, err := c.std.Import(path)
		if err == nil {
			c.cache[path] = p
			return p, nil
		}
	}
	// third-party: an empty package; uses of it become type errors that we tolerate
	// (pure functions and constants never mention them).
	p := types.NewPackage(path, filepath.Base(path))
	p.MarkComplete()
	c.cache[path] = p
	return p, nil
}

func (c *chainImporter) check(rel string) (*types.Package, error) {
	full := modPath + "/" + rel
	if p, ok := c.cache[full]; ok {
		return p, nil
	}
	dir := filepath.Join(c.repo, rel)
	pkgs, err := parser.ParseDir(c.fset, dir, func(fi os.FileInfo) bool {
		n := fi.Name()
		return !strings.HasSuffix(n, "_test.go") && !strings.HasPrefix(n, "verif_")
	}, parser.ParseComments)
	if err != nil {
		return nil, err
	}
	var files []*ast.File
	for name, p := range pkgs {
		if strings.HasSuffix(name, "_test") {
			continue
		}
		names := []string{}
		for fn := range p.Files {
			names = append(names, fn)
		}
		sort.Strings(names)
		for _, fn := range names {
			files = append(files, p.Files[fn])
		}
	}
	info := &types.Info{Types: map[ast.Expr]types.TypeAndValue{}, Defs: map[*ast.Ident]types.Object{}, Uses: map[*ast.Ident]types.Object{},
		Selections: map[*ast.SelectorExpr]*types.Selection{}} // Selections: used by the v2 pass only (slices.go)
	conf := types.Config{Importer: c, Error: func(error) {}, FakeImportC: true}
	p, _ := conf.Check(full, c.fset, files, info)
	c.cache[full] = p
	c.infos[full] = info
	c.files[full] = files
	return p, nil
}

func main() {
	repo := flag.String("repo", "/repo", "repository root")
	out := flag.String("out", "", "output Gen.v path")
	manifest := flag.String("manifest", "", "output JSON listing of translated items")
	out2 := flag.String("out2", "", "v2 (byte slices, loops): output Gen2.v path; the v2 pass runs only when this flag is given")
	manifest2 := flag.String("manifest2", "", "v2: output JSON listing of translated items")
	flag.Parse()

	fset := token.NewFileSet()
	ci := &chainImporter{repo: *repo, fset: fset, std: importer.ForCompiler(fset, "source", nil),
		cache: map[string]*types.Package{}, infos: map[string]*types.Info{}, files: map[string][]*ast.File{}}

	var buf bytes.Buffer
	var items []genItem
	var allErrs []string
	buf.WriteString("(* GENERATED by /verif/translator from the current /repo sources. DO NOT EDIT. *)\n")
	buf.WriteString("From Coq Require Import ZArith Bool List.\nFrom GoSecs Require Import Base.GoInt.\nImport ListNotations.\nOpen Scope Z_scope.\n\n")

	for _, tg := range allTargets() {
		pkg, err := ci.check(tg.Pkg)
		if err != nil || pkg == nil {
			fmt.Fprintf(os.Stderr, "translator: cannot load package %s: %v\n", tg.Pkg, err)
			os.Exit(2)
		}
		full := modPath + "/" + tg.Pkg
		info := ci.infos[full]
		t := &tr{fset: fset, info: info, pkg: pkg, funcs: map[string]bool{}}
		for _, f := range tg.Funcs {
			t.funcs[f] = true
		}
		fmt.Fprintf(&buf, "Module %s.\n\n", tg.Pkg)

		// constants, sorted by name
		scope := pkg.Scope()
		names := scope.Names()
		sort.Strings(names)
		for _, n := range names {
			c, ok := scope.Lookup(n).(*types.Const)
			if !ok {
				continue
			}
			v := c.Val()
			switch v.Kind() {
			case constant.Int:
				fmt.Fprintf(&buf, "Definition %s : Z := %s.\n", ident(n), zlit(v))
				items = append(items, genItem{Kind: "const", Pkg: tg.Pkg, Name: n, Val: v.ExactString()})
			case constant.Bool:
				fmt.Fprintf(&buf, "Definition %s : bool := %v.\n", ident(n), constant.BoolVal(v))
				items = append(items, genItem{Kind: "const", Pkg: tg.Pkg, Name: n, Val: v.ExactString()})
			}
		}
		buf.WriteString("\n")

		// tables
		for _, vn := range tg.Vars {
			found := false
			for _, f := range ci.files[full] {
				for _, d := range f.Decls {
					gd, ok := d.(*ast.GenDecl)
					if !ok || gd.Tok != token.VAR {
						continue
					}
					for _, sp := range gd.Specs {
						vs := sp.(*ast.ValueSpec)
						for i, nm := range vs.Names {
							if nm.Name != vn || i >= len(vs.Values) {
								continue
							}
							cl, ok := vs.Values[i].(*ast.CompositeLit)
							if !ok {
								t.fail(vs, "table %s is not a composite literal", vn)
								continue
							}
							elems := []string{}
							for _, e := range cl.Elts {
								tv := info.Types[e]
								if tv.Value == nil || tv.Value.Kind() != constant.Int {
									t.fail(e, "table %s element is not an integer constant", vn)
									continue
								}
								elems = append(elems, zlit(tv.Value))
							}
							fmt.Fprintf(&buf, "Definition %s : list Z := [%s].\n", ident(vn), strings.Join(elems, "; "))
							items = append(items, genItem{Kind: "table", Pkg: tg.Pkg, Name: vn, Val: strings.Join(elems, ","), Pos: fset.Position(vs.Pos()).String()})
							found = true
						}
					}
				}
			}
			if !found {
				t.errs = append(t.errs, fmt.Sprintf("package %s: table %s not found", tg.Pkg, vn))
			}
		}
		buf.WriteString("\n")

		// functions, in whitelist order (callees first)
		for _, fn := range tg.Funcs {
			var fd *ast.FuncDecl
			for _, f := range ci.files[full] {
				for _, d := range f.Decls {
					if x, ok := d.(*ast.FuncDecl); ok && x.Recv == nil && x.Name.Name == fn {
						fd = x
					}
				}
			}
			if fd == nil {
				t.errs = append(t.errs, fmt.Sprintf("package %s: function %s not found", tg.Pkg, fn))
				continue
			}
			nerr := len(t.errs)
			obj := info.Defs[fd.Name].(*types.Func)
			sig := obj.Type().(*types.Signature)
			params := []string{}
			for i := 0; i < sig.Params().Len(); i++ {
				p := sig.Params().At(i)
				params = append(params, fmt.Sprintf("(%s : %s)", ident(p.Name()), t.coqType(fd, p.Type())))
			}
			var rty string
			if sig.Results().Len() == 1 {
				rty = t.coqType(fd, sig.Results().At(0).Type())
			} else {
				rty = t.coqType(fd, sig.Results())
			}
			body := t.stmts(fd.Body.List, noRest)
			if strings.Contains(body, noRest) {
				t.fail(fd, "function %s can fall off its end without a return", fn)
			}
			var src bytes.Buffer
			_ = format.Node(&src, fset, fd)
			h := sha256.Sum256(src.Bytes())
			pos := fset.Position(fd.Pos())
			end := fset.Position(fd.End())
			relf, _ := filepath.Rel(*repo, pos.Filename)
			if len(t.errs) > nerr {
				// left the subset: refuse THIS function loudly and leave it out, so that exactly the
				// bridge lemmas about it stop compiling (the rest of Gen.v is unaffected)
				fmt.Fprintf(&buf, "(* %s:%d-%d  REFUSED by the translator (function %s is not emitted) *)\n\n", relf, pos.Line, end.Line, fn)
				continue
			}
			fmt.Fprintf(&buf, "(* %s:%d-%d  sha256(src)=%x *)\n", relf, pos.Line, end.Line, h[:8])
			fmt.Fprintf(&buf, "Definition %s %s : %s :=\n %s.\n\n", ident(fn), strings.Join(params, " "), rty, body)
			items = append(items, genItem{Kind: "func", Pkg: tg.Pkg, Name: fn, Pos: fmt.Sprintf("%s:%d-%d", relf, pos.Line, end.Line), Hash: fmt.Sprintf("%x", h[:8])})
		}
		fmt.Fprintf(&buf, "End %s.\n\n", tg.Pkg)
		allErrs = append(allErrs, t.errs...)
	}

	// Per-item problems (a function left the subset, a function or table was removed or renamed) are
	// reported loudly but are not fatal: the item is simply absent from Gen.v, so the bridge lemmas
	// that mention it — and only those — stop compiling.
	for _, e := range allErrs {
		fmt.Fprintln(os.Stderr, "translator: REFUSED/MISSING:", e)
	}
	if *out == "" {
		os.Stdout.Write(buf.Bytes())
	} else {
		old, _ := os.ReadFile(*out)
		if !bytes.Equal(old, buf.Bytes()) {
			if err := os.WriteFile(*out, buf.Bytes(), 0o644); err != nil {
				fmt.Fprintln(os.Stderr, "translator:", err)
				os.Exit(2)
			}
		}
	}
	if *manifest != "" {
		js, _ := json.MarshalIndent(items, "", " ")
		_ = os.WriteFile(*manifest, js, 0o644)
	}
	if *out2 != "" { // v2 pass: after Gen.v has been written, never touches it
		if rc := runV2(ci, *repo, *out2, *manifest2); rc != 0 {
			os.Exit(rc)
		}
	}
}
