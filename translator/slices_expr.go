package main

import (
	"fmt"
	"go/ast"
	"go/constant"
	"go/token"
	"go/types"
	"strconv"
	"strings"
)

func coqString(s string) string {
	return "\"" + strings.ReplaceAll(s, "\"", "\"\"") + "\"%string"
}

func constIntOf(info *types.Info, e ast.Expr) (int64, bool) {
	tv, ok := info.Types[e]
	if !ok || tv.Value == nil || tv.Value.Kind() != constant.Int {
		return 0, false
	}
	return constant.Int64Val(tv.Value)
}

// expr translates e; partial sub-operations are appended to bs (in evaluation order), the result
// is a pure Coq term over the variables bound so far.
func (t *tr2) expr(e ast.Expr, bs *[]bind) string {
	if tv, ok := t.info.Types[e]; ok && tv.Value != nil {
		switch tv.Value.Kind() {
		case constant.Int:
			return zlit(tv.Value)
		case constant.Bool:
			if constant.BoolVal(tv.Value) {
				return "true"
			}
			return "false"
		case constant.String:
			if isString(tv.Type) {
				bsv := []byte(constant.StringVal(tv.Value))
				parts := make([]string, len(bsv))
				for i, b := range bsv {
					parts[i] = strconv.Itoa(int(b))
				}
				return "[" + strings.Join(parts, "; ") + "]"
			}
		}
	}
	switch x := e.(type) {
	case *ast.ParenExpr:
		return t.expr(x.X, bs)
	case *ast.Ident:
		return t.identExpr(x)
	case *ast.SelectorExpr:
		return t.selector(x, bs)
	case *ast.IndexExpr:
		return t.index(x, bs)
	case *ast.SliceExpr:
		v, _, _ := t.slice(x, bs)
		return v
	case *ast.StarExpr:
		p := t.expr(x.X, bs)
		if _, ok := ptrStruct(t.info.TypeOf(x.X)); !ok {
			t.fail(x, "dereference of unsupported pointer type")
			return "tt"
		}
		tmp := t.freshTmp()
		*bs = append(*bs, bind{pat: tmp, rhs: "(go_deref " + p + ")"})
		return tmp
	case *ast.UnaryExpr:
		return t.unary(x, bs)
	case *ast.BinaryExpr:
		return t.binary(x, bs)
	case *ast.CallExpr:
		return t.call(x, bs)
	case *ast.CompositeLit:
		return t.composite(x, bs)
	}
	t.fail(e, "unsupported expression %T", e)
	return "0"
}

func (t *tr2) identExpr(x *ast.Ident) string {
	switch x.Name {
	case "true", "false":
		return x.Name
	case "nil":
		ty := t.info.TypeOf(x)
		if b, ok := ty.(*types.Basic); ok && b.Kind() == types.UntypedNil {
			t.fail(x, "nil without a type context")
			return "tt"
		}
		if isErrorType(ty) {
			return "ErrNil"
		}
		if _, ok := ptrStruct(ty); ok {
			return "None"
		}
		if isBytePtr(ty) {
			return "None"
		}
		if isSlice(ty) && (isBytes(ty) || isBoolList(ty)) {
			return "[]"
		}
		if _, ok := t.isStructList(ty); ok {
			return "[]"
		}
		if _, ok := isSumList(ty); ok {
			return "[]"
		}
		if _, ok := seqElem(ty); ok {
			return "[]"
		}
		t.fail(x, "nil of unsupported type %s", ty)
		return "tt"
	}
	obj := t.info.Uses[x]
	if obj == nil {
		obj = t.info.Defs[x]
	}
	v, ok := obj.(*types.Var)
	if !ok {
		t.fail(x, "identifier %s is not a variable", x.Name)
		return "0"
	}
	if v.Parent() == v.Pkg().Scope() { // package-level variable
		if isErrorType(v.Type()) {
			return "(ErrIs " + coqString(v.Name()) + ")"
		}
		t.fail(x, "package-level variable %s outside the subset", x.Name)
		return "0"
	}
	if !t.typeOK(v.Type()) {
		t.fail(x, "variable %s of unsupported type %s", x.Name, v.Type())
	}
	return ident(x.Name)
}

func (t *tr2) selector(x *ast.SelectorExpr, bs *[]bind) string {
	// qualified identifier pkg.Name
	if id, ok := x.X.(*ast.Ident); ok {
		if _, isPkg := t.info.Uses[id].(*types.PkgName); isPkg {
			if v, ok := t.info.Uses[x.Sel].(*types.Var); ok && isErrorType(v.Type()) {
				return "(ErrIs " + coqString(v.Pkg().Name()+"."+v.Name()) + ")"
			}
			t.fail(x, "qualified identifier %s.%s outside the subset", id.Name, x.Sel.Name)
			return "0"
		}
	}
	sel := t.info.Selections[x]
	if sel == nil || sel.Kind() != types.FieldVal {
		t.fail(x, "unsupported selector %s", x.Sel.Name)
		return "0"
	}
	base := t.expr(x.X, bs)
	bt := t.info.TypeOf(x.X)
	out := base
	cur := bt
	for _, ix := range sel.Index() {
		var nn *types.Named
		if n, _, ok := namedStruct(cur); ok {
			nn = n
		} else if n, ok := ptrStruct(cur); ok {
			nn = n
			tmp := t.freshTmp()
			*bs = append(*bs, bind{pat: tmp, rhs: "(go_deref " + out + ")"})
			out = tmp
		} else {
			t.fail(x, "field of unsupported type %s", cur)
			return "0"
		}
		if !t.typeOK(nn) {
			t.fail(x, "struct %s belongs to a package that is not translated", nn)
			return "0"
		}
		r := t.record(nn)
		f := r.fields[ix]
		if !f.ok {
			t.fail(x, "field %s.%s has a type outside the subset", r.name, f.goName)
			return "0"
		}
		if f.ext != "" && !t.extOK {
			t.fail(x, "external function field %s.%s may only be called or compared with nil", r.name, f.goName)
			return "0"
		}
		out = "(" + t.q(r.mod, f.coq) + " " + out + ")"
		cur = f.ty
	}
	return out
}

// extFieldOf: x selects a registered external function field; returns the record, the field and
// the index path is of length one.
func (t *tr2) extFieldOf(e ast.Expr) (*ast.SelectorExpr, *recInfo, *recField) {
	x, ok := e.(*ast.SelectorExpr)
	if !ok {
		return nil, nil, nil
	}
	sel := t.info.Selections[x]
	if sel == nil || sel.Kind() != types.FieldVal || len(sel.Index()) != 1 {
		return nil, nil, nil
	}
	bt := t.info.TypeOf(x.X)
	var nn *types.Named
	if n, _, ok := namedStruct(bt); ok {
		nn = n
	} else if n, ok := ptrStruct(bt); ok {
		nn = n
	}
	if nn == nil || !t.typeOK(nn) {
		return nil, nil, nil
	}
	r := t.record(nn)
	f := &r.fields[sel.Index()[0]]
	if f.ext == "" {
		return nil, nil, nil
	}
	return x, r, f
}

// structValue: the value of the struct an external field belongs to (dereferenced).
func (t *tr2) structValue(x ast.Expr, bs *[]bind) string {
	v := t.expr(x, bs)
	if _, isP := t.info.TypeOf(x).Underlying().(*types.Pointer); isP {
		tmp := t.freshTmp()
		*bs = append(*bs, bind{pat: tmp, rhs: "(go_deref " + v + ")"})
		return tmp
	}
	return v
}

func (t *tr2) index(x *ast.IndexExpr, bs *[]bind) string {
	bt := t.info.TypeOf(x.X)
	if _, ok := t.isStructList(bt); ok {
		base := t.expr(x.X, bs)
		idx := t.expr(x.Index, bs)
		tmp := t.freshTmp()
		*bs = append(*bs, bind{pat: tmp, rhs: "(go_index_g " + base + " " + idx + ")"})
		return tmp
	}
	if !isBytes(bt) {
		t.fail(x, "index into unsupported type %s", bt)
		return "0"
	}
	base := t.expr(x.X, bs)
	idx := t.expr(x.Index, bs)
	if _, arr := isArray(bt); arr {
		if _, c := constIntOf(t.info, x.Index); c {
			return "(arr_get " + base + " " + idx + ")"
		}
	}
	tmp := t.freshTmp()
	*bs = append(*bs, bind{pat: tmp, rhs: "(go_index " + base + " " + idx + ")"})
	return tmp
}

// slice translates x[lo:hi]; returns the value, the base value and lo.
func (t *tr2) slice(x *ast.SliceExpr, bs *[]bind) (val, base, lo string) {
	bt := t.info.TypeOf(x.X)
	if _, ok := t.isStructList(bt); ok && !x.Slice3 {
		base = t.expr(x.X, bs)
		lo = "0"
		if x.Low != nil {
			lo = t.expr(x.Low, bs)
		}
		hi := "(Z.of_nat (length " + base + "))"
		if x.High != nil {
			hi = t.expr(x.High, bs)
		}
		if x.Low == nil && x.High == nil {
			return base, base, "0"
		}
		tmp := t.freshTmp()
		*bs = append(*bs, bind{pat: tmp, rhs: "(go_slice_g " + base + " " + lo + " " + hi + ")"})
		return tmp, base, lo
	}
	if !isBytes(bt) {
		t.fail(x, "slice of unsupported type %s", bt)
		return "[]", "[]", "0"
	}
	if x.Slice3 {
		t.fail(x, "3-index slice unsupported")
	}
	base = t.expr(x.X, bs)
	allConst := true
	lo = "0"
	if x.Low != nil {
		lo = t.expr(x.Low, bs)
		_, c := constIntOf(t.info, x.Low)
		allConst = allConst && c
	}
	var hi string
	ln, arr := isArray(bt)
	if x.High != nil {
		hi = t.expr(x.High, bs)
		_, c := constIntOf(t.info, x.High)
		allConst = allConst && c
	} else if arr {
		hi = fmt.Sprintf("%d", ln)
	} else {
		hi = "(go_len " + base + ")"
	}
	if x.Low == nil && x.High == nil {
		return base, base, "0" // x[:] has the same contents
	}
	if arr && allConst {
		return "(arr_slice " + base + " " + lo + " " + hi + ")", base, lo
	}
	tmp := t.freshTmp()
	*bs = append(*bs, bind{pat: tmp, rhs: "(go_slice " + base + " " + lo + " " + hi + ")"})
	return tmp, base, lo
}

func (t *tr2) unary(x *ast.UnaryExpr, bs *[]bind) string {
	switch x.Op {
	case token.NOT:
		return "(negb " + t.expr(x.X, bs) + ")"
	case token.ADD:
		return t.expr(x.X, bs)
	case token.SUB, token.XOR:
		k, ok := intKind(t.info.TypeOf(x))
		if !ok {
			t.fail(x, "unary %s on non-integer", x.Op)
			return "0"
		}
		a := t.expr(x.X, bs)
		if x.Op == token.SUB {
			return wrap(k, "(- "+a+")")
		}
		return wrap(k, "(Z.lnot "+a+")")
	case token.AND:
		if cl, ok := x.X.(*ast.CompositeLit); ok {
			if _, _, isS := namedStruct(t.info.TypeOf(cl)); isS {
				return "(Some " + t.composite(cl, bs) + ")"
			}
		}
		t.fail(x, "address-of outside the subset (only &Struct{...}, or &local in a return)")
		return "None"
	}
	t.fail(x, "unsupported unary operator %s", x.Op)
	return "0"
}

func (t *tr2) arith(n ast.Node, op token.Token, a, b string, k ikind, bconst bool, bs *[]bind) string {
	switch op {
	case token.ADD:
		return wrap(k, "("+a+" + "+b+")")
	case token.SUB:
		return wrap(k, "("+a+" - "+b+")")
	case token.MUL:
		return wrap(k, "("+a+" * "+b+")")
	case token.QUO, token.REM:
		fn := map[token.Token]string{token.QUO: "quot", token.REM: "rem"}[op]
		if bconst {
			return wrap(k, "(go"+fn+" "+a+" "+b+")")
		}
		tmp := t.freshTmp()
		*bs = append(*bs, bind{pat: tmp, rhs: "(go_" + fn + " " + a + " " + b + ")"})
		return wrap(k, tmp)
	case token.AND:
		return "(Z.land " + a + " " + b + ")"
	case token.OR:
		return "(Z.lor " + a + " " + b + ")"
	case token.XOR:
		return "(Z.lxor " + a + " " + b + ")"
	case token.AND_NOT:
		return "(Z.land " + a + " " + wrap(k, "(Z.lnot "+b+")") + ")"
	case token.SHL:
		if k.signed {
			return fmt.Sprintf("(shlS %d %s %s)", k.bits, a, b)
		}
		return fmt.Sprintf("(shlU %d %s %s)", k.bits, a, b)
	case token.SHR:
		if k.signed {
			return fmt.Sprintf("(shrS %d %s %s)", k.bits, a, b)
		}
		return fmt.Sprintf("(shrU %d %s %s)", k.bits, a, b)
	}
	t.fail(n, "unsupported binary operator %s", op)
	return "0"
}

func (t *tr2) binary(x *ast.BinaryExpr, bs *[]bind) string {
	lt := t.info.TypeOf(x.X)
	switch x.Op {
	case token.LAND, token.LOR:
		a := t.expr(x.X, bs)
		var rb []bind
		b := t.expr(x.Y, &rb)
		op := map[token.Token]string{token.LAND: "andb", token.LOR: "orb"}[x.Op]
		if len(rb) == 0 {
			return "(" + op + " " + a + " " + b + ")"
		}
		tmp := t.freshTmp()
		inner := wrapBinds(rb, "(GOk "+b+")")
		if x.Op == token.LAND {
			*bs = append(*bs, bind{pat: tmp, rhs: "(if " + a + " then " + inner + " else GOk false)"})
		} else {
			*bs = append(*bs, bind{pat: tmp, rhs: "(if " + a + " then GOk true else " + inner + ")"})
		}
		return tmp
	case token.EQL, token.NEQ:
		var s string
		isNil := func(e ast.Expr) bool {
			id, ok := e.(*ast.Ident)
			return ok && id.Name == "nil"
		}
		switch {
		case isNil(x.Y) || isNil(x.X):
			o := x.X
			if isNil(x.X) {
				o = x.Y
			}
			ot := t.info.TypeOf(o)
			if sx, r, f := t.extFieldOf(o); f != nil && f.ext == "call" {
				d := t.structValue(sx.X, bs)
				s = "(negb (" + t.q(r.mod, f.coq) + " " + d + "))"
				if x.Op == token.NEQ {
					return "(negb " + s + ")"
				}
				return s
			}
			ov := t.expr(o, bs)
			if isErrorType(ot) {
				s = "(goerr_is_nil " + ov + ")"
			} else if _, ok := ptrStruct(ot); ok {
				s = "(go_is_nil " + ov + ")"
			} else if isBytePtr(ot) {
				s = "(go_is_nil " + ov + ")"
			} else {
				t.fail(x, "comparison with nil on unsupported type %s", ot)
				s = "true"
			}
		case func() bool { _, _, ok := namedStruct(lt); return ok && t.typeOK(lt) }():
			nn, _, _ := namedStruct(lt)
			r := t.record(nn)
			if _, ok := t.recEqb(r); !ok {
				t.fail(x, "== on struct %s, which has a field that is not comparable in the subset", r.name)
				s = "true"
			} else {
				s = "(" + t.q(r.mod, "eqb_"+r.name) + " " + t.expr(x.X, bs) + " " + t.expr(x.Y, bs) + ")"
			}
		case isBool(lt):
			s = "(Bool.eqb " + t.expr(x.X, bs) + " " + t.expr(x.Y, bs) + ")"
		case isBytes(lt) && !isSlice(lt):
			s = "(list_eqb " + t.expr(x.X, bs) + " " + t.expr(x.Y, bs) + ")"
		default:
			if _, ok := intKind(lt); ok {
				s = "(Z.eqb " + t.expr(x.X, bs) + " " + t.expr(x.Y, bs) + ")"
			} else {
				t.fail(x, "== on unsupported type %s", lt)
				s = "true"
			}
		}
		if x.Op == token.NEQ {
			return "(negb " + s + ")"
		}
		return s
	case token.LSS, token.LEQ, token.GTR, token.GEQ:
		if _, ok := intKind(lt); !ok {
			t.fail(x, "ordering on unsupported type %s", lt)
		}
		op := map[token.Token]string{token.LSS: "Z.ltb", token.LEQ: "Z.leb", token.GTR: "Z.gtb", token.GEQ: "Z.geb"}[x.Op]
		return "(" + op + " " + t.expr(x.X, bs) + " " + t.expr(x.Y, bs) + ")"
	}
	k, ok := intKind(t.info.TypeOf(x))
	if !ok {
		t.fail(x, "arithmetic on unsupported type %s", t.info.TypeOf(x))
		return "0"
	}
	if x.Op == token.SHL || x.Op == token.SHR {
		if ck, ok := intKind(t.info.TypeOf(x.Y)); ok && ck.signed {
			if _, c := constIntOf(t.info, x.Y); !c {
				t.fail(x, "shift by a signed non-constant count unsupported (negative count panics)")
			}
		}
	}
	a := t.expr(x.X, bs)
	b := t.expr(x.Y, bs)
	cv, c := constIntOf(t.info, x.Y)
	return t.arith(x, x.Op, a, b, k, c && cv != 0, bs)
}

func (t *tr2) composite(x *ast.CompositeLit, bs *[]bind) string {
	ty := t.info.TypeOf(x)
	if _, ok := absIntKind(ty); ok && len(x.Elts) == 0 {
		return "0" // time.Time{}
	}
	if _, ok := isSumList(ty); ok && len(x.Elts) == 0 {
		t.ctype(x, ty)
		return "[]"
	}
	if nn, st, ok := namedStruct(ty); ok && t.typeOK(ty) {
		r := t.record(nn)
		vals := map[int]string{}
		for i, el := range x.Elts {
			idx := i
			val := el
			if kv, ok := el.(*ast.KeyValueExpr); ok {
				key, _ := kv.Key.(*ast.Ident)
				idx = -1
				for j := 0; j < st.NumFields(); j++ {
					if key != nil && st.Field(j).Name() == key.Name {
						idx = j
					}
				}
				val = kv.Value
			}
			if idx < 0 || idx >= len(r.fields) {
				t.fail(el, "unknown field in literal of %s", r.name)
				continue
			}
			if !r.fields[idx].ok {
				t.fail(el, "literal sets field %s.%s whose type is outside the subset", r.name, r.fields[idx].goName)
				continue
			}
			vals[idx] = t.exprAs(val, st.Field(idx).Type(), bs)
		}
		parts := []string{t.q(r.mod, "mk_"+r.name)}
		for i, f := range r.fields {
			if !f.ok {
				continue
			}
			if v, ok := vals[i]; ok {
				parts = append(parts, v)
			} else {
				parts = append(parts, t.fieldZero(x, f))
			}
		}
		return "(" + strings.Join(parts, " ") + ")"
	}
	if isBytes(ty) {
		elems := []string{}
		for _, el := range x.Elts {
			if _, ok := el.(*ast.KeyValueExpr); ok {
				t.fail(el, "keyed array/slice literal unsupported")
				continue
			}
			elems = append(elems, t.expr(el, bs))
		}
		if ln, arr := isArray(ty); arr {
			for int64(len(elems)) < ln {
				elems = append(elems, "0")
			}
		}
		return "[" + strings.Join(elems, "; ") + "]"
	}
	t.fail(x, "composite literal of unsupported type %s", ty)
	return "tt"
}

// exprAs translates e in a context that expects type want (gives nil its type).
func (t *tr2) exprAs(e ast.Expr, want types.Type, bs *[]bind) string {
	if id, ok := e.(*ast.Ident); ok && id.Name == "nil" {
		return t.zero(e, want)
	}
	if si := sumOf(want); si != nil {
		have := t.info.TypeOf(e)
		if sumOf(have) == si {
			return t.expr(e, bs)
		}
		impl := implName(have)
		for _, i := range si.impls {
			if i == impl {
				t.ctype(e, want) // declares the Inductive
				return "(" + t.q(t.g.mods[modPath+"/"+si.pkg], sumCtor(si, impl)) + " " + t.expr(e, bs) + ")"
			}
		}
		t.fail(e, "value of type %s is not a registered implementation of %s", have, si.name)
		return "tt"
	}
	return t.expr(e, bs)
}

// ---------- calls ----------

func (t *tr2) args(x *ast.CallExpr, sig *types.Signature, bs *[]bind) []string {
	out := []string{}
	for i, a := range x.Args {
		if sig != nil && i < sig.Params().Len() {
			out = append(out, t.exprAs(a, sig.Params().At(i).Type(), bs))
		} else {
			out = append(out, t.expr(a, bs))
		}
	}
	return out
}

var beWidth = map[string]int{"Uint16": 2, "Uint32": 4, "Uint64": 8, "PutUint16": 2, "PutUint32": 4, "PutUint64": 8,
	"AppendUint16": 2, "AppendUint32": 4, "AppendUint64": 8}

// bigEndianMethod recognises binary.BigEndian.<M>.
func (t *tr2) bigEndianMethod(fun ast.Expr) (string, bool) {
	sel, ok := fun.(*ast.SelectorExpr)
	if !ok {
		return "", false
	}
	f, ok := t.info.Uses[sel.Sel].(*types.Func)
	if !ok || f.Pkg() == nil || f.Pkg().Path() != "encoding/binary" {
		return "", false
	}
	inner, ok := sel.X.(*ast.SelectorExpr)
	if !ok || inner.Sel.Name != "BigEndian" {
		return "", false
	}
	if _, ok := beWidth[f.Name()]; !ok {
		return "", false
	}
	return f.Name(), true
}

func (t *tr2) call(x *ast.CallExpr, bs *[]bind) string {
	// conversion
	if tv, ok := t.info.Types[x.Fun]; ok && tv.IsType() {
		if len(x.Args) != 1 {
			t.fail(x, "conversion arity")
			return "0"
		}
		dst := tv.Type
		src := t.info.TypeOf(x.Args[0])
		if isBool(dst) && isBool(src) {
			return t.expr(x.Args[0], bs)
		}
		if id, isId := x.Args[0].(*ast.Ident); isId && id.Name == "nil" && isSlice(dst) && isBytes(dst) {
			return "[]"
		}
		kd, ok1 := intKind(dst)
		_, ok2 := intKind(src)
		if ok1 && ok2 {
			return wrap(kd, t.expr(x.Args[0], bs))
		}
		if fd, isFd := floatKind(dst); isFd {
			if fs, isFs := floatKind(src); isFs {
				switch {
				case fd == fs:
					return t.expr(x.Args[0], bs)
				case fd.bits == 64 && fs.bits == 32:
					return "(go_f32_widen " + t.expr(x.Args[0], bs) + ")" // exact
				}
				t.fail(x, "float64 -> float32 conversion (rounding) is outside the subset")
				return "0"
			}
		}
		if (isString(dst) && isSlice(src) && isBytes(src) && elemKind(src) == (ikind{false, 8})) ||
			(isString(src) && isSlice(dst) && isBytes(dst) && elemKind(dst) == (ikind{false, 8})) ||
			(isString(src) && isString(dst)) {
			return t.expr(x.Args[0], bs) // a copy of the same bytes
		}
		if !isString(dst) && !isString(src) && isBytes(dst) && isBytes(src) && types.Identical(dst.Underlying().(interface{ Elem() types.Type }).Elem().Underlying(), src.Underlying().(interface{ Elem() types.Type }).Elem().Underlying()) {
			v := t.expr(x.Args[0], bs)
			if ln, arr := isArray(dst); arr && isSlice(src) {
				tmp := t.freshTmp()
				*bs = append(*bs, bind{pat: tmp, rhs: fmt.Sprintf("(go_to_array %d %s)", ln, v)})
				return tmp
			}
			if isSlice(dst) && isSlice(src) {
				return v
			}
		}
		t.fail(x, "unsupported conversion %s -> %s", src, dst)
		return "0"
	}
	// builtins
	if id, ok := x.Fun.(*ast.Ident); ok {
		if _, isB := t.info.Uses[id].(*types.Builtin); isB {
			return t.builtin(id.Name, x, bs)
		}
	}
	// binary.BigEndian
	if m, ok := t.bigEndianMethod(x.Fun); ok {
		w := beWidth[m]
		switch {
		case strings.HasPrefix(m, "Uint") && len(x.Args) == 1:
			b := t.expr(x.Args[0], bs)
			tmp := t.freshTmp()
			*bs = append(*bs, bind{pat: tmp, rhs: fmt.Sprintf("(be_get %d %s)", w, b)})
			return tmp
		case strings.HasPrefix(m, "AppendUint") && len(x.Args) == 2:
			b := t.expr(x.Args[0], bs)
			v := t.expr(x.Args[1], bs)
			return fmt.Sprintf("(be_append %d %s %s)", w, b, v)
		}
		t.fail(x, "binary.BigEndian.%s is a statement, not an expression", m)
		return "0"
	}
	// sync/atomic integers: one sequential step each
	if tgt, m, k, ok := t.atomicCall(x); ok {
		switch {
		case m == "Load" && len(x.Args) == 0:
			return t.expr(tgt, bs)
		case m == "Add" && len(x.Args) == 1:
			cur := t.expr(tgt, bs)
			d := t.expr(x.Args[0], bs)
			tmp := t.freshTmp()
			*bs = append(*bs, bind{let: true, pat: tmp, rhs: wrap(k, "("+cur+" + "+d+")")})
			t.assign(tgt, tmp, bs)
			return tmp
		case m == "Store" && len(x.Args) == 1:
			v := t.expr(x.Args[0], bs)
			t.assign(tgt, v, bs)
			return "tt"
		case m == "CompareAndSwap" && len(x.Args) == 2:
			cur := t.expr(tgt, bs)
			o := t.expr(x.Args[0], bs)
			nw := t.expr(x.Args[1], bs)
			tmp := t.freshTmp()
			*bs = append(*bs, bind{let: true, pat: tmp, rhs: "(Z.eqb " + cur + " " + o + ")"})
			t.assign(tgt, "(if "+tmp+" then "+nw+" else "+cur+")", bs)
			return tmp
		}
		t.fail(x, "sync/atomic method %s outside the subset (Load, Add, Store, CompareAndSwap)", m)
		return "0"
	}
	if tgt, m, ok := t.atomicPtrCall(x); ok {
		switch {
		case m == "Load" && len(x.Args) == 0:
			return t.expr(tgt, bs)
		case m == "Store" && len(x.Args) == 1:
			v := t.expr(x.Args[0], bs)
			t.assign(tgt, v, bs)
			return "tt"
		}
		t.fail(x, "sync/atomic.Pointer method %s outside the subset (Load, Store)", m)
		return "0"
	}
	// math.Float32bits / Float64bits / Float32frombits / Float64frombits: identities on the bit pattern
	if f, ok := x.Fun.(*ast.SelectorExpr); ok {
		if id, ok := f.X.(*ast.Ident); ok {
			if pn, isPkg := t.info.Uses[id].(*types.PkgName); isPkg && pn.Imported().Path() == "math" {
				switch f.Sel.Name {
				case "Float32bits", "Float64bits", "Float32frombits", "Float64frombits":
					if len(x.Args) == 1 {
						return t.expr(x.Args[0], bs)
					}
				}
				t.fail(x, "math.%s outside the subset", f.Sel.Name)
				return "0"
			}
		}
	}
	// unsafe.Slice(p, n) / unsafe.SliceData(s) on *byte
	if f, ok := x.Fun.(*ast.SelectorExpr); ok {
		if id, ok := f.X.(*ast.Ident); ok {
			if pn, isPkg := t.info.Uses[id].(*types.PkgName); isPkg && pn.Imported().Path() == "unsafe" {
				switch {
				case f.Sel.Name == "Slice" && len(x.Args) == 2 && isBytePtr(t.info.TypeOf(x.Args[0])):
					p := t.expr(x.Args[0], bs)
					n := t.expr(x.Args[1], bs)
					tmp := t.freshTmp()
					*bs = append(*bs, bind{pat: tmp, rhs: "(go_unsafe_slice " + p + " " + n + ")"})
					return tmp
				case f.Sel.Name == "String" && len(x.Args) == 2 && isBytePtr(t.info.TypeOf(x.Args[0])):
					p := t.expr(x.Args[0], bs)
					n := t.expr(x.Args[1], bs)
					tmp := t.freshTmp()
					*bs = append(*bs, bind{pat: tmp, rhs: "(go_unsafe_slice " + p + " " + n + ")"})
					return tmp
				case f.Sel.Name == "SliceData" && len(x.Args) == 1 && isSlice(t.info.TypeOf(x.Args[0])) && isBytes(t.info.TypeOf(x.Args[0])):
					return "(go_slice_data " + t.expr(x.Args[0], bs) + ")"
				}
				t.fail(x, "unsafe.%s outside the subset (Slice / SliceData on bytes)", f.Sel.Name)
				return "0"
			}
		}
	}
	// call of a registered external function field: x.f(args)
	if sx, r, f := t.extFieldOf(x.Fun); f != nil {
		d := t.structValue(sx.X, bs)
		if f.ext == "read" {
			return "(" + t.q(r.mod, f.coq) + " " + d + ")"
		}
		args := t.args(x, f.extSig, bs)
		chk := t.freshTmp()
		*bs = append(*bs, bind{pat: chk, rhs: "(if (" + t.q(r.mod, f.coq) + " " + d + ") then GOk tt else GPanic)"}) // nil function value
		av := "tt"
		if len(args) == 1 {
			av = args[0]
		} else if len(args) > 1 {
			av = "(" + strings.Join(args, ", ") + ")"
		}
		logf := t.q(r.mod, f.coq+"_log")
		nd := "(" + t.q(r.mod, "set_"+f.coq+"_log") + " " + d + " ((" + logf + " " + d + ") ++ [" + av + "]))"
		if _, isP := t.info.TypeOf(sx.X).Underlying().(*types.Pointer); isP {
			nd = "(Some " + nd + ")"
		}
		if !t.ownedRoot(sx.X) {
			t.fail(x, "call of the external function field %s.%s: its struct must be a local owned by this function (own receiver, fresh pointer, struct value)", r.name, f.goName)
			return "tt"
		}
		t.assignOwned(sx.X, nd, bs)
		if f.extSig.Results().Len() == 1 {
			return "(" + t.q(r.mod, f.coq+"_ret") + " " + d + ")"
		}
		return "tt"
	}
	// methods of library value types modelled as int64 (time.Time)
	if f, ok := x.Fun.(*ast.SelectorExpr); ok {
		if sel := t.info.Selections[f]; sel != nil && sel.Kind() == types.MethodVal {
			if k, isAbs := absIntKind(t.info.TypeOf(f.X)); isAbs {
				if f.Sel.Name == "Sub" && len(x.Args) == 1 {
					a := t.expr(f.X, bs)
					b := t.expr(x.Args[0], bs)
					return wrap(k, "("+a+" - "+b+")")
				}
				t.fail(x, "method %s of %s is not modelled (only Sub)", f.Sel.Name, t.info.TypeOf(f.X))
				return "0"
			}
		}
	}
	// call of a registered external method: x.m(args)
	if f, ok := x.Fun.(*ast.SelectorExpr); ok {
		if fn, kind, owner := t.extMethodOf(f); fn != nil {
			sel := t.info.Selections[f]
			path := sel.Index()[:len(sel.Index())-1]
			// the object: walk to the (embedded) field the method belongs to
			v := t.expr(f.X, bs)
			cur := t.info.TypeOf(f.X)
			deref := func() {
				if _, isP := cur.Underlying().(*types.Pointer); isP {
					tmp := t.freshTmp()
					*bs = append(*bs, bind{pat: tmp, rhs: "(go_deref " + v + ")"})
					v = tmp
					cur = cur.Underlying().(*types.Pointer).Elem()
				}
			}
			deref()
			for _, ix := range path {
				nn, _, isS := namedStruct(cur)
				if !isS || !t.typeOK(nn) {
					t.fail(x, "promoted external method through unsupported type %s", cur)
					return "0"
				}
				r := t.record(nn)
				fl := r.fields[ix]
				if !fl.ok {
					t.fail(x, "embedded field %s.%s has a type outside the subset", r.name, fl.goName)
					return "0"
				}
				v = "(" + t.q(r.mod, fl.coq) + " " + v + ")"
				cur = fl.ty
				deref()
			}
			r := t.record(owner)
			sig := fn.Type().(*types.Signature)
			ret := "tt"
			if sig.Results().Len() == 1 {
				ret = "(" + t.q(r.mod, r.name+"_"+fn.Name()+"_ret") + " " + v + ")"
			}
			if kind == "read" {
				return ret
			}
			if len(path) != 0 {
				t.fail(x, "external call method %s reached through an embedded field: unsupported", fn.Name())
				return ret
			}
			args := []string{}
			for j, a := range x.Args {
				if j < sig.Params().Len() && isContextType(sig.Params().At(j).Type()) {
					continue // context operands are dropped (context.Background() etc. are not evaluated)
				}
				if j < sig.Params().Len() {
					args = append(args, t.exprAs(a, sig.Params().At(j).Type(), bs))
				} else {
					args = append(args, t.expr(a, bs))
				}
			}
			ctor := t.q(r.mod, r.name+"_call_"+fn.Name())
			if len(args) > 0 {
				ctor = "(" + ctor + " " + strings.Join(args, " ") + ")"
			}
			calls := t.q(r.mod, r.name+"_calls")
			nd := "(" + t.q(r.mod, "set_"+r.name+"_calls") + " " + v + " ((" + calls + " " + v + ") ++ [" + ctor + "]))"
			if _, isP := t.info.TypeOf(f.X).Underlying().(*types.Pointer); isP {
				nd = "(Some " + nd + ")"
			}
			if !t.ownedRoot(f.X) {
				t.fail(x, "call of the external method %s.%s: the object must be (a field of) a local owned by this function", r.name, fn.Name())
				return ret
			}
			t.assignOwned(f.X, nd, bs)
			return ret
		}
	}
	var callee *types.Func
	var recv ast.Expr
	var recvPath []int
	switch f := x.Fun.(type) {
	case *ast.Ident:
		callee, _ = t.info.Uses[f].(*types.Func)
	case *ast.SelectorExpr:
		if sel := t.info.Selections[f]; sel != nil {
			if sel.Kind() == types.MethodVal {
				callee, _ = sel.Obj().(*types.Func)
				recv = f.X
				recvPath = sel.Index()[:len(sel.Index())-1]
			}
		} else {
			callee, _ = t.info.Uses[f.Sel].(*types.Func)
		}
	}
	if callee == nil {
		t.fail(x, "call of something that is not a named function")
		return "0"
	}
	if callee.Pkg() != nil {
		switch callee.Pkg().Path() + "." + callee.Name() {
		case "errors.New":
			if s, ok := t.constString(x.Args[0]); ok {
				return "(ErrNew " + coqString(s) + ")"
			}
			t.fail(x, "errors.New of a non-constant string")
			return "ErrNil"
		case "fmt.Errorf":
			return t.errorf(x, bs)
		}
	}
	if callee.Pkg() != nil && abstractCtor2[callee.Pkg().Path()+"."+callee.Name()] && recv == nil {
		if len(x.Args) == 1 && isBytes(t.info.TypeOf(x.Args[0])) && isAbstractBytes(t.info.TypeOf(x)) {
			return t.expr(x.Args[0], bs)
		}
		t.fail(x, "abstract-bytes constructor %s used with unexpected types", callee.Name())
		return "[]"
	}
	// method call on a sum interface: dispatch on the constructor
	if recv != nil {
		if si := sumOf(t.info.TypeOf(recv)); si != nil {
			return t.sumDispatch(x, si, recv, callee.Name(), bs)
		}
	}
	// abstract-bytes interface methods
	if recv != nil && isAbstractBytes(t.info.TypeOf(recv)) {
		rv := t.expr(recv, bs)
		switch {
		case callee.Name() == "Len" && len(x.Args) == 0:
			return "(go_len " + rv + ")"
		case callee.Name() == "AppendTo" && len(x.Args) == 1:
			return "(" + t.expr(x.Args[0], bs) + " ++ " + rv + ")"
		case callee.Name() == "Chunk" && len(x.Args) == 2:
			// Body.Chunk(off, n): both implementations are chunkView(<encoded bytes>, off, n)
			if cv := callee.Pkg().Scope().Lookup("chunkView"); cv != nil {
				if fi, ok := t.g.fns[cv.(*types.Func)]; ok && fi.seq <= t.curSeq {
					off := t.expr(x.Args[0], bs)
					n := t.expr(x.Args[1], bs)
					tmp := t.freshTmp()
					*bs = append(*bs, bind{pat: tmp, rhs: "(" + t.q(fi.mod, fi.name) + " " + rv + " " + off + " " + n + ")"})
					return tmp
				}
			}
			t.fail(x, "Body.Chunk needs the translated chunkView (register it first)")
			return "0"
		}
		t.fail(x, "method %s of an abstract-bytes interface is not modelled", callee.Name())
		return "0"
	}
	if callee.Pkg() != nil && freshAlloc2[callee.Pkg().Path()+"."+recvName(callee)+callee.Name()] {
		rt := t.info.TypeOf(x)
		if pn, isP := ptrStruct(rt); isP && t.typeOK(rt) {
			return "(Some " + t.zero(x, pn) + ")"
		}
		t.fail(x, "fresh allocator %s does not return a pointer to a translated struct", callee.Name())
		return "None"
	}
	fi, ok := t.g.fns[callee]
	if !ok {
		t.fail(x, "call to untranslated function %s", callee.FullName())
		return "0"
	}
	if fi.seq > t.curSeq {
		t.fail(x, "call of %s, which is translated later (forward reference or mutual recursion): register the callee first; only direct self-recursion is supported", fi.name)
		return "0"
	}
	sig := callee.Type().(*types.Signature)
	parts := []string{t.q(fi.mod, fi.name)}
	if fi.fuel {
		if t.selfRec != callee {
			t.fail(x, "call of the fuel-recursive function %s from another translated function unsupported", fi.name)
			return "0"
		}
		parts = append(parts, "fuel_")
	}
	type step struct {
		setter, base string
	}
	var steps []step // for the write-back of a receiver-mutating call
	rootPtr := false
	if fi.mut {
		// state-passing callee: the updated receiver is written back into the receiver operand,
		// which must be a local this function owns (a fresh pointer, its own mutable receiver, or
		// a struct-valued local), possibly through embedded fields
		_, isP := t.info.TypeOf(recv).Underlying().(*types.Pointer)
		rootPtr = isP
		ok := t.ownedRoot(recv)
		if !ok {
			t.fail(x, "call of the receiver-mutating method %s: the receiver must be a local owned by this function (fresh pointer, own receiver, or struct value)", fi.name)
			return "0"
		}
	}
	if recv != nil {
		rv := t.expr(recv, bs)
		rt := t.info.TypeOf(recv)
		for _, ix := range recvPath { // promoted method: walk to the embedded field
			var nn *types.Named
			if n, _, ok := namedStruct(rt); ok {
				nn = n
			} else if n, ok := ptrStruct(rt); ok {
				nn = n
				tmp := t.freshTmp()
				*bs = append(*bs, bind{pat: tmp, rhs: "(go_deref " + rv + ")"})
				rv = tmp
			}
			if nn == nil || !t.typeOK(nn) {
				t.fail(x, "promoted method through unsupported type %s", rt)
				return "0"
			}
			r := t.record(nn)
			f := r.fields[ix]
			if !f.ok {
				t.fail(x, "embedded field %s.%s has a type outside the subset", r.name, f.goName)
				return "0"
			}
			steps = append(steps, step{setter: t.q(r.mod, "set_"+f.coq), base: rv})
			rv = "(" + t.q(r.mod, f.coq) + " " + rv + ")"
			rt = f.ty
		}
		_, wantPtr := sig.Recv().Type().Underlying().(*types.Pointer)
		_, havePtr := rt.Underlying().(*types.Pointer)
		if fi.mut && len(steps) == 0 && !havePtr {
			steps = nil
		}
		switch {
		case wantPtr && !havePtr:
			rv = "(Some " + rv + ")" // method value on an addressable operand; the callee may not write through it
		case !wantPtr && havePtr:
			tmp := t.freshTmp()
			*bs = append(*bs, bind{pat: tmp, rhs: "(go_deref " + rv + ")"})
			rv = tmp
		}
		parts = append(parts, rv)
	}
	parts = append(parts, t.args(x, sig, bs)...)
	tmp := t.freshTmp()
	*bs = append(*bs, bind{pat: tmp, rhs: "(" + strings.Join(parts, " ") + ")"})
	if fi.mut {
		rnew, res := t.freshTmp(), t.freshTmp()
		*bs = append(*bs, bind{let: true, pat: "'(" + rnew + ", " + res + ")", rhs: tmp})
		inner := t.freshTmp()
		*bs = append(*bs, bind{pat: inner, rhs: "(go_deref " + rnew + ")"}) // the callee returns a non-nil receiver
		val := inner
		for i := len(steps) - 1; i >= 0; i-- {
			val = "(" + steps[i].setter + " " + steps[i].base + " " + val + ")"
		}
		if rootPtr {
			val = "(Some " + val + ")"
		}
		t.assignOwned(recv, val, bs)
		return res
	}
	return tmp
}

func (t *tr2) constString(e ast.Expr) (string, bool) {
	tv, ok := t.info.Types[e]
	if !ok || tv.Value == nil || tv.Value.Kind() != constant.String {
		return "", false
	}
	return constant.StringVal(tv.Value), true
}

// errorf: the class errors.Is can see. Exactly one %w whose operand is an error expression of the
// subset (a sentinel or an error variable) gives that operand; no %w gives an anonymous error.
// The other operands are still translated (their panics are part of the behaviour).
func (t *tr2) errorf(x *ast.CallExpr, bs *[]bind) string {
	if len(x.Args) == 0 {
		t.fail(x, "fmt.Errorf without format")
		return "ErrNil"
	}
	f, ok := t.constString(x.Args[0])
	if !ok {
		t.fail(x, "fmt.Errorf with a non-constant format")
		return "ErrNil"
	}
	verbs := []byte{}
	for i := 0; i < len(f); i++ {
		if f[i] != '%' {
			continue
		}
		i++
		for i < len(f) && strings.IndexByte("+-# 0123456789.", f[i]) >= 0 {
			i++
		}
		if i < len(f) && f[i] != '%' {
			if f[i] == '*' || f[i] == '[' {
				t.fail(x, "fmt.Errorf format with * or [n] unsupported")
			}
			verbs = append(verbs, f[i])
		}
	}
	if len(verbs) != len(x.Args)-1 {
		t.fail(x, "fmt.Errorf: %d verbs for %d operands", len(verbs), len(x.Args)-1)
		return "ErrNil"
	}
	res := ""
	for i, a := range x.Args[1:] {
		at := t.info.TypeOf(a)
		if verbs[i] == 'w' {
			if res != "" {
				t.fail(x, "fmt.Errorf with several %%w unsupported")
			}
			if !isErrorType(at) {
				t.fail(a, "%%w operand is not an error")
				continue
			}
			res = t.expr(a, bs)
			continue
		}
		if isErrorType(at) || isBool(at) || isBytes(at) {
			_ = t.expr(a, bs)
		} else if _, ok := intKind(at); ok {
			_ = t.expr(a, bs)
		} else {
			t.fail(a, "fmt.Errorf operand of unsupported type %s", at)
		}
	}
	if res == "" {
		return "(ErrNew " + coqString(f) + ")"
	}
	return res
}

func (t *tr2) builtin(name string, x *ast.CallExpr, bs *[]bind) string {
	switch name {
	case "cap":
		if len(x.Args) == 1 {
			if _, ok := chanElem(t.info.TypeOf(x.Args[0])); ok {
				return "(ch_cap " + t.expr(x.Args[0], bs) + ")"
			}
		}
	case "len":
		if len(x.Args) == 1 {
			if _, ok := chanElem(t.info.TypeOf(x.Args[0])); ok {
				return "(ch_len " + t.expr(x.Args[0], bs) + ")"
			}
		}
		if len(x.Args) == 1 && isBytes(t.info.TypeOf(x.Args[0])) {
			return "(go_len " + t.expr(x.Args[0], bs) + ")"
		}
		if len(x.Args) == 1 && isBoolList(t.info.TypeOf(x.Args[0])) {
			return "(Z.of_nat (length " + t.expr(x.Args[0], bs) + "))"
		}
		if _, ok := t.isStructList(t.info.TypeOf(x.Args[0])); ok && len(x.Args) == 1 {
			return "(Z.of_nat (length " + t.expr(x.Args[0], bs) + "))"
		}
		if _, ok := isSumList(t.info.TypeOf(x.Args[0])); ok && len(x.Args) == 1 {
			return "(Z.of_nat (length " + t.expr(x.Args[0], bs) + "))"
		}
	case "append":
		if _, ok := isSumList(t.info.TypeOf(x.Args[0])); ok && len(x.Args) >= 1 && x.Ellipsis == token.NoPos {
			lt := t.info.TypeOf(x)
			et := lt.Underlying().(*types.Slice).Elem()
			dst := t.exprAs(x.Args[0], lt, bs)
			elems := []string{}
			for _, a := range x.Args[1:] {
				elems = append(elems, t.exprAs(a, et, bs))
			}
			if len(elems) == 0 {
				return dst
			}
			return "(" + dst + " ++ [" + strings.Join(elems, "; ") + "])"
		}
		if _, ok := t.isStructList(t.info.TypeOf(x.Args[0])); ok && len(x.Args) >= 1 && x.Ellipsis == token.NoPos {
			dst := t.exprAs(x.Args[0], t.info.TypeOf(x), bs)
			elems := []string{}
			for _, a := range x.Args[1:] {
				elems = append(elems, t.expr(a, bs))
			}
			if len(elems) == 0 {
				return dst
			}
			return "(" + dst + " ++ [" + strings.Join(elems, "; ") + "])"
		}
		if len(x.Args) >= 1 && isSlice(t.info.TypeOf(x.Args[0])) && isBytes(t.info.TypeOf(x.Args[0])) {
			dst := t.exprAs(x.Args[0], t.info.TypeOf(x), bs)
			if x.Ellipsis != token.NoPos {
				if len(x.Args) != 2 || !isBytes(t.info.TypeOf(x.Args[1])) {
					t.fail(x, "append(dst, src...) with unsupported operand")
					return dst
				}
				return "(" + dst + " ++ " + t.expr(x.Args[1], bs) + ")"
			}
			if len(x.Args) == 1 {
				return dst
			}
			elems := []string{}
			for _, a := range x.Args[1:] {
				elems = append(elems, t.expr(a, bs))
			}
			return "(" + dst + " ++ [" + strings.Join(elems, "; ") + "])"
		}
	case "make":
		if _, ok := isSumList(t.info.TypeOf(x)); ok && len(x.Args) == 3 {
			if lv, c := constIntOf(t.info, x.Args[1]); c && lv == 0 { // make([]I, 0, cap): empty; a negative cap panics
				cp := t.expr(x.Args[2], bs)
				tmp := t.freshTmp()
				*bs = append(*bs, bind{pat: tmp, rhs: "(if " + cp + " <? 0 then GPanic else GOk tt)"})
				t.ctype(x, t.info.TypeOf(x))
				return "[]"
			}
		}
		if isBoolList(t.info.TypeOf(x)) && isSlice(t.info.TypeOf(x)) && len(x.Args) == 2 {
			n := t.expr(x.Args[1], bs)
			tmp := t.freshTmp()
			*bs = append(*bs, bind{pat: tmp, rhs: "(go_make_g false " + n + ")"})
			return tmp
		}
		if len(x.Args) >= 2 && isSlice(t.info.TypeOf(x)) && isBytes(t.info.TypeOf(x)) {
			n := t.expr(x.Args[1], bs)
			tmp := t.freshTmp()
			if len(x.Args) == 3 {
				c := t.expr(x.Args[2], bs)
				*bs = append(*bs, bind{pat: tmp, rhs: "(go_make_cap " + n + " " + c + ")"})
			} else {
				*bs = append(*bs, bind{pat: tmp, rhs: "(go_make " + n + ")"})
			}
			return tmp
		}
	case "min", "max":
		if _, ok := intKind(t.info.TypeOf(x)); ok && len(x.Args) >= 1 {
			acc := t.expr(x.Args[0], bs)
			for _, a := range x.Args[1:] {
				acc = "(Z." + name + " " + acc + " " + t.expr(a, bs) + ")"
			}
			return acc
		}
	}
	t.fail(x, "builtin %s outside the subset (arity %s)", name, strconv.Itoa(len(x.Args)))
	return "0"
}

func (t *tr2) sumDispatch(x *ast.CallExpr, si *sumInfo, recv ast.Expr, method string, bs *[]bind) string {
	rt := t.info.TypeOf(recv)
	t.ctype(recv, rt)
	rv := t.expr(recv, bs)
	pkg := rt.(*types.Named).Obj().Pkg()
	mod := t.g.mods[modPath+"/"+si.pkg]
	var argv []string
	arms := []string{"| " + t.q(mod, si.name+"_nil") + " => GPanic"}
	for k, impl := range si.impls {
		tn, _ := pkg.Scope().Lookup(strings.TrimPrefix(impl, "*")).(*types.TypeName)
		if tn == nil {
			t.fail(x, "sum interface %s: implementation %s not found", si.name, impl)
			continue
		}
		var recvTy types.Type = tn.Type()
		if strings.HasPrefix(impl, "*") {
			recvTy = types.NewPointer(tn.Type())
		}
		obj, _, _ := types.LookupFieldOrMethod(recvTy, true, pkg, method)
		m, _ := obj.(*types.Func)
		fi := t.g.fns[m]
		if m == nil || fi == nil {
			t.fail(x, "method %s of implementation %s of %s is not translated", method, impl, si.name)
			continue
		}
		if fi.mut {
			t.fail(x, "receiver-mutating method %s behind an interface unsupported", fi.name)
			continue
		}
		sig := m.Type().(*types.Signature)
		if k == 0 || argv == nil {
			argv = t.args(x, sig, bs)
		}
		arg := "v_"
		_, wantPtr := sig.Recv().Type().Underlying().(*types.Pointer)
		havePtr := strings.HasPrefix(impl, "*")
		call := ""
		switch {
		case wantPtr == havePtr:
			call = "(" + strings.Join(append([]string{t.q(fi.mod, fi.name), arg}, argv...), " ") + ")"
		case wantPtr && !havePtr:
			call = "(" + strings.Join(append([]string{t.q(fi.mod, fi.name), "(Some v_)"}, argv...), " ") + ")"
		default:
			call = "(gbind (go_deref v_) (fun d_ => " + strings.Join(append([]string{t.q(fi.mod, fi.name), "d_"}, argv...), " ") + "))"
		}
		arms = append(arms, "| "+t.q(mod, sumCtor(si, impl))+" v_ => "+call)
	}
	tmp := t.freshTmp()
	*bs = append(*bs, bind{pat: tmp, rhs: "(match " + rv + " with " + strings.Join(arms, " ") + " end)"})
	return tmp
}

func recvName(f *types.Func) string {
	sig, _ := f.Type().(*types.Signature)
	if sig == nil || sig.Recv() == nil {
		return ""
	}
	ty := sig.Recv().Type()
	if p, ok := ty.(*types.Pointer); ok {
		ty = p.Elem()
	}
	if n, ok := ty.(*types.Named); ok {
		return n.Obj().Name() + "."
	}
	return "?."
}

// ownedRoot: e is a local this function owns (a struct-valued local, a fresh pointer, the receiver of
// a state-passing method), or a field path from one. The pointee of a pointer FIELD on that path
// is treated as part of the owner's state (sharing with other objects is not modelled).
func (t *tr2) ownedRoot(e ast.Expr) bool {
	for {
		switch x := e.(type) {
		case *ast.ParenExpr:
			e = x.X
			continue
		case *ast.SelectorExpr:
			if sel := t.info.Selections[x]; sel == nil || sel.Kind() != types.FieldVal {
				return false
			}
			e = x.X
			continue
		case *ast.Ident:
			o := t.info.Uses[x]
			v, isV := o.(*types.Var)
			if !isV || (v.Pkg() != nil && v.Parent() == v.Pkg().Scope()) {
				return false
			}
			_, isP := v.Type().Underlying().(*types.Pointer)
			return !isP || t.fresh[o] || (t.mutRecv != nil && o == t.mutRecv)
		}
		return false
	}
}

// assignOwned stores val at the owned path e (ownedRoot(e) holds); a pointer field on the path is
// written through (its pointee belongs to the owner).
func (t *tr2) assignOwned(e ast.Expr, val string, bs *[]bind) {
	switch x := e.(type) {
	case *ast.ParenExpr:
		t.assignOwned(x.X, val, bs)
	case *ast.Ident:
		t.assign(x, val, bs)
	case *ast.SelectorExpr:
		sel := t.info.Selections[x]
		bt := t.info.TypeOf(x.X)
		base := t.expr(x.X, bs)
		_, viaPtr := bt.Underlying().(*types.Pointer)
		if viaPtr {
			tmp := t.freshTmp()
			*bs = append(*bs, bind{pat: tmp, rhs: "(go_deref " + base + ")"})
			base = tmp
		}
		cur := bt
		// walk the (possibly promoted) field path, remembering the setters
		type st struct{ setter, base string }
		var steps []st
		for _, ix := range sel.Index() {
			var nn *types.Named
			if n, _, ok := namedStruct(cur); ok {
				nn = n
			} else if n, ok := ptrStruct(cur); ok {
				nn = n
			}
			if nn == nil || !t.typeOK(nn) {
				t.fail(x, "assignment through unsupported type %s", cur)
				return
			}
			r := t.record(nn)
			f := r.fields[ix]
			if !f.ok {
				t.fail(x, "field %s.%s has a type outside the subset", r.name, f.goName)
				return
			}
			steps = append(steps, st{setter: t.q(r.mod, "set_"+f.coq), base: base})
			base = "(" + t.q(r.mod, f.coq) + " " + base + ")"
			cur = f.ty
		}
		for i := len(steps) - 1; i >= 0; i-- {
			val = "(" + steps[i].setter + " " + steps[i].base + " " + val + ")"
		}
		if viaPtr {
			val = "(Some " + val + ")"
		}
		t.assignOwned(x.X, val, bs)
	default:
		t.fail(e, "unsupported owned path %T", e)
	}
}

// extMethodOf: f selects a registered external method; returns the method, its kind and the
// named type that owns it.
func (t *tr2) extMethodOf(f *ast.SelectorExpr) (*types.Func, string, *types.Named) {
	sel := t.info.Selections[f]
	if sel == nil || sel.Kind() != types.MethodVal {
		return nil, "", nil
	}
	fn, _ := sel.Obj().(*types.Func)
	if fn == nil || fn.Pkg() == nil {
		return nil, "", nil
	}
	sig := fn.Type().(*types.Signature)
	if sig.Recv() == nil {
		return nil, "", nil
	}
	rt := sig.Recv().Type()
	if p, ok := rt.(*types.Pointer); ok {
		rt = p.Elem()
	}
	n, ok := rt.(*types.Named)
	if !ok {
		// a method of an interface: the receiver type is the interface itself; find the named type
		if nn, ok2 := t.info.TypeOf(f.X).(*types.Named); ok2 {
			n, ok = nn, true
		}
	}
	if !ok || n.Obj().Pkg() == nil {
		return nil, "", nil
	}
	kind := extMethods2[n.Obj().Pkg().Path()+"."+n.Obj().Name()+"."+fn.Name()]
	if kind == "" {
		return nil, "", nil
	}
	if t.g.mods[n.Obj().Pkg().Path()] == "" {
		return nil, "", nil
	}
	return fn, kind, n
}
