package main

// v2 targets, SECS-II leaf decoders (C02): decodeIntItem / decodeUintItem (payload loops reading
// big-endian elements, scalar fast path, raw-bytes retention via baseItem.setRaw). Bridged to
// decode_num of coq/theories/Secs2/Decode.v in coq/theories/Gen/Bridge2Secs2Decode.v.
//
// secs2.Item is the sum of the LEAF item types only (ListItem holds []Item: a mutually recursive
// type the translator does not generate); decodeItem itself (recursive, builds ListItem) is not
// translated. decodeSlab.next* hand out fresh zero items (trusted allocator; the slab's own
// bookkeeping is the subject of Secs2/Slab.v).
func init() {
	registerSum2("secs2", "Item", []string{"*IntItem", "*UintItem", "*BinaryItem", "*BooleanItem", "*ASCIIItem", "*JIS8Item", "*LocalizedStrItem"})
	for _, f := range []string{"nextInt", "nextUint", "nextFloat", "nextASCII", "nextJIS8", "nextLocalizedStr", "nextBinary", "nextBoolean"} {
		registerFreshAlloc2("secs2", "decodeSlab."+f)
	}
	register2("secs2", []string{"baseItem.setRaw", "decodeIntItem", "decodeUintItem"})
}
