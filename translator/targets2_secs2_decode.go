package main

// v2 targets, SECS-II leaf decoders (C02): decodeIntItem / decodeUintItem (payload loops reading
// big-endian elements, scalar fast path, raw-bytes retention via baseItem.setRaw). Bridged to
// decode_num of coq/theories/Secs2/Decode.v in coq/theories/Gen/Bridge2Secs2Decode.v.
//
// secs2.Item is the sum of the nine built-in item types; ListItem holds []Item and is declared in the
// same mutual Inductive. decodeItem is self-recursive: it is a Fixpoint on an explicit fuel (out of
// fuel = GPanic; the bridge quantifies over sufficient fuel). Floats are their IEEE bit patterns
// (float64(float32) = go_f32_widen). decodeSlab.next* hand out fresh zero items (trusted allocator;
// the slab's own bookkeeping is the subject of Secs2/Slab.v).
func init() {
	registerSum2("secs2", "Item", []string{"*IntItem", "*UintItem", "*FloatItem", "*BinaryItem", "*BooleanItem", "*ASCIIItem", "*JIS8Item", "*LocalizedStrItem", "*ListItem"})
	for _, f := range []string{"nextInt", "nextUint", "nextFloat", "nextASCII", "nextJIS8", "nextLocalizedStr", "nextBinary", "nextBoolean"} {
		registerFreshAlloc2("secs2", "decodeSlab."+f)
	}
	register2("secs2", []string{"baseItem.setRaw", "decodeIntItem", "decodeUintItem", "decodeFloatItem", "ownedString", "decodeItem"})
}
