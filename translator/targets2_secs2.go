package main

// v2 targets, SECS-II item header (C01/C03): appendHeaderBytesFC (format byte + minimal length
// bytes). Bridged to `header` of coq/theories/Secs2/Encode.v in coq/theories/Gen/Bridge2Secs2.v.
func init() {
	register2("secs2", []string{"appendHeaderBytesFC"})
}
