package t2

// every function below must be REFUSED by translator v2 (bin/vtie2 --selftest counts the refusals)

func badWhile(n int) int {
	for n > 0 {
		n--
	}
	return n
}

func badParamWrite(dst []byte) { dst[0] = 1 }

func badShadow(x int) int {
	if x > 0 {
		x := 2
		_ = x
	}
	return x
}

func badMap(m map[int]int) int { return m[1] }

func badClosure(x int) int {
	f := func() int { return x }
	return f()
}

func badBound(xs []byte) int {
	n := len(xs)
	s := 0
	for i := 0; i < n; i++ {
		n--
		s++
	}
	return s
}

func badAlias() []byte {
	a := make([]byte, 2)
	b := a
	a[0] = 1
	return b
}

func badString(s string) int {
	n := 0
	for _, r := range s {
		n += int(r)
	}
	return n
}

func badGoto(x int) int {
	if x > 0 {
		goto done
	}
	x++
done:
	return x
}

func badRangeWrite() int {
	xs := make([]byte, 3)
	s := 0
	for i, v := range xs {
		if i+1 < len(xs) {
			xs[i+1] = v + 1
		}
		s += int(v)
	}
	return s
}

func badAliasInLoop(n int) [][]byte {
	a := make([]byte, 2)
	var keep []byte
	for i := 0; i < n; i++ {
		keep = a
		a[0] = byte(i)
	}
	_ = keep
	return nil
}

type holder struct{ f func() int }

func badFuncField(h holder) int { return h.f() }

type other interface{ Do() }

func badIface(o other) { o.Do() }

func badFloatAdd(a, b float64) float64 { return a + b }

func badFloatLess(a, b float64) bool { return a < b }

func badFloatNarrow(a float64) float32 { return float32(a) }

// badMutualB (bad_helpers.go) calls back: mutual recursion.
func badMutualA(n int) int {
	if n == 0 {
		return 0
	}
	return badMutualB(n - 1)
}

func badSelectTwo(b *box) int {
	select {
	case b.q <- 1:
		return 1
	case <-b.out:
		return 2
	}
}

func badRecvValue(b *box) int { return <-b.q }

func badChanOfPointers(c chan *ctr) int { return len(c) }

func badNamedResult() (n int) {
	n = 3

	return
}

func badClose(b *box) { close(b.done) }

func badSeqBreak(total int) int {
	seq, _ := spans(total)
	for p := range seq {
		if p.n == 1 {
			break
		}
	}

	return 0
}

func badStrideVar(total, k int) int {
	s := 0
	for off := 0; off < total; off += k {
		s++
	}

	return s
}
