package t2

// badMutualB is the second half of the mutual recursion refused at badMutualA (bad.go); on its own
// it only calls an earlier function, so it is kept out of bad.go, where every function must be
// refused.
func badMutualB(n int) int {
	if n == 0 {
		return 1
	}
	return badMutualA(n - 1)
}
