// Package t2 is the self-test corpus of translator v2 (bin/vtie2 --selftest): one small function per
// construct of the subset; testdata2/SelfTest2.v evaluates the generated definitions.
package t2

import (
	"encoding/binary"
	"errors"
	"fmt"
)

var ErrOdd = errors.New("odd")

type pair struct {
	a uint8
	b [2]byte
}

func sumTo(n int) int {
	s := 0
	for i := 0; i < n; i++ {
		s += i
	}
	return s
}

func find(xs []byte, b byte) int {
	for i, v := range xs {
		if v == b {
			return i
		}
	}
	return -1
}

func countUntil(xs []byte) int {
	n := 0
	for _, v := range xs {
		if v == 0 {
			break
		}
		if v%2 == 1 {
			continue
		}
		n++
	}
	return n
}

func nested(xs []byte, k int) uint16 {
	var acc uint16
	for i := 0; i < k; i++ {
		for _, v := range xs {
			acc = acc*31 + uint16(v) + uint16(i)
		}
	}
	return acc
}

func at(xs []byte, i int) byte { return xs[i] }

func window(xs []byte, lo, hi int) []byte { return xs[lo:hi] }

func be(xs []byte) uint32 { return binary.BigEndian.Uint32(xs) }

func put(v uint16) []byte {
	b := make([]byte, 4)
	binary.BigEndian.PutUint16(b[1:3], v)
	b[0] = 7
	return binary.BigEndian.AppendUint32(b, 0x01020304)
}

func div(a, b int) int { return a / b }

func classify(b byte) int {
	r := 0
	switch {
	case b < 10:
		r = 1
	case b < 100:
		r = 2
	default:
		r = 3
	}
	return r * 2
}

func guarded(xs []byte, i int) bool { return i < len(xs) && xs[i] == 1 }

func check(xs []byte) (int, error) {
	n := 0
	for i := range xs {
		if xs[i]%2 == 1 {
			return i, fmt.Errorf("%w at %d", ErrOdd, i)
		}
		n += int(xs[i])
	}
	if n > 1000 {
		return 0, errors.New("too big")
	}
	return n, nil
}

func mk(a uint8) pair {
	p := pair{a: a}
	p.b[1] = a + 250
	copy(p.b[:], []byte{9})
	return p
}

func rangeInt(n int) int {
	s := 0
	for i := range n {
		s += i * i
	}
	return s
}

func lines(s string, off int) (int, int) {
	line, col := 1, 1
	for i := 0; i < off; i++ {
		if s[i] == '\n' {
			line++
			col = 1
		} else {
			col++
		}
	}
	return line, col
}

func greet(name string) []byte { return append([]byte("hi "), name...) }

func anyTrue(bs []bool) int {
	n := 0
	for _, b := range bs {
		if b {
			n++
		}
	}
	return n + len(bs)
}
