package t2

// round-4 constructs: an interface as an external object (scripted answers + ordered call log), a
// sum interface with a comma-ok type assertion, break inside a switch, a counter field of the
// receiver (state-passing).

type sink interface {
	Put(v int) error
	Mode() int
}

type shape interface{ area() int }

type sq struct{ s int }

type rc struct{ w, h int }

func (q *sq) area() int { return q.s * q.s }

func (r *rc) area() int { return r.w * r.h }

type disp struct {
	out sink
	n   int
}

func (d *disp) route(x shape, k int) bool {
	switch k {
	case 0:
		if d.out.Mode() != 1 {
			break
		}
		_ = d.out.Put(x.area())
	case 1:
		q, ok := x.(*sq)
		if !ok {
			return false
		}
		_ = d.out.Put(q.s)
	default:
		d.n++
	}

	return true
}
