package t2

import "sync/atomic"

// round-6 constructs: buffered channels as bounded FIFOs (blocking send, non-blocking send and
// receive in a select, len / cap), a receive case on a registered open signalling channel,
// CompareAndSwap, sync/atomic.Pointer, a named result that is documentation only.

type tick struct{ a, b int }

type box struct {
	word  atomic.Uint32
	q     chan int
	out   chan tick
	drops atomic.Uint64
	done  chan struct{}
	cur   atomic.Pointer[ctr]
}

// cas: one compare-and-swap on the word.
func (b *box) cas(o, n uint32) (swapped bool) {
	if b.word.CompareAndSwap(o, n) {
		return true
	}

	return false
}

// push: a guaranteed send while the owner runs (done is never ready).
func (b *box) push(v int) {
	select {
	case b.q <- v:
	case <-b.done:
	}
}

// offer: non-blocking drop-oldest send.
func (b *box) offer(t tick) {
	select {
	case b.out <- t:
	default:
		select {
		case <-b.out:
		default:
		}
		b.drops.Add(1)
		b.out <- t
	}
}

// pin: store then load through an atomic pointer.
func (b *box) pin(c *ctr) bool {
	b.cur.Store(c)

	return b.cur.Load() != nil
}

// room: free slots of the queue.
func (b *box) room() int { return cap(b.q) - len(b.q) }
