package t2

import (
	"errors"
	"math"
	"unsafe"
)

// round-5 constructs: a self-recursive function (fuel), a sum interface whose list node holds a
// slice of the interface (mutual type), floats as IEEE bit patterns, make / element assignment on
// []bool, unsafe.String.

type node interface{ weight() int }

type leafN struct{ v int }

type branchN struct{ kids []node }

func (l *leafN) weight() int { return l.v }

func (b *branchN) weight() int { return len(b.kids) }

var errDeep = errors.New("too deep")

// parse: 0xFF n = a branch of n children, any other byte = a leaf of that value.
func parse(b []byte, pos int, depth int) (node, int, error) {
	if pos >= len(b) {
		return nil, pos, errors.New("short")
	}
	h := b[pos]
	pos++
	if h != 0xFF {
		return &leafN{v: int(h)}, pos, nil
	}
	if depth >= 3 {
		return nil, pos, errDeep
	}
	if pos >= len(b) {
		return nil, pos, errors.New("short")
	}
	n := int(b[pos])
	pos++
	if n == 0 {
		return &branchN{kids: []node{}}, pos, nil
	}
	kids := make([]node, 0, n)
	for i := 0; i < n; i++ {
		k, np, err := parse(b, pos, depth+1)
		if err != nil {
			return nil, np, err
		}
		kids = append(kids, k)
		pos = np
	}
	return &branchN{kids: kids}, pos, nil
}

// widen: float32 bit pattern -> float64 bit pattern.
func widen(u uint32) uint64 { return math.Float64bits(float64(math.Float32frombits(u))) }

// flags: make + element assignment on []bool.
func flags(b []byte) []bool {
	out := make([]bool, len(b))
	for i := 0; i < len(b); i++ {
		out[i] = b[i] != 0
	}
	return out
}

// text: unsafe.String over a byte slice.
func text(b []byte) string {
	if len(b) == 0 {
		return ""
	}
	return unsafe.String(unsafe.SliceData(b), len(b))
}
