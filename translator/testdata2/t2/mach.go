package t2

import (
	"sync/atomic"
	"time"
)

// round-3 constructs: external function fields (environment reads, logged calls, nil test), a
// slice of structs, == on structs, time.Time as an instant, an ignored logging call, a counter
// object reached through a pointer field of the receiver (state-passing with write-back).

type pt struct{ x, y uint8 }

type ctr struct{ n atomic.Uint64 }

func (c *ctr) inc() { c.n.Add(1) }

type mach struct {
	clock func() time.Time
	emit  func(v int) error
	hook  func(s string)
	stats *ctr
	last  time.Time
	pts   []pt
}

func logf(msg string, v int) {}

func (m *mach) step(p pt, lim time.Duration) error {
	logf("step", int(p.x))
	if m.hook != nil {
		m.hook("s")
	}
	if len(m.pts) > 0 && m.pts[len(m.pts)-1] == p {
		m.stats.inc()

		return nil
	}
	if m.clock().Sub(m.last) > lim {
		m.pts = m.pts[:0]
	}
	m.pts = append(m.pts, p)
	m.last = m.clock()
	total := 0
	for _, q := range m.pts {
		total += int(q.x) + int(q.y)
	}

	return m.emit(total)
}
