package t2

import "iter"

// round-7 constructs: a generator (iter.Seq) translated to the list it yields, a range over it
// that drains it, a strided count loop, min.

type span struct{ lo, n int }

// spans cuts [0, total) into pieces of at most k = 3.
func spans(total int) (iter.Seq[span], error) {
	if total < 0 {
		return nil, errDeep
	}

	return func(yield func(span) bool) {
		if total == 0 {
			yield(span{lo: 0, n: 0})
			return
		}
		for off := 0; off < total; off += 3 {
			if !yield(span{lo: off, n: min(3, total-off)}) {
				return
			}
		}
	}, nil
}

// widths drains the generator.
func widths(total int) (int, error) {
	seq, err := spans(total)
	if err != nil {
		return -1, err
	}
	s := 0
	for p := range seq {
		s = s*10 + p.n
	}

	return s, nil
}
