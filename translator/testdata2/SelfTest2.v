(** Self-test of translator v2 (bin/vtie2 --selftest): the definitions generated from
    translator/testdata2/t2/good.go evaluate to what the Go functions return (values obtained by
    running the Go code: `go test` transcript in the comment of each block), including the panics. *)
From Coq Require Import String.
From Coq Require Import ZArith Bool List.
From GoSecs Require Import Base.GoInt Base.BytesBE Base.GoSlice Gen.Gen2.
Import ListNotations.
Open Scope Z_scope.
Import Gen2.t2.

Ltac run := vm_compute; reflexivity.

(* sumTo 10 0 0 *)
Example sumTo_1 : sumTo 5 = GOk 10. Proof. run. Qed.
Example sumTo_2 : sumTo 0 = GOk 0. Proof. run. Qed.
Example sumTo_3 : sumTo (-3) = GOk 0. Proof. run. Qed.
(* find 2 -1 -1 : early return from a range loop *)
Example find_1 : find [5; 6; 7] 7 = GOk 2. Proof. run. Qed.
Example find_2 : find [5; 6; 7] 9 = GOk (-1). Proof. run. Qed.
Example find_3 : find [] 1 = GOk (-1). Proof. run. Qed.
(* countUntil 3 0 : break / continue *)
Example countUntil_1 : countUntil [2; 3; 4; 6; 0; 8] = GOk 3. Proof. run. Qed.
Example countUntil_2 : countUntil [1; 1] = GOk 0. Proof. run. Qed.
(* nested 20355 41120 0 : nested loops, uint16 wrap-around *)
Example nested_1 : nested [1; 2; 3] 3 = GOk 20355. Proof. run. Qed.
Example nested_2 : nested [255; 255] 5 = GOk 41120. Proof. run. Qed.
Example nested_3 : nested [] 4 = GOk 0. Proof. run. Qed.
(* at 2 PANIC PANIC *)
Example at_1 : at_ [1; 2] 1 = GOk 2. Proof. run. Qed.
Example at_2 : at_ [1; 2] 2 = GPanic. Proof. run. Qed.
Example at_3 : at_ [1; 2] (-1) = GPanic. Proof. run. Qed.
(* window [2 3] PANIC PANIC *)
Example window_1 : window [1; 2; 3; 4] 1 3 = GOk [2; 3]. Proof. run. Qed.
Example window_2 : window [1; 2; 3; 4] 3 2 = GPanic. Proof. run. Qed.
Example window_3 : window [1; 2; 3; 4] 1 5 = GPanic. Proof. run. Qed.
(* be 16909060 PANIC *)
Example be_1 : be [1; 2; 3; 4; 5] = GOk 16909060. Proof. run. Qed.
Example be_2 : be [1; 2; 3] = GPanic. Proof. run. Qed.
(* put [7 171 205 0 1 2 3 4] *)
Example put_1 : put 43981 = GOk [7; 171; 205; 0; 1; 2; 3; 4]. Proof. run. Qed.
(* div -3 PANIC : truncation toward zero, division by zero *)
Example div_1 : div (-7) 2 = GOk (-3). Proof. run. Qed.
Example div_2 : div 1 0 = GPanic. Proof. run. Qed.
(* classify 2 4 6 : switch whose arms only assign (join form) *)
Example classify_1 : classify 3 = GOk 2. Proof. run. Qed.
Example classify_2 : classify 50 = GOk 4. Proof. run. Qed.
Example classify_3 : classify 200 = GOk 6. Proof. run. Qed.
(* guarded true false PANIC : && does not evaluate a panicking right operand when the left is false *)
Example guarded_1 : guarded [0; 1] 1 = GOk true. Proof. run. Qed.
Example guarded_2 : guarded [0; 1] 2 = GOk false. Proof. run. Qed.
Example guarded_3 : guarded [0; 1] (-1) = GPanic. Proof. run. Qed.
(* check 2 "odd at 2" / 6 <nil> : error classes *)
Example check_1 : check [2; 4; 5; 6] = GOk (2, ErrIs "ErrOdd"). Proof. run. Qed.
Example check_2 : check [2; 4] = GOk (6, ErrNil). Proof. run. Qed.
(* mk {10 [9 4]} : struct value, array field, copy *)
Example mk_1 : mk 10 = GOk (mk_pair 10 [9; 4]). Proof. run. Qed.
(* rangeInt 14 0 *)
Example rangeInt_1 : rangeInt 4 = GOk 14. Proof. run. Qed.
Example rangeInt_2 : rangeInt 0 = GOk 0. Proof. run. Qed.
(* lines "ab\ncd" 4 = (2, 2); off beyond the string panics : strings as bytes, tuple-carrying count loop *)
Example lines_1 : lines [97; 98; 10; 99; 100] 4 = GOk (2, 2). Proof. run. Qed.
Example lines_2 : lines [97; 98] 3 = GPanic. Proof. run. Qed.
(* greet "bob" = "hi bob" *)
Example greet_1 : greet [98; 111; 98] = GOk [104; 105; 32; 98; 111; 98]. Proof. run. Qed.
(* anyTrue [true false true] = 5 : []bool *)
Example anyTrue_1 : anyTrue [true; false; true] = GOk 5. Proof. run. Qed.
(* mach (go test transcript): true true true [10 11] 3 1 [{5 6}] 5000
   external function fields (clock = environment read, emit / hook = logged calls), []struct, == on
   structs, time.Time as an instant, ignored logging call, counter behind a pointer field *)
Definition m0 : mach := mk_mach 1000 true true (Some (mk_ctr 0)) 900 [mk_pt 1 2] [] (ErrNew "E") [].
Definition m1 : mach := mk_mach 1000 true true (Some (mk_ctr 0)) 1000 [mk_pt 1 2; mk_pt 3 4] [10] (ErrNew "E") [[115]].
Definition m2 : mach := mk_mach 1000 true true (Some (mk_ctr 1)) 1000 [mk_pt 1 2; mk_pt 3 4] [10] (ErrNew "E") [[115]; [115]].
Definition m3 : mach := mk_mach 5000 true true (Some (mk_ctr 1)) 5000 [mk_pt 5 6] [10; 11] (ErrNew "E") [[115]; [115]; [115]].
Example mach_1 : mach_step (Some m0) (mk_pt 3 4) 200 = GOk (Some m1, ErrNew "E"). Proof. run. Qed.
Example mach_2 : mach_step (Some m1) (mk_pt 3 4) 200 = GOk (Some m2, ErrNil). Proof. run. Qed.
Example mach_3 : mach_step (Some (set_mach_clock m2 5000)) (mk_pt 5 6) 200 = GOk (Some m3, ErrNew "E"). Proof. run. Qed.
(* a nil emit callback panics when called; a nil hook is skipped *)
Example mach_4 : mach_step (Some (set_mach_emit m0 false)) (mk_pt 3 4) 200 = GPanic. Proof. run. Qed.
Example mach_5 : mach_step (Some (set_mach_hook m0 false)) (mk_pt 3 4) 200
  = GOk (Some (set_mach_hook_log (set_mach_hook m1 false) []), ErrNew "E"). Proof. run. Qed.
(* disp.route (go test transcript: true [9] 0 / true [] 0 / false [] 0 / true [4] 0 / true [] 1 / PANIC):
   external interface object, sum interface + comma-ok assertion, break in a switch *)
Definition snk (mode : Z) (calls : list sink_call) : sink := mk_sink mode ErrNil calls.
Example disp_1 : disp_route (Some (mk_disp (snk 1 []) 0)) (shape_sq (Some (mk_sq 3))) 0
  = GOk (Some (mk_disp (snk 1 [sink_call_Put 9]) 0), true). Proof. run. Qed.
Example disp_2 : disp_route (Some (mk_disp (snk 2 []) 0)) (shape_sq (Some (mk_sq 3))) 0
  = GOk (Some (mk_disp (snk 2 []) 0), true). Proof. run. Qed.
Example disp_3 : disp_route (Some (mk_disp (snk 1 []) 0)) (shape_rc (Some (mk_rc 2 5))) 1
  = GOk (Some (mk_disp (snk 1 []) 0), false). Proof. run. Qed.
Example disp_4 : disp_route (Some (mk_disp (snk 1 [sink_call_Put 9]) 0)) (shape_sq (Some (mk_sq 4))) 1
  = GOk (Some (mk_disp (snk 1 [sink_call_Put 9; sink_call_Put 4]) 0), true). Proof. run. Qed.
Example disp_5 : disp_route (Some (mk_disp (snk 1 []) 0)) (shape_rc (Some (mk_rc 2 5))) 7
  = GOk (Some (mk_disp (snk 1 []) 1), true). Proof. run. Qed.
(* a nil shape: the method call behind the interface panics *)
Example disp_6 : disp_route (Some (mk_disp (snk 1 []) 0)) shape_nil 0 = GPanic. Proof. run. Qed.
(* round 5 (t2/tree.go; go run transcript):
     parse [7]                      = leaf 7, 1, nil
     parse [FF 2 5 FF 1 9]          = branch [leaf 5; branch [leaf 9]], 6, nil
     parse [FF 0]                   = branch [], 2, nil
     parse [FF 2 5]                 = nil, 3, "short"
     parse [FF 1 FF 1 FF 1 FF 1 3]  = nil, 7, errDeep
     parse []                       = nil, 0, "short"
   self-recursion on an explicit fuel (out of fuel = panic), the sum type with its list node *)
Definition lf (v : Z) : node := node_leafN (Some (mk_leafN v)).
Definition br (ks : list node) : node := node_branchN (Some (mk_branchN ks)).
Example parse_1 : parse 5 [7] 0 0 = GOk (lf 7, 1, ErrNil). Proof. run. Qed.
Example parse_2 : parse 5 [255; 2; 5; 255; 1; 9] 0 0 = GOk (br [lf 5; br [lf 9]], 6, ErrNil). Proof. run. Qed.
Example parse_3 : parse 5 [255; 0] 0 0 = GOk (br [], 2, ErrNil). Proof. run. Qed.
Example parse_4 : parse 5 [255; 2; 5] 0 0 = GOk (node_nil, 3, ErrNew "short"). Proof. run. Qed.
Example parse_5 : parse 5 [255; 1; 255; 1; 255; 1; 255; 1; 3] 0 0 = GOk (node_nil, 7, ErrIs "errDeep"). Proof. run. Qed.
Example parse_6 : parse 5 [] 0 0 = GOk (node_nil, 0, ErrNew "short"). Proof. run. Qed.
(* not enough fuel is a panic, never a wrong answer *)
Example parse_7 : parse 2 [255; 2; 5; 255; 1; 9] 0 0 = GPanic. Proof. run. Qed.
(* widen: 4609434218613702656 13837628693603680256 9218868437227405312 3936146074321813504
          9221120237577961472 9223372036854775808 9221120237577961472 18444492274432737280 4039728864677593088
   float32 -> float64 on bit patterns: normal, negative, infinity, denormals, quiet and signalling NaN, -0 *)
Example widen_1 : widen 1069547520 = GOk 4609434218613702656. Proof. run. Qed.
Example widen_2 : widen 3226013659 = GOk 13837628693603680256. Proof. run. Qed.
Example widen_3 : widen 2139095040 = GOk 9218868437227405312. Proof. run. Qed.
Example widen_4 : widen 1 = GOk 3936146074321813504. Proof. run. Qed.
Example widen_5 : widen 2143289345 = GOk 9221120237577961472. Proof. run. Qed.
Example widen_6 : widen 2147483648 = GOk 9223372036854775808. Proof. run. Qed.
Example widen_7 : widen 2139095041 = GOk 9221120237577961472. Proof. run. Qed.
Example widen_8 : widen 4286578689 = GOk 18444492274432737280. Proof. run. Qed.
Example widen_9 : widen 8388607 = GOk 4039728864677593088. Proof. run. Qed.
(* flags [0 3 0 1] = [false true false true]; flags nil = [] : make / element assignment on []bool *)
Example flags_1 : flags [0; 3; 0; 1] = GOk [false; true; false; true]. Proof. run. Qed.
Example flags_2 : flags [] = GOk []. Proof. run. Qed.
(* text "hey" = "hey"; text nil = "" : unsafe.String over unsafe.SliceData *)
Example text_1 : text [104; 101; 121] = GOk [104; 101; 121]. Proof. run. Qed.
Example text_2 : text [] = GOk []. Proof. run. Qed.
(* round 6 (t2/chan.go; go run transcript, channels of capacity 2):
     cas(1,2) on word 1 = true, word 2; cas(1,3) = false, word 2
     push 7 -> room 1; push 8 -> room 0, queue [7 8]; a third push would BLOCK (translated: panic)
     offer {1 2}, offer {3 4} -> drops 0; offer {5 6} -> drops 1, buffer [{3 4} {5 6}]
     pin nil = false; pin &ctr{4} = true, pointer kept
   CompareAndSwap, blocking / non-blocking send, non-blocking receive, len / cap, open signalling
   channel in a select, sync/atomic.Pointer, documentation-only named result *)
Definition bx (w : Z) (q : list Z) (o : list tick) (d : Z) (c : option ctr) : box :=
  mk_box w (mk_gchan q 2) (mk_gchan o 2) d c.
Example cas_1 : box_cas (Some (bx 1 [] [] 0 None)) 1 2 = GOk (Some (bx 2 [] [] 0 None), true). Proof. run. Qed.
Example cas_2 : box_cas (Some (bx 2 [] [] 0 None)) 1 3 = GOk (Some (bx 2 [] [] 0 None), false). Proof. run. Qed.
Example push_1 : box_push (Some (bx 0 [] [] 0 None)) 7 = GOk (Some (bx 0 [7] [] 0 None), tt). Proof. run. Qed.
Example push_2 : box_push (Some (bx 0 [7] [] 0 None)) 8 = GOk (Some (bx 0 [7; 8] [] 0 None), tt). Proof. run. Qed.
Example push_3 : box_push (Some (bx 0 [7; 8] [] 0 None)) 9 = GPanic. Proof. run. Qed.
Example room_1 : box_room (Some (bx 0 [7] [] 0 None)) = GOk 1. Proof. run. Qed.
Example room_2 : box_room (Some (bx 0 [7; 8] [] 0 None)) = GOk 0. Proof. run. Qed.
Example offer_1 : box_offer (Some (bx 0 [] [mk_tick 1 2] 0 None)) (mk_tick 3 4)
  = GOk (Some (bx 0 [] [mk_tick 1 2; mk_tick 3 4] 0 None), tt). Proof. run. Qed.
Example offer_2 : box_offer (Some (bx 0 [] [mk_tick 1 2; mk_tick 3 4] 0 None)) (mk_tick 5 6)
  = GOk (Some (bx 0 [] [mk_tick 3 4; mk_tick 5 6] 1 None), tt). Proof. run. Qed.
Example pin_1 : box_pin (Some (bx 0 [] [] 0 (Some (mk_ctr 1)))) None = GOk (Some (bx 0 [] [] 0 None), false). Proof. run. Qed.
Example pin_2 : box_pin (Some (bx 0 [] [] 0 None)) (Some (mk_ctr 4)) = GOk (Some (bx 0 [] [] 0 (Some (mk_ctr 4))), true). Proof. run. Qed.
(* round 7 (t2/gen.go; go run transcript): widths 0 1 3 6 7 -1 = 0 1 3 33 331 (-1, errDeep);
   spans 7 = {0 3} {3 3} {6 1}
   generator (iter.Seq) as the list it yields, `if !yield(v) { return }`, bare return in the
   generator, range over the sequence, strided loop, min *)
Example spans_1 : spans 7 = GOk ([mk_span 0 3; mk_span 3 3; mk_span 6 1], ErrNil). Proof. run. Qed.
Example spans_2 : spans 0 = GOk ([mk_span 0 0], ErrNil). Proof. run. Qed.
Example spans_3 : spans 6 = GOk ([mk_span 0 3; mk_span 3 3], ErrNil). Proof. run. Qed.
Example spans_4 : spans (-1) = GOk ([], ErrIs "errDeep"). Proof. run. Qed.
Example widths_1 : widths 0 = GOk (0, ErrNil). Proof. run. Qed.
Example widths_2 : widths 1 = GOk (1, ErrNil). Proof. run. Qed.
Example widths_3 : widths 3 = GOk (3, ErrNil). Proof. run. Qed.
Example widths_4 : widths 6 = GOk (33, ErrNil). Proof. run. Qed.
Example widths_5 : widths 7 = GOk (331, ErrNil). Proof. run. Qed.
Example widths_6 : widths (-1) = GOk (-1, ErrIs "errDeep"). Proof. run. Qed.
