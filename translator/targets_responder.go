package main

// C08 (HSMS-SS responder): the SType validity set the responder model's first branch is bridged to
// (coq/theories/Gen/BridgeResponder.v). The status / reason / SType constants are exported with the
// package constants. The responder's control flow itself works on frames and channels, outside the
// translator's subset; it is tied by the exact e2e differential (harness/cmd/c08).
func init() {
	register("hsms", []string{"IsValidSType"}, nil)
}
