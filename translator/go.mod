module veriftranslator

go 1.26.0
