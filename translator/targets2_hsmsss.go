package main

// v2 targets, HSMS-SS responder (C08, C07): what the recv loop does with one frame -
// dispatchFrame, decodeControlFrame, handleControlReq, handleSelectReq, handleSeparateReq,
// handleLinktestReq, handleDeselectReq, sendReject, sendRejectNotSelected,
// sendRejectTransactionNotOpen, selectStatus and the counters they bump - in state-passing form.
// Bridged to respond of coq/theories/Hsms/Responder.v in coq/theories/Gen/Bridge2Responder.v.
//
// The transport's environment is explicit. hsms.TransportRuntime (the connection engine) is an
// external object: State / CommitSelected / RouteReply / SendAsync / DeliverOwnedFrame answer
// scripted values (fields TransportRuntime_<m>_ret) and every CommitSelected / SelectLost / TCPDown
// / SendAsync / RouteReply / DeliverOwnedFrame call is appended, in order, to TransportRuntime_calls.
// The goroutine-spawning helpers of the transport itself (cancelT7, startLinktest, stopLinktest,
// armT7) are logged calls of the transport (transport_calls). cfg.TraceTraffic() is a scripted
// answer; the trace log line is dropped.
func init() {
	for _, m := range []string{"State"} {
		registerExtMethod2("hsms", "TransportRuntime."+m, "read")
	}
	for _, m := range []string{"CommitSelected", "SelectLost", "TCPDown", "SendAsync", "RouteReply", "DeliverOwnedFrame"} {
		registerExtMethod2("hsms", "TransportRuntime."+m, "call")
	}
	registerExtMethod2("hsms", "ConnectionConfig.TraceTraffic", "read")
	for _, m := range []string{"cancelT7", "startLinktest", "stopLinktest", "armT7"} {
		registerExtMethod2("hsmsss", "transport."+m, "call")
	}
	registerIgnoredCall2("hsmsss", "hexDumpFrame")
	register2("hsms", nil)
	register2("hsmsss", []string{
		"ConnectionMetrics.incSelectEstablished", "ConnectionMetrics.incSeparateRecv", "ConnectionMetrics.incRejectSent",
		"ConnectionMetrics.incRejectRecv", "ConnectionMetrics.incLinktestReqRecv",
		"selectStatus", "decodeControlFrame",
		"transport.sendReject", "transport.sendRejectNotSelected", "transport.sendRejectTransactionNotOpen",
		"transport.handleSelectReq", "transport.handleSeparateReq", "transport.handleLinktestReq",
		"transport.handleDeselectReq", "transport.handleControlReq", "transport.dispatchFrame",
	})
}
