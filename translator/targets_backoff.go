package main

// hsms lifecycle / backoff (C10, C11). nextBackoffDelay is written with float64 (int64->binary64
// conversion, a binary64 multiply, truncation back to int64), which is outside the translator's
// integer/boolean subset: it is modelled by hand with Flocq in coq/theories/Hsms/Backoff.v and tied
// to the source by (a) the bit-exact hook differential of harness/cmd/c11 and (b) the source-shape
// guard of checks/C11.py (hash of the function's normalised text). What the translator contributes
// here are the package constants the lifecycle model names (ConnState values, OpenMode values,
// stateClosedBit), which the base pass always exports; coq/theories/Gen/BridgeBackoff.v pins them.
func init() {
	register("hsms", nil, nil)
}
