package main

// Base registrations (constants of all five packages are always exported).
func init() {
	register("secs2", []string{"headerLen", "clampInt64", "clampUint64"}, []string{"slabChunkSizes"})
	register("hsms", []string{"transition", "IsValidSType"}, nil)
	register("hsmsss", []string{"linktestFailureStep", "linktestDisconnectRecheck"}, nil)
}
