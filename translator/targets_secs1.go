package main

// secs1 (C17/C18): every package-level constant (maxBlockBodySize, blockHeaderSize, checksumSize,
// min/maxBlockLength, maxBlockNumber, hsmsHeaderLen, enq/eot/ack/nak, the sendResult enum) is
// exported to Gen.v by the base pass and bridged in coq/theories/Gen/BridgeSecs1.v. No function of
// the package fits the translator's subset (buildHeader/splitBody/appendTo/parseBlock/accept work
// on structs, arrays, slices and iterators); they are tied by the hook differential instead.
func init() {
	register("secs1", nil, nil)
}
