package main

// v2 targets, SML error positions (C14): newParseError (clamp of the offset, one pass over
// input[0:offset] counting lines and columns; the input string is its bytes). Bridged to
// new_parse_error of coq/theories/Sml/ErrPos.v in coq/theories/Gen/Bridge2SmlErrPos.v.
func init() {
	register2("sml", []string{"newParseError"})
}
