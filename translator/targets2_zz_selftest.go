package main

import "os"

// Self-test of the v2 subset (bin/vtie2 --selftest): with VTR2_SELFTEST=good|bad the v2 whitelist
// is REPLACED by the functions of translator/testdata2/t2 (copied into a scratch repository as
// package t2). Not set in any normal run. The file name sorts last so that it runs after the
// other registrations.
func init() {
	switch os.Getenv("VTR2_SELFTEST") {
	case "good":
		registry2 = map[string]*target2{}
		pkgOrder2 = nil
		registerExtField2("t2", "mach.clock", "read")
		registerExtField2("t2", "mach.emit", "call")
		registerExtField2("t2", "mach.hook", "call")
		registerIgnoredCall2("t2", "logf")
		registerExtMethod2("t2", "sink.Put", "call")
		registerExtMethod2("t2", "sink.Mode", "read")
		registerSum2("t2", "shape", []string{"*sq", "*rc"})
		registerSum2("t2", "node", []string{"*leafN", "*branchN"})
		registerOpenChan2("t2", "box.done")
		register2("t2", []string{"sumTo", "find", "countUntil", "nested", "at", "window", "be", "put", "div",
			"classify", "guarded", "check", "mk", "rangeInt", "lines", "greet", "anyTrue", "ctr.inc", "mach.step", "sq.area", "rc.area", "disp.route",
			"parse", "widen", "flags", "text",
			"box.cas", "box.push", "box.offer", "box.pin", "box.room",
			"spans", "widths"})
	case "bad":
		registry2 = map[string]*target2{}
		pkgOrder2 = nil
		register2("t2", []string{"badWhile", "badParamWrite", "badShadow", "badMap", "badClosure", "badBound",
			"badAlias", "badString", "badGoto", "badRangeWrite", "badAliasInLoop", "badFuncField", "badIface",
			"badFloatAdd", "badFloatLess", "badFloatNarrow", "badMutualA", "badMutualB",
			"badSelectTwo", "badRecvValue", "badChanOfPointers", "badNamedResult", "badClose",
			"spans", "badSeqBreak", "badStrideVar"})
	}
}
