// Translator v2: byte-slice code with loops -> coq/theories/Gen/Gen2.v (flag -out2).
//
// Separate whitelist (register2 in targets2_*.go), separate output, separate code: nothing here is
// reachable unless -out2 is given, and Gen.v is written before v2 starts.
//
// PANIC DESIGN (one design): every translated function returns `gres T` (Base/GoSlice.v):
// `GOk v` = the Go function returns v, `GPanic` = the Go function panics. Partial operations
// (x[i], x[i:j], make, BigEndian.*, nil dereference, division by a non-constant, calls of
// translated functions) are sequenced with gbind in Go evaluation order.
//
// SUBSET (anything else is a hard error for that function, never a silent skip):
//
//	types      bool, sized/unsized integers, []T / [N]T with T an integer type (list Z), error
//	           (goerror: nil | sentinel class | anonymous), struct types whose fields are in the
//	           subset (generated Record; fields of other types are left out and may not be touched),
//	           *Struct (option Struct; nil dereference = GPanic; no writes through pointers),
//	           interface types registered with registerAbstractBytes2 (list Z: their encoded bytes;
//	           only Len() and AppendTo(dst) may be called) - a trusted abstraction.
//	exprs      constants (folded by go/types), locals, field reads, x[i], x[i:j], len, append
//	           (elements or src...), make([]T,n[,c]), min/max, conversions between integer types,
//	           [N]T(slice), struct / array / slice literals, &Struct{...}, &local (in return only),
//	           *p, integer / boolean / comparison / shift / bitwise operators with explicit
//	           wrap-around (GoInt.v), == on byte arrays, ==/!= nil on error and pointers,
//	           binary.BigEndian.Uint16/32/64, AppendUint16/32/64, fmt.Errorf (class of the single
//	           %w operand), errors.New, calls of translated functions / methods (same or other
//	           translated package).
//	stmts      :=, =, op=, ++/--, var, const, tuple assignment from a call, assignment to x[i] and
//	           s.f of locals, if/else (with init), switch (tagged/tagless, no fallthrough), return,
//	           copy(x[i:j], src), binary.BigEndian.PutUint16/32/64(x[i:j], v),
//	           for i, v := range x / for _, v := range x / for i := range x / for i := range n,
//	           for i := a; i < n; i++ (i, n not assigned in the body), break, continue, return
//	           inside loops, panic(...).
//	interfaces a closed interface registered with registerSum2 is the sum of its listed
//	           implementations (+ nil); a method call on it dispatches on the constructor (nil =
//	           GPanic). CLOSED-WORLD: implementations that are not listed are outside the model.
//	           registerAbstractCtor2 marks a function returning an abstract-bytes interface that
//	           holds exactly its []byte argument (discharge it by translating the implementation).
//	atomics    sync/atomic.Uint32/Uint64/Int32/Int64 fields are the integer they hold; Load / Add /
//	           Store are single sequential steps (the tie is about arithmetic, not atomicity).
//	receivers  a pointer-receiver method that writes through its receiver is translated
//	           state-passing: it returns (updated receiver, results). Calls of such methods from
//	           other translated code are rejected.
//	aliasing   slices are values. A write into a slice variable (x[i] = v, copy, PutUint) is accepted
//	           only when the variable was created by make in the same function and never copied to
//	           another variable; writes into slice parameters are rejected; a ranged slice may not be
//	           assigned in the loop body. Arrays are Go values. A write through a pointer is accepted
//	           only for a local created by p := &T{...} that is never copied (and for the receiver of
//	           a state-passing method).
//	strings    a Go string is its bytes (list Z): len, s[i], s[i:j], append(dst, s...), ==, string
//	           constants, []byte(s) / string(b); `range s` (runes) and + are rejected.
//	[]bool     list bool: len and range only.
//	embedding  an embedded struct is an ordinary field named after its type; promoted fields and
//	           promoted methods are resolved through it.
//	*byte      option (list Z): the bytes from that address on; nil tests, unsafe.Slice(p, n)
//	           (GPanic past the allocation or on a negative length), unsafe.SliceData(s).
//	allocators registerFreshAlloc2: a method that returns a pointer to a fresh zero struct (slab /
//	           pool); trusted; the local it initialises may be written through.
//	mut calls  a call of a state-passing (receiver-mutating) method writes the updated receiver back
//	           into the receiver operand, which must be a local the function owns (fresh pointer,
//	           its own receiver, struct value), possibly through embedded fields.
//	ext objects registerExtMethod2: methods of a struct or of an interface that stand for the environment
//	           ("read": scripted answer; "call": appended to the object's ordered call log Type_calls,
//	           scripted answer). An interface with registered methods is a Record of these fields.
//	           context.Context operands are dropped. registerExtField2 (round 3) does the same for
//	           function-typed fields, with one log per field.
//	switch     break inside a switch continues after it; fallthrough is rejected.
//	assertion  v, ok := x.(T) on a sum interface, T a registered implementation.
//	shadowing  a local that shadows an EARLIER-declared local of the same function is rejected.
//	capacity   not modelled: s[lo:hi] is checked against len(s) (stricter than Go's cap(s)).
//	recursion  (round 5) a function that calls ITSELF is a Fixpoint on an extra first parameter
//	           fuel_ : nat; running out of fuel is GPanic, never an answer, and the bridge lemma states
//	           how much fuel suffices. Calls go to earlier-registered functions only: a forward
//	           reference (hence mutual recursion) is rejected; a fuel function may not be called from
//	           another translated function.
//	sum lists  (round 5) []I of a sum interface I: nil, []I{}, make([]I, 0, c), append, len. A record
//	           reachable from the sum and holding such a list is emitted in ONE mutual Inductive with
//	           the sum (constructor mk_T, projections and setters as Definitions).
//	floats     (round 5) float32 / float64 are their IEEE-754 bit patterns (Z): math.FloatNNbits and
//	           math.FloatNNfrombits are identities, float64(float32) is go_f32_widen (GoSlice.v).
//	           Arithmetic, comparison and float64 -> float32 are rejected.
//	[]bool     (round 5) make([]bool, n) and b[i] = v (go_make_g / go_set_g); unsafe.String over
//	           unsafe.SliceData is the byte list.
//	channels   (round 6) chan T (T integer, bool or struct value) is a bounded FIFO, gchan in GoSlice.v
//	           (buffered elements + capacity), for code that is the single sender or the single
//	           receiver: ch <- v is a blocking send (GPanic when full: "would block"; bridge lemmas
//	           carry "there is room"); select { case ch <- v: A default: B } and
//	           select { case <-ch: A default: B } are the non-blocking send / receive; len(ch),
//	           cap(ch). A select has ONE live communication; receive cases on a channel registered
//	           with registerOpenChan2 (a done-channel closed only after the owner has exited) are
//	           never ready and dropped. Other selects, v := <-ch, close, channels of pointers: rejected.
//	atomics    (round 6) CompareAndSwap on sync/atomic integers; sync/atomic.Pointer[T] (T a struct)
//	           is the *T it holds: Load / Store. All single sequential steps.
//	generators (round 7) a function returning iter.Seq[T] (T a struct) by `return func(yield func(T) bool)
//	           { ... }, rest` is translated to the LIST of the values it yields: yield(v) appends,
//	           `if !yield(v) { return }` appends and goes on, a bare return ends the list. This is what a
//	           consumer that drains the sequence sees: `for v := range seq` is accepted only when its
//	           body has no break / return / continue, and a Seq value has no other use.
//	stride     (round 7) for i := lo; i < hi; i += k with a constant k > 1 (stride_loop; hi above
//	           MaxInt64 - k is GPanic: stricter than Go, whose i += k would wrap). min / max.
//	Body.Chunk (round 7) on the abstract-bytes wire.Body: wire.chunkView on the bytes (translated).
//	results    (round 6) named results are accepted when the name is documentation only (never read
//	           or assigned, every return explicit).
//
// Output: one Coq Module per package (dependency order), generated Records for the struct types
// used, an Inductive per sum interface, and one `Definition f ... : gres T` per function, each
// preceded by its source range and a hash of its source text. Self-test: bin/vtie2 --selftest
// (translator/testdata2).
package main

import (
	"bytes"
	"crypto/sha256"
	"encoding/json"
	"fmt"
	"go/ast"
	"go/format"
	"go/token"
	"go/types"
	"os"
	"path/filepath"
	"sort"
	"strings"
)

type target2 struct {
	Pkg   string
	Funcs []string // "name" or "Recv.name"
}

var registry2 = map[string]*target2{}
var pkgOrder2 []string
var abstractBytes2 = map[string]bool{} // "<pkg path>.<TypeName>" of interface types modelled as bytes

// register2 adds functions (callees first) to the v2 whitelist of a package (path relative to the
// repository root). Packages are emitted in first-registration order: a package must be registered
// after the packages whose translated functions / records it uses.
func register2(pkg string, funcs []string) {
	t, ok := registry2[pkg]
	if !ok {
		t = &target2{Pkg: pkg}
		registry2[pkg] = t
		pkgOrder2 = append(pkgOrder2, pkg)
	}
	for _, f := range funcs {
		dup := false
		for _, g := range t.Funcs {
			dup = dup || g == f
		}
		if !dup {
			t.Funcs = append(t.Funcs, f)
		}
	}
}

func registerAbstractBytes2(pkg, typ string) {
	abstractBytes2[modPath+"/"+pkg+"."+typ] = true
}

// registerAbstractCtor2: a function that returns an abstract-bytes interface value holding exactly
// its single []byte argument (trusted; discharge it by also translating the implementation's Len /
// AppendTo and proving them equal to go_len / ++, as Bridge2Frames.v does for wire.rawFrameBody).
var abstractCtor2 = map[string]bool{}

func registerAbstractCtor2(pkg, fn string) { abstractCtor2[modPath+"/"+pkg+"."+fn] = true }

// registerFreshAlloc2: a function / method ("Recv.name") that returns a pointer to a FRESH zero value
// of a translated struct that nothing else refers to (an allocator: a slab, a pool). Trusted; its
// other effects (the allocator's own bookkeeping) are not modelled. A local initialised from it
// may be written through.
var freshAlloc2 = map[string]bool{}

func registerFreshAlloc2(pkg, fn string) { freshAlloc2[modPath+"/"+pkg+"."+fn] = true }

// registerExtField2: a struct field of FUNCTION type that stands for the environment ("Struct.field"):
//
//	"read": func() T  - a value the environment supplies; x.f() reads the record field R_f : T (the
//	        same value at every call within one translated call: e.g. an injected clock);
//	"call": func(args) [T] - an outgoing call: x.f(a, b) appends (a, b) to the log field R_f_log and
//	        answers the field R_f_ret (what the environment will answer); R_f : bool says whether the
//	        Go field is non-nil (x.f != nil); calling a nil function value is GPanic.
//
// The function that calls a "call" field of its receiver is translated state-passing.
var extFields2 = map[string]string{}

func registerExtField2(pkg, structField, kind string) {
	extFields2[modPath+"/"+pkg+"."+structField] = kind
}

// registerExtMethod2: a METHOD ("Type.method", Type a struct or an interface of a translated package)
// that stands for the environment:
//
//	"read": x.m() answers the record field Type_m_ret (the same answer at every call within one
//	        translated call);
//	"call": x.m(args) appends Type_call_m args to the object's ordered call log Type_calls and
//	        answers Type_m_ret. Parameters of type context.Context are dropped.
//
// An interface with registered methods is a generated Record holding just these fields (its
// dynamic type is not modelled; a nil interface value is not modelled either). The function that
// makes a "call" on (a field of) its receiver is translated state-passing.
var extMethods2 = map[string]string{}

func registerExtMethod2(pkg, typeMethod, kind string) {
	extMethods2[modPath+"/"+pkg+"."+typeMethod] = kind
}

// extMethodsOf: the registered methods of a named type, sorted by name.
func extMethodsOf(n *types.Named) []string {
	if n.Obj().Pkg() == nil {
		return nil
	}
	prefix := n.Obj().Pkg().Path() + "." + n.Obj().Name() + "."
	out := []string{}
	for k := range extMethods2 {
		if strings.HasPrefix(k, prefix) && !strings.Contains(k[len(prefix):], ".") {
			out = append(out, k[len(prefix):])
		}
	}
	sort.Strings(out)
	return out
}

func isContextType(ty types.Type) bool {
	n, ok := ty.(*types.Named)
	return ok && n.Obj().Pkg() != nil && n.Obj().Pkg().Path() == "context" && n.Obj().Name() == "Context"
}

// extIface: a named interface type with registered external methods.
func extIface(ty types.Type) (*types.Named, bool) {
	n, ok := ty.(*types.Named)
	if !ok {
		return nil, false
	}
	if _, isI := n.Underlying().(*types.Interface); !isI {
		return nil, false
	}
	return n, len(extMethodsOf(n)) > 0
}

// registerOpenChan2: a signalling channel field ("Struct.field", element struct{}) that the translated
// functions only ever receive from inside a select and that is closed only when the owning
// goroutine has exited. The translation covers the time BEFORE that close: the receive case is
// never ready and is dropped from the select. Trusted (stated in the bridge file).
var openChans2 = map[string]bool{}

func registerOpenChan2(pkg, structField string) { openChans2[modPath+"/"+pkg+"."+structField] = true }

// registerIgnoredCall2: a function whose calls have no effect the models observe (logging). Its
// operands are still translated (their panics are behaviour), the call itself is dropped.
var ignoredCalls2 = map[string]bool{}

func registerIgnoredCall2(pkg, fn string) { ignoredCalls2[modPath+"/"+pkg+"."+fn] = true }

// absIntKind: library value types modelled as an int64: time.Time is an instant in nanoseconds
// (zero value 0; t.Sub(u) = t - u, valid while the difference fits an int64 - Go saturates there).
func absIntKind(ty types.Type) (ikind, bool) {
	n, ok := ty.(*types.Named)
	if !ok || n.Obj().Pkg() == nil {
		return ikind{}, false
	}
	if n.Obj().Pkg().Path() == "time" && n.Obj().Name() == "Time" {
		return ikind{true, 64}, true
	}
	return ikind{}, false
}

// isStructList: []T with T a struct of a translated package (list T): len, index, slice, append of
// elements, range, nil.
func (t *tr2) isStructList(ty types.Type) (*types.Named, bool) {
	sl, ok := ty.Underlying().(*types.Slice)
	if !ok {
		return nil, false
	}
	n, _, ok := namedStruct(sl.Elem())
	if !ok || t.g.mods[n.Obj().Pkg().Path()] == "" {
		return nil, false
	}
	return n, true
}

// registerSum2: a closed interface modelled as a sum type of the listed implementations ("T" or
// "*T", struct types of translated packages); nil is its own constructor. Method calls on a value
// of the interface dispatch on the constructor (nil receiver = GPanic).
type sumInfo struct {
	pkg, name string
	impls     []string
}

var sums2 = map[string]*sumInfo{}

func registerSum2(pkg, iface string, impls []string) {
	sums2[modPath+"/"+pkg+"."+iface] = &sumInfo{pkg: pkg, name: iface, impls: impls}
}

func sumOf(ty types.Type) *sumInfo {
	n, ok := ty.(*types.Named)
	if !ok || n.Obj().Pkg() == nil {
		return nil
	}
	if _, isI := n.Underlying().(*types.Interface); !isI {
		return nil
	}
	return sums2[n.Obj().Pkg().Path()+"."+n.Obj().Name()]
}

// implName: "T" / "*T" of a struct (pointer) type, "" otherwise.
func implName(ty types.Type) string {
	if n, _, ok := namedStruct(ty); ok {
		return n.Obj().Name()
	}
	if n, ok := ptrStruct(ty); ok {
		return "*" + n.Obj().Name()
	}
	return ""
}

func sumCtor(si *sumInfo, impl string) string {
	return si.name + "_" + strings.TrimPrefix(impl, "*")
}

type fnInfo struct {
	mod, name string
	decl      *ast.FuncDecl
	mut       bool // pointer-receiver method that writes through its receiver: state-passing translation
	fuel      bool // self-recursive: translated as a Fixpoint on an explicit fuel : nat first parameter
	seq       int  // emission order: a call may only go to an earlier function (or to the function itself)
}

type recField struct {
	goName, coq string
	ty          types.Type
	ok          bool
	cty, zero   string // overrides for pseudo-fields of external function fields
	ext         string // "" | "read" | "call": the Go field is a registered external function
	extSig      *types.Signature
}

type recInfo struct {
	mod, name string
	fields    []recField
	inSum     bool     // declared in the same mutual block as a sum interface it refers to
	calls     []string // constructors of the call-log Inductive: "Name_call_m (a : T) ..."
	iface     bool     // an external interface object (emitted after the sum interfaces)
}

type v2 struct {
	ci      *chainImporter
	fset    *token.FileSet
	fns     map[*types.Func]*fnInfo
	recs    map[*types.TypeName]*recInfo
	recOf   map[string][]*recInfo      // per module, in dependency order
	mods    map[string]string          // package path -> module name
	deps    map[string]map[string]bool // module -> modules it refers to
	sumDecl map[string][]string        // module -> Inductive declarations of the sum interfaces used
	sumSeen map[*sumInfo]bool
	errs    []string
}

type bind struct {
	let bool
	pat string
	rhs string
}

func wrapBinds(bs []bind, body string) string {
	for i := len(bs) - 1; i >= 0; i-- {
		b := bs[i]
		if b.let {
			body = "(let " + b.pat + " := " + b.rhs + " in\n " + body + ")"
		} else {
			p := b.pat
			if strings.HasPrefix(p, "(") {
				p = "'" + p
			}
			body = "(gbind " + b.rhs + " (fun " + p + " =>\n " + body + "))"
		}
	}
	return body
}

type fctx struct {
	rty  string
	ret  func(v string) string
	next string
	brk  string
	brkK func() string // break inside a switch (not inside a loop nested in it): what follows the switch
}

type tr2 struct {
	g     *v2
	info  *types.Info
	pkg   *types.Package
	mod   string
	tmp   int
	fresh map[types.Object]bool
	// positions at which a make-created slice is copied into another variable / a literal: a write
	// is accepted only if every copy happens after it (and after the loop that contains it)
	aliasAt  map[types.Object][]token.Pos
	loops    []ast.Node
	sig      *types.Signature
	errs     []string
	stubOnly bool
	extOK    bool // an external function field is being read on purpose (call / nil test)
	// receiver of a state-passing method (written through): every return also returns it
	mutRecv  types.Object
	selfRec  *types.Func  // the self-recursive function being translated (calls pass the fuel)
	genYield types.Object // inside a generator closure: its yield parameter (= the list yielded so far)
	genFin   string       // ... and what the enclosing function returns when the generation ends
	curSeq   int          // emission rank of the function being translated
}

func (t *tr2) fail(n ast.Node, f string, a ...any) {
	t.errs = append(t.errs, fmt.Sprintf("%s: %s", t.g.fset.Position(n.Pos()), fmt.Sprintf(f, a...)))
}

func (t *tr2) freshTmp() string {
	t.tmp++
	return fmt.Sprintf("t_%d", t.tmp)
}

func modName(pkg string) string { return filepath.Base(pkg) }

// ---------- types ----------

func isErrorType(ty types.Type) bool {
	return types.Identical(ty, types.Universe.Lookup("error").Type())
}

func isString(ty types.Type) bool {
	b, ok := ty.Underlying().(*types.Basic)
	return ok && (b.Kind() == types.String || b.Kind() == types.UntypedString)
}

// isBoolList: []bool / [N]bool (list bool): only len and range are supported on it.
func isBoolList(ty types.Type) bool {
	switch u := ty.Underlying().(type) {
	case *types.Slice:
		return isBool(u.Elem())
	case *types.Array:
		return isBool(u.Elem())
	}
	return false
}

// isBytePtr: *byte (*uint8), the start of a run of bytes in memory: option (list Z), the bytes
// from that address on. Only nil tests, unsafe.Slice(p, n) and unsafe.SliceData(s) use it.
func isBytePtr(ty types.Type) bool {
	p, ok := ty.Underlying().(*types.Pointer)
	if !ok {
		return false
	}
	b, ok := p.Elem().Underlying().(*types.Basic)
	return ok && b.Kind() == types.Uint8
}

// floatKind: float32 / float64 are their IEEE-754 BIT PATTERNS (Z). No arithmetic and no comparison is
// translated on them: only math.FloatNNbits / FloatNNfrombits (identities on the pattern) and the
// exact widening float64(float32) (go_f32_widen). float32(float64) (rounding) is refused.
func floatKind(ty types.Type) (ikind, bool) {
	b, ok := ty.Underlying().(*types.Basic)
	if !ok {
		return ikind{}, false
	}
	switch b.Kind() {
	case types.Float64:
		return ikind{false, 64}, true
	case types.Float32:
		return ikind{false, 32}, true
	}
	return ikind{}, false
}

func numElem(ty types.Type) bool {
	if _, ok := intKind(ty); ok {
		return true
	}
	_, ok := floatKind(ty)
	return ok
}

// isBytes: []T / [N]T with T an integer (or float bit-pattern) type, and string (its bytes).
func isBytes(ty types.Type) bool {
	if isString(ty) {
		return true
	}
	switch u := ty.Underlying().(type) {
	case *types.Slice:
		return numElem(u.Elem())
	case *types.Array:
		return numElem(u.Elem())
	}
	return false
}

// isSumList: []I with I a registered sum interface (list I): nil, make(_, 0, c), append of elements, len.
func isSumList(ty types.Type) (*sumInfo, bool) {
	sl, ok := ty.Underlying().(*types.Slice)
	if !ok {
		return nil, false
	}
	si := sumOf(sl.Elem())
	return si, si != nil
}

func isArray(ty types.Type) (int64, bool) {
	if a, ok := ty.Underlying().(*types.Array); ok {
		return a.Len(), true
	}
	return 0, false
}

func isSlice(ty types.Type) bool {
	_, ok := ty.Underlying().(*types.Slice)
	return ok
}

func elemKind(ty types.Type) ikind {
	if isString(ty) {
		return ikind{false, 8}
	}
	switch u := ty.Underlying().(type) {
	case *types.Slice:
		k, _ := intKind(u.Elem())
		return k
	case *types.Array:
		k, _ := intKind(u.Elem())
		return k
	}
	return ikind{}
}

func namedStruct(ty types.Type) (*types.Named, *types.Struct, bool) {
	n, ok := ty.(*types.Named)
	if !ok {
		return nil, nil, false
	}
	s, ok := n.Underlying().(*types.Struct)
	return n, s, ok
}

func ptrStruct(ty types.Type) (*types.Named, bool) {
	p, ok := ty.Underlying().(*types.Pointer)
	if !ok {
		return nil, false
	}
	n, _, ok := namedStruct(p.Elem())
	return n, ok
}

// atomicKind: sync/atomic.Uint32 etc. are modelled as the integer they hold; Add / Load / Store are
// single sequential steps (concurrency is not modelled - the tie is about the arithmetic).
func atomicKind(ty types.Type) (ikind, bool) {
	n, ok := ty.(*types.Named)
	if !ok || n.Obj().Pkg() == nil || n.Obj().Pkg().Path() != "sync/atomic" {
		return ikind{}, false
	}
	switch n.Obj().Name() {
	case "Uint32":
		return ikind{false, 32}, true
	case "Uint64":
		return ikind{false, 64}, true
	case "Int32":
		return ikind{true, 32}, true
	case "Int64":
		return ikind{true, 64}, true
	}
	return ikind{}, false
}

// atomicPtrElem: sync/atomic.Pointer[T], T a struct: modelled as the *T it holds (Load / Store are
// single sequential steps).
func atomicPtrElem(ty types.Type) (types.Type, bool) {
	n, ok := ty.(*types.Named)
	if !ok || n.Obj().Pkg() == nil || n.Obj().Pkg().Path() != "sync/atomic" || n.Obj().Name() != "Pointer" {
		return nil, false
	}
	if n.TypeArgs() == nil || n.TypeArgs().Len() != 1 {
		return nil, false
	}
	if _, _, isS := namedStruct(n.TypeArgs().At(0)); !isS {
		return nil, false
	}
	return types.NewPointer(n.TypeArgs().At(0)), true
}

// chanElem: a bidirectional channel of integers, booleans or struct values, used as a bounded FIFO
// (gchan in GoSlice.v: the buffered elements and the capacity). The translated code is the single
// sender or the single receiver; a blocking operation that cannot proceed at once is GPanic.
func chanElem(ty types.Type) (types.Type, bool) {
	c, ok := ty.Underlying().(*types.Chan)
	if !ok || c.Dir() != types.SendRecv {
		return nil, false
	}
	e := c.Elem()
	if _, isInt := intKind(e); isInt || isBool(e) {
		return e, true
	}
	if st, isSt := e.Underlying().(*types.Struct); isSt && st.NumFields() > 0 {
		if _, _, isS := namedStruct(e); isS {
			return e, true
		}
	}
	return nil, false
}

// seqElem: iter.Seq[T], T a struct of a translated package. A generator is translated to the LIST of
// the values it yields, in order (generator-to-list rule): this is what a consumer that drains it
// sees, so every consumer must be a `for v := range seq` whose body neither breaks nor returns
// (checked), and the generator's `if !yield(v) { return }` is then never taken.
func seqElem(ty types.Type) (*types.Named, bool) {
	n, ok := ty.(*types.Named)
	if !ok || n.Obj().Pkg() == nil || n.Obj().Pkg().Path() != "iter" || n.Obj().Name() != "Seq" {
		return nil, false
	}
	if n.TypeArgs() == nil || n.TypeArgs().Len() != 1 {
		return nil, false
	}
	e, _, isS := namedStruct(n.TypeArgs().At(0))
	return e, isS
}

func isAbstractBytes(ty types.Type) bool {
	n, ok := ty.(*types.Named)
	if !ok || n.Obj().Pkg() == nil {
		return false
	}
	return abstractBytes2[n.Obj().Pkg().Path()+"."+n.Obj().Name()]
}

func (t *tr2) typeOK(ty types.Type) bool {
	if isBool(ty) || isBytes(ty) || isErrorType(ty) || isAbstractBytes(ty) || isBoolList(ty) || isBytePtr(ty) {
		return true
	}
	if _, ok := intKind(ty); ok {
		return true
	}
	if _, ok := atomicKind(ty); ok {
		return true
	}
	if _, ok := absIntKind(ty); ok {
		return true
	}
	if p, ok := atomicPtrElem(ty); ok {
		return t.typeOK(p)
	}
	if e, ok := seqElem(ty); ok {
		return t.g.mods[e.Obj().Pkg().Path()] != ""
	}
	if e, ok := chanElem(ty); ok {
		return t.typeOK(e)
	}
	if _, ok := floatKind(ty); ok {
		return true
	}
	if _, ok := t.isStructList(ty); ok {
		return true
	}
	if si, ok := isSumList(ty); ok {
		return t.g.mods[modPath+"/"+si.pkg] != ""
	}
	if si := sumOf(ty); si != nil {
		return t.g.mods[modPath+"/"+si.pkg] != ""
	}
	if n, ok := extIface(ty); ok {
		return t.g.mods[n.Obj().Pkg().Path()] != ""
	}
	if n, _, ok := namedStruct(ty); ok {
		return t.g.mods[n.Obj().Pkg().Path()] != ""
	}
	if n, ok := ptrStruct(ty); ok {
		return t.g.mods[n.Obj().Pkg().Path()] != ""
	}
	return false
}

func (t *tr2) record(n *types.Named) *recInfo {
	tn := n.Obj()
	if r, ok := t.g.recs[tn]; ok {
		return r
	}
	mod := t.g.mods[tn.Pkg().Path()]
	r := &recInfo{mod: mod, name: ident(tn.Name())}
	t.g.recs[tn] = r
	if _, isI := n.Underlying().(*types.Interface); isI {
		r.iface = true
		t.extMethodFields(r, n, mod)
		t.g.recOf[mod] = append(t.g.recOf[mod], r)
		return r
	}
	st := n.Underlying().(*types.Struct)
	var exts []int
	for i := 0; i < st.NumFields(); i++ {
		f := st.Field(i)
		if kind := extFields2[tn.Pkg().Path()+"."+tn.Name()+"."+f.Name()]; kind != "" {
			sig, _ := f.Type().Underlying().(*types.Signature)
			bad := sig == nil || sig.Results().Len() > 1 || sig.Variadic()
			if !bad {
				for j := 0; j < sig.Params().Len(); j++ {
					bad = bad || !t.typeOK(sig.Params().At(j).Type())
				}
				if sig.Results().Len() == 1 {
					bad = bad || !t.typeOK(sig.Results().At(0).Type())
				}
				bad = bad || (kind == "read" && (sig.Params().Len() != 0 || sig.Results().Len() != 1))
			}
			if bad {
				t.fail(nil2(f), "external field %s.%s: unsupported function type %s", tn.Name(), f.Name(), f.Type())
				r.fields = append(r.fields, recField{goName: f.Name(), coq: r.name + "_" + f.Name(), ty: f.Type(), ok: false})
				continue
			}
			t.noteTypeDeps(mod, sig)
			if kind == "read" {
				r.fields = append(r.fields, recField{goName: f.Name(), coq: r.name + "_" + f.Name(), ty: sig.Results().At(0).Type(), ok: true, ext: "read", extSig: sig})
			} else {
				r.fields = append(r.fields, recField{goName: f.Name(), coq: r.name + "_" + f.Name(), ty: types.Typ[types.Bool], ok: true, ext: "call", extSig: sig})
				exts = append(exts, i)
			}
			continue
		}
		ok := t.typeOK(f.Type()) && f.Name() != "_"
		if f.Embedded() {
			// an embedded struct (by value) is an ordinary field named after its type
			_, _, isS := namedStruct(f.Type())
			ok = ok && isS
		}
		if ok {
			// make sure nested records are declared first
			if p, isAP := atomicPtrElem(f.Type()); isAP {
				nn, _ := ptrStruct(p)
				t.record(nn)
			} else if e, isCh := chanElem(f.Type()); isCh {
				if nn, _, isS := namedStruct(e); isS {
					t.record(nn)
				}
			} else if _, isAtomic := atomicKind(f.Type()); isAtomic {
				// an integer
			} else if _, isAbs := absIntKind(f.Type()); isAbs {
				// an integer
			} else if nn, _, isS := namedStruct(f.Type()); isS {
				t.record(nn)
			} else if nn, isP := ptrStruct(f.Type()); isP {
				t.record(nn)
			} else if nn, isL := t.isStructList(f.Type()); isL {
				t.record(nn)
			} else if nn, isE := extIface(f.Type()); isE {
				t.record(nn)
			}
		}
		r.fields = append(r.fields, recField{goName: f.Name(), coq: r.name + "_" + f.Name(), ty: f.Type(), ok: ok})
		if ok { // the record's module depends on the module that declares the field's type
			dm := ""
			if p, isAP := atomicPtrElem(f.Type()); isAP {
				nn, _ := ptrStruct(p)
				dm = t.g.mods[nn.Obj().Pkg().Path()]
			} else if e, isCh := chanElem(f.Type()); isCh {
				if nn, _, isS := namedStruct(e); isS {
					dm = t.g.mods[nn.Obj().Pkg().Path()]
				}
			} else if nn, _, isS := namedStruct(f.Type()); isS {
				dm = t.g.mods[nn.Obj().Pkg().Path()]
			} else if nn, isP := ptrStruct(f.Type()); isP {
				dm = t.g.mods[nn.Obj().Pkg().Path()]
			} else if si := sumOf(f.Type()); si != nil {
				dm = t.g.mods[modPath+"/"+si.pkg]
			} else if nn, isE := extIface(f.Type()); isE {
				dm = t.g.mods[nn.Obj().Pkg().Path()]
			}
			if dm != "" && dm != mod {
				if t.g.deps[mod] == nil {
					t.g.deps[mod] = map[string]bool{}
				}
				t.g.deps[mod][dm] = true
			}
		}
	}
	// pseudo-fields of the external "call" fields, after the Go fields (indices beyond NumFields)
	for _, i := range exts {
		f := r.fields[i]
		sig := f.extSig
		parts := []string{}
		for j := 0; j < sig.Params().Len(); j++ {
			parts = append(parts, t.ctypeIn(mod, sig.Params().At(j).Type()))
		}
		at := "unit"
		if len(parts) == 1 {
			at = parts[0]
		} else if len(parts) > 1 {
			at = "(" + strings.Join(parts, " * ") + ")"
		}
		r.fields = append(r.fields, recField{goName: f.goName + "#log", coq: f.coq + "_log", ok: true, cty: "(list " + at + ")", zero: "[]"})
		if sig.Results().Len() == 1 {
			r.fields = append(r.fields, recField{goName: f.goName + "#ret", coq: f.coq + "_ret", ty: sig.Results().At(0).Type(), ok: true})
		}
	}
	t.extMethodFields(r, n, mod)
	t.g.recOf[mod] = append(t.g.recOf[mod], r)
	return r
}

// extMethodFields adds the pseudo-fields of the registered external methods of n: one answer
// field per method with a result, and one ordered call log if some method is a "call".
func (t *tr2) extMethodFields(r *recInfo, n *types.Named, mod string) {
	ms := extMethodsOf(n)
	anyCall := false
	for _, m := range ms {
		kind := extMethods2[n.Obj().Pkg().Path()+"."+n.Obj().Name()+"."+m]
		obj, _, _ := types.LookupFieldOrMethod(types.NewPointer(n), true, n.Obj().Pkg(), m)
		if _, isI := n.Underlying().(*types.Interface); isI {
			obj, _, _ = types.LookupFieldOrMethod(n, true, n.Obj().Pkg(), m)
		}
		fn, _ := obj.(*types.Func)
		if fn == nil {
			t.errs = append(t.errs, fmt.Sprintf("external method %s.%s not found", n.Obj().Name(), m))
			continue
		}
		sig := fn.Type().(*types.Signature)
		if sig.Results().Len() > 1 || sig.Variadic() || (kind == "read" && sig.Results().Len() != 1) {
			t.errs = append(t.errs, fmt.Sprintf("external method %s.%s: unsupported signature", n.Obj().Name(), m))
			continue
		}
		t.noteTypeDeps(mod, sig)
		if sig.Results().Len() == 1 {
			if !t.typeOK(sig.Results().At(0).Type()) {
				t.errs = append(t.errs, fmt.Sprintf("external method %s.%s: result type outside the subset", n.Obj().Name(), m))
				continue
			}
			r.fields = append(r.fields, recField{goName: m + "#ret", coq: r.name + "_" + m + "_ret", ty: sig.Results().At(0).Type(), ok: true})
		}
		if kind == "call" {
			anyCall = true
			args := []string{}
			for j := 0; j < sig.Params().Len(); j++ {
				pt := sig.Params().At(j).Type()
				if isContextType(pt) {
					continue
				}
				if !t.typeOK(pt) {
					t.errs = append(t.errs, fmt.Sprintf("external method %s.%s: parameter type %s outside the subset", n.Obj().Name(), m, pt))
					continue
				}
				args = append(args, fmt.Sprintf("(a%d_ : %s)", j, t.ctypeIn(mod, pt)))
			}
			r.calls = append(r.calls, strings.TrimSpace(r.name+"_call_"+m+" "+strings.Join(args, " ")))
		}
	}
	if anyCall {
		r.fields = append(r.fields, recField{goName: "#calls", coq: r.name + "_calls", ok: true, cty: "(list " + r.name + "_call)", zero: "[]"})
	}
}

func nil2(v *types.Var) ast.Node { return &ast.Ident{NamePos: v.Pos(), Name: v.Name()} }

// ctypeIn: the Coq type of ty as written inside module mod.
func (t *tr2) ctypeIn(mod string, ty types.Type) string {
	save := t.mod
	t.mod = mod
	defer func() { t.mod = save }()
	return t.ctype(nil, ty)
}

func (t *tr2) noteTypeDeps(mod string, sig *types.Signature) {
	note := func(ty types.Type) {
		dm := ""
		if nn, _, isS := namedStruct(ty); isS {
			dm = t.g.mods[nn.Obj().Pkg().Path()]
			if dm != "" {
				t.record(nn)
			}
		} else if nn, isP := ptrStruct(ty); isP {
			dm = t.g.mods[nn.Obj().Pkg().Path()]
			if dm != "" {
				t.record(nn)
			}
		} else if si := sumOf(ty); si != nil {
			dm = t.g.mods[modPath+"/"+si.pkg]
		}
		if dm != "" && dm != mod {
			if t.g.deps[mod] == nil {
				t.g.deps[mod] = map[string]bool{}
			}
			t.g.deps[mod][dm] = true
		}
	}
	for j := 0; j < sig.Params().Len(); j++ {
		note(sig.Params().At(j).Type())
	}
	for j := 0; j < sig.Results().Len(); j++ {
		note(sig.Results().At(j).Type())
	}
}

func (t *tr2) fieldType(f recField) string {
	if f.cty != "" {
		return f.cty
	}
	return t.ctype(nil, f.ty)
}

func (t *tr2) fieldZero(n ast.Node, f recField) string {
	if f.zero != "" {
		return f.zero
	}
	return t.zero(n, f.ty)
}

func (t *tr2) q(mod, name string) string {
	if mod == t.mod {
		return name
	}
	if t.g.deps[t.mod] == nil {
		t.g.deps[t.mod] = map[string]bool{}
	}
	t.g.deps[t.mod][mod] = true
	return mod + "." + name
}

func (t *tr2) ctype(n ast.Node, ty types.Type) string {
	if isBool(ty) {
		return "bool"
	}
	if _, ok := intKind(ty); ok {
		return "Z"
	}
	if _, ok := atomicKind(ty); ok {
		return "Z"
	}
	if _, ok := absIntKind(ty); ok {
		return "Z"
	}
	if _, ok := floatKind(ty); ok {
		return "Z"
	}
	if p, ok := atomicPtrElem(ty); ok && t.typeOK(ty) {
		return t.ctype(n, p)
	}
	if e, ok := seqElem(ty); ok && t.typeOK(ty) {
		r := t.record(e)
		return "(list " + t.q(r.mod, r.name) + ")"
	}
	if e, ok := chanElem(ty); ok && t.typeOK(ty) {
		return "(gchan " + t.ctype(n, e) + ")"
	}
	if si, ok := isSumList(ty); ok && t.typeOK(ty) {
		t.useSum(n, si, ty.Underlying().(*types.Slice).Elem())
		return "(list " + t.q(t.g.mods[modPath+"/"+si.pkg], si.name) + ")"
	}
	if nn, ok := t.isStructList(ty); ok {
		r := t.record(nn)
		return "(list " + t.q(r.mod, r.name) + ")"
	}
	if isBytes(ty) || isAbstractBytes(ty) {
		return "(list Z)"
	}
	if isBoolList(ty) {
		return "(list bool)"
	}
	if isBytePtr(ty) {
		return "(option (list Z))"
	}
	if isErrorType(ty) {
		return "goerror"
	}
	if si := sumOf(ty); si != nil && t.typeOK(ty) {
		t.useSum(n, si, ty)
		return t.q(t.g.mods[modPath+"/"+si.pkg], si.name)
	}
	if nn, ok := extIface(ty); ok && t.typeOK(ty) {
		r := t.record(nn)
		return t.q(r.mod, r.name)
	}
	if nn, _, ok := namedStruct(ty); ok && t.typeOK(ty) {
		r := t.record(nn)
		return t.q(r.mod, r.name)
	}
	if nn, ok := ptrStruct(ty); ok && t.typeOK(ty) {
		r := t.record(nn)
		return "(option " + t.q(r.mod, r.name) + ")"
	}
	if tup, ok := ty.(*types.Tuple); ok {
		if tup.Len() == 0 {
			return "unit"
		}
		parts := []string{}
		for i := 0; i < tup.Len(); i++ {
			parts = append(parts, t.ctype(n, tup.At(i).Type()))
		}
		if len(parts) == 1 {
			return parts[0]
		}
		return "(" + strings.Join(parts, " * ") + ")"
	}
	t.fail(n, "unsupported type %s", ty)
	return "unit"
}

func (t *tr2) zero(n ast.Node, ty types.Type) string {
	if isBool(ty) {
		return "false"
	}
	if _, ok := intKind(ty); ok {
		return "0"
	}
	if _, ok := atomicKind(ty); ok {
		return "0"
	}
	if _, ok := absIntKind(ty); ok {
		return "0"
	}
	if _, ok := floatKind(ty); ok {
		return "0"
	}
	if _, ok := atomicPtrElem(ty); ok {
		return "None"
	}
	if _, ok := seqElem(ty); ok {
		return "[]"
	}
	if _, ok := chanElem(ty); ok {
		return "(mk_gchan [] 0)" // a nil channel: nothing can be sent or received
	}
	if _, ok := isSumList(ty); ok {
		return "[]"
	}
	if _, ok := t.isStructList(ty); ok {
		return "[]"
	}
	if ln, ok := isArray(ty); ok && isBytes(ty) {
		return fmt.Sprintf("(go_zeros %d)", ln)
	}
	if isBytes(ty) || isAbstractBytes(ty) || isBoolList(ty) {
		return "[]"
	}
	if isBytePtr(ty) {
		return "None"
	}
	if isErrorType(ty) {
		return "ErrNil"
	}
	if si := sumOf(ty); si != nil && t.typeOK(ty) {
		t.useSum(n, si, ty)
		return t.q(t.g.mods[modPath+"/"+si.pkg], si.name+"_nil")
	}
	if nn, ok := extIface(ty); ok && t.typeOK(ty) {
		r := t.record(nn)
		parts := []string{t.q(r.mod, "mk_"+r.name)}
		for _, f := range r.fields {
			parts = append(parts, t.fieldZero(n, f))
		}
		return "(" + strings.Join(parts, " ") + ")"
	}
	if nn, st, ok := namedStruct(ty); ok && t.typeOK(ty) {
		r := t.record(nn)
		parts := []string{t.q(r.mod, "mk_"+r.name)}
		_ = st
		for _, f := range r.fields {
			if f.ok {
				parts = append(parts, t.fieldZero(n, f))
			}
		}
		return "(" + strings.Join(parts, " ") + ")"
	}
	if _, ok := ptrStruct(ty); ok && t.typeOK(ty) {
		return "None"
	}
	t.fail(n, "no zero value for type %s", ty)
	return "tt"
}

// ---------- driver ----------

func splitFn(s string) (recv, name string) {
	if i := strings.Index(s, "."); i >= 0 {
		return s[:i], s[i+1:]
	}
	return "", s
}

func coqFnName(s string) string {
	r, n := splitFn(s)
	if r == "" {
		return ident(n)
	}
	return r + "_" + n
}

func recvTypeName(fd *ast.FuncDecl) string {
	if fd.Recv == nil || len(fd.Recv.List) != 1 {
		return ""
	}
	e := fd.Recv.List[0].Type
	if s, ok := e.(*ast.StarExpr); ok {
		e = s.X
	}
	if id, ok := e.(*ast.Ident); ok {
		return id.Name
	}
	return "?"
}

func runV2(ci *chainImporter, repo, outPath, manifestPath string) int {
	g := &v2{ci: ci, fset: ci.fset, fns: map[*types.Func]*fnInfo{}, recs: map[*types.TypeName]*recInfo{},
		recOf: map[string][]*recInfo{}, mods: map[string]string{}, deps: map[string]map[string]bool{},
		sumDecl: map[string][]string{}, sumSeen: map[*sumInfo]bool{}}
	var items []genItem

	// pass 1: load packages, resolve the whitelisted declarations
	type pkgState struct {
		tg   *target2
		full string
		t    *tr2
		fds  []*ast.FuncDecl
	}
	var pkgs []*pkgState
	seenMod := map[string]string{}
	for _, p := range pkgOrder2 {
		tg := registry2[p]
		pkg, err := ci.check(tg.Pkg)
		if err != nil || pkg == nil {
			fmt.Fprintf(os.Stderr, "translator(v2): cannot load package %s: %v\n", tg.Pkg, err)
			return 2
		}
		full := modPath + "/" + tg.Pkg
		mod := modName(tg.Pkg)
		if prev, dup := seenMod[mod]; dup {
			fmt.Fprintf(os.Stderr, "translator(v2): module name %s used by both %s and %s\n", mod, prev, tg.Pkg)
			return 2
		}
		seenMod[mod] = tg.Pkg
		g.mods[full] = mod
		ps := &pkgState{tg: tg, full: full}
		ps.t = &tr2{g: g, info: ci.infos[full], pkg: pkg, mod: mod}
		for _, fn := range tg.Funcs {
			recv, name := splitFn(fn)
			var fd *ast.FuncDecl
			for _, f := range ci.files[full] {
				for _, d := range f.Decls {
					if x, ok := d.(*ast.FuncDecl); ok && x.Name.Name == name && recvTypeName(x) == recv {
						fd = x
					}
				}
			}
			if fd == nil || fd.Body == nil {
				g.errs = append(g.errs, fmt.Sprintf("package %s: function %s not found", tg.Pkg, fn))
				continue
			}
			obj, _ := ps.t.info.Defs[fd.Name].(*types.Func)
			if obj == nil {
				g.errs = append(g.errs, fmt.Sprintf("package %s: function %s has no type information", tg.Pkg, fn))
				continue
			}
			g.fns[obj] = &fnInfo{mod: mod, name: coqFnName(fn), decl: fd, mut: ps.t.writesReceiver(fd), fuel: ps.t.selfRecursive(fd, obj), seq: len(g.fns)}
			ps.fds = append(ps.fds, fd)
		}
		pkgs = append(pkgs, ps)
	}

	// pass 2: translate bodies (records are collected on the way)
	bodies := map[string]*bytes.Buffer{}
	for _, ps := range pkgs {
		buf := &bytes.Buffer{}
		bodies[ps.t.mod] = buf
		for _, fd := range ps.fds {
			t := ps.t
			nerr := len(t.errs)
			def := t.function(fd)
			var src bytes.Buffer
			_ = format.Node(&src, g.fset, fd)
			h := sha256.Sum256(src.Bytes())
			pos := g.fset.Position(fd.Pos())
			end := g.fset.Position(fd.End())
			relf, _ := filepath.Rel(repo, pos.Filename)
			obj := t.info.Defs[fd.Name].(*types.Func)
			fi := g.fns[obj]
			if len(t.errs) > nerr {
				// refused: report loudly, then try a typed stub so that the damage stays local
				refused := append([]string{}, t.errs[nerr:]...)
				t.errs = t.errs[:nerr]
				t.stubOnly = true
				stub := t.function(fd)
				t.stubOnly = false
				if len(t.errs) > nerr {
					t.errs = append(t.errs[:nerr], refused...) // even the signature is outside the subset: fatal
					continue
				}
				for _, e := range refused {
					fmt.Fprintln(os.Stderr, "translator(v2): REFUSED (stub emitted):", e)
				}
				fmt.Fprintf(buf, "(* %s:%d-%d  REFUSED by the translator: %s *)\n%s\n\n", relf, pos.Line, end.Line, strings.ReplaceAll(strings.ReplaceAll(strings.Join(refused, " | "), "*)", "* )"), "(*", "( *"), stub)
				items = append(items, genItem{Kind: "func2-refused", Pkg: ps.tg.Pkg, Name: fi.name, Pos: fmt.Sprintf("%s:%d-%d", relf, pos.Line, end.Line), Val: strings.Join(refused, " | ")})
				continue
			}
			fmt.Fprintf(buf, "(* %s:%d-%d  sha256(src)=%x *)\n%s\n\n", relf, pos.Line, end.Line, h[:8], def)
			items = append(items, genItem{Kind: "func2", Pkg: ps.tg.Pkg, Name: fi.name, Pos: fmt.Sprintf("%s:%d-%d", relf, pos.Line, end.Line), Hash: fmt.Sprintf("%x", h[:8])})
		}
		g.errs = append(g.errs, ps.t.errs...)
	}
	if len(g.errs) > 0 {
		for _, e := range g.errs {
			fmt.Fprintln(os.Stderr, "translator(v2):", e)
		}
		return 1
	}

	var out bytes.Buffer
	out.WriteString("(* GENERATED by /verif/translator (v2, -out2) from the current /repo sources. DO NOT EDIT. *)\n")
	out.WriteString("From Coq Require Import String.\nFrom Coq Require Import ZArith Bool List.\nFrom GoSecs Require Import Base.GoInt Base.BytesBE Base.GoSlice.\nImport ListNotations.\nOpen Scope Z_scope.\n\n")
	// modules in dependency order (registration order among independent ones)
	var ordered []*pkgState
	state := map[string]int{}
	var visit func(ps *pkgState)
	visit = func(ps *pkgState) {
		if state[ps.t.mod] != 0 {
			if state[ps.t.mod] == 1 {
				g.errs = append(g.errs, "cyclic reference between translated packages at "+ps.t.mod)
			}
			return
		}
		state[ps.t.mod] = 1
		for _, q := range pkgs {
			if g.deps[ps.t.mod][q.t.mod] {
				visit(q)
			}
		}
		state[ps.t.mod] = 2
		ordered = append(ordered, ps)
	}
	for _, ps := range pkgs {
		visit(ps)
	}
	if len(g.errs) > 0 {
		for _, e := range g.errs {
			fmt.Fprintln(os.Stderr, "translator(v2):", e)
		}
		return 1
	}
	for _, ps := range ordered {
		mod := ps.t.mod
		fmt.Fprintf(&out, "Module %s.\n\n", mod)
		// records that do not mention an external interface object; the sum interfaces; the
		// external interface objects; the records that hold one
		late := map[*recInfo]bool{}
		for _, r := range g.recOf[mod] {
			late[r] = !r.iface && ps.t.usesIface(r, map[*recInfo]bool{})
		}
		for _, r := range g.recOf[mod] {
			if !r.iface && !late[r] {
				out.WriteString(r.emit(ps.t))
			}
		}
		for _, d := range g.sumDecl[mod] {
			out.WriteString(d)
		}
		for _, r := range g.recOf[mod] {
			if r.iface {
				out.WriteString(r.emit(ps.t))
			}
		}
		for _, r := range g.recOf[mod] {
			if late[r] {
				out.WriteString(r.emit(ps.t))
			}
		}
		out.Write(bodies[mod].Bytes())
		fmt.Fprintf(&out, "End %s.\n\n", mod)
	}
	if outPath == "" || outPath == "-" {
		os.Stdout.Write(out.Bytes())
	} else {
		old, _ := os.ReadFile(outPath)
		if !bytes.Equal(old, out.Bytes()) {
			if err := os.WriteFile(outPath, out.Bytes(), 0o644); err != nil {
				fmt.Fprintln(os.Stderr, "translator(v2):", err)
				return 2
			}
		}
	}
	if manifestPath != "" {
		sort.SliceStable(items, func(i, j int) bool { return items[i].Pkg < items[j].Pkg })
		js, _ := json.MarshalIndent(items, "", " ")
		_ = os.WriteFile(manifestPath, js, 0o644)
	}
	return 0
}

func (r *recInfo) emit(t *tr2) string {
	if r.inSum {
		return "" // declared with its sum interface (mutual Inductive)
	}
	var b strings.Builder
	flds := []string{}
	left := []string{}
	for _, f := range r.fields {
		if f.ok {
			flds = append(flds, fmt.Sprintf("%s : %s", f.coq, t.fieldType(f)))
		} else {
			left = append(left, f.goName)
		}
	}
	if len(left) > 0 {
		fmt.Fprintf(&b, "(* struct %s: fields outside the subset are left out: %s *)\n", r.name, strings.Join(left, ", "))
	}
	if len(r.calls) > 0 {
		fmt.Fprintf(&b, "(* the ordered log of the calls %s makes into its environment *)\nInductive %s_call :=", r.name, r.name)
		for _, c := range r.calls {
			fmt.Fprintf(&b, "\n| %s", c)
		}
		b.WriteString(".\n")
	}
	fmt.Fprintf(&b, "Record %s := mk_%s { %s }.\n", r.name, r.name, strings.Join(flds, "; "))
	for _, f := range r.fields {
		if !f.ok {
			continue
		}
		args := []string{}
		for _, g := range r.fields {
			if !g.ok {
				continue
			}
			if g.coq == f.coq {
				args = append(args, "v_")
			} else {
				args = append(args, "("+g.coq+" r_)")
			}
		}
		fmt.Fprintf(&b, "Definition set_%s (r_ : %s) (v_ : %s) : %s := mk_%s %s.\n", f.coq, r.name, t.fieldType(f), r.name, r.name, strings.Join(args, " "))
	}
	if body, ok := t.recEqb(r); ok {
		fmt.Fprintf(&b, "Definition eqb_%s (a_ b_ : %s) : bool := %s.\n", r.name, r.name, body)
	}
	b.WriteString("\n")
	return b.String()
}

// function translates one declaration to a Coq Definition.
func (t *tr2) function(fd *ast.FuncDecl) string {
	obj := t.info.Defs[fd.Name].(*types.Func)
	fi := t.g.fns[obj]
	sig := obj.Type().(*types.Signature)
	t.sig = sig
	t.tmp = 0
	t.fresh = map[types.Object]bool{}
	t.aliasAt = map[types.Object][]token.Pos{}
	t.loops = nil
	if !t.stubOnly { // a refused body is not looked at again: only the signature matters for the stub
		t.checkShadow(fd)
		t.findFresh(fd)
	}
	params := []string{}
	if r := sig.Recv(); r != nil {
		nm := r.Name()
		if nm == "" || nm == "_" {
			nm = "recv_"
		}
		params = append(params, fmt.Sprintf("(%s : %s)", ident(nm), t.ctype(fd, r.Type())))
	}
	for i := 0; i < sig.Params().Len(); i++ {
		p := sig.Params().At(i)
		nm := p.Name()
		if nm == "" || nm == "_" {
			nm = fmt.Sprintf("arg%d_", i)
		}
		params = append(params, fmt.Sprintf("(%s : %s)", ident(nm), t.ctype(fd, p.Type())))
	}
	if sig.Variadic() {
		t.fail(fd, "variadic function unsupported")
	}
	for i := 0; i < sig.Results().Len(); i++ {
		if rv := sig.Results().At(i); rv.Name() != "" && rv.Name() != "_" && t.namedResultUsed(fd, rv) {
			t.fail(fd, "named results unsupported (unless the name is documentation only: never read or assigned, every return explicit)")
		}
	}
	rty := t.ctype(fd, sig.Results())
	c := &fctx{rty: rty, ret: func(v string) string { return "(GOk " + v + ")" }}
	end := noRest
	if sig.Results().Len() == 0 {
		end = "(GOk tt)"
	}
	t.mutRecv = nil
	if fi.mut {
		// state-passing: the function also returns its (updated) receiver
		r := sig.Recv()
		t.mutRecv = r
		rn := ident(r.Name())
		inner := rty // what `return v` carries (the R of the loops); the definition returns (receiver, v)
		rty = "(" + t.ctype(fd, r.Type()) + " * " + rty + ")"
		c = &fctx{rty: inner, ret: func(v string) string { return "(GOk (" + rn + ", " + v + "))" }}
		if sig.Results().Len() == 0 {
			end = "(GOk (" + rn + ", tt))"
		}
		ast.Inspect(fd.Body, func(n ast.Node) bool {
			var body *ast.BlockStmt
			switch x := n.(type) {
			case *ast.ForStmt:
				body = x.Body
			case *ast.RangeStmt:
				body = x.Body
			}
			if body != nil {
				ast.Inspect(body, func(m ast.Node) bool {
					if _, isRet := m.(*ast.ReturnStmt); isRet {
						t.fail(m, "return inside a loop of a receiver-mutating method unsupported")
					}
					return true
				})
			}
			return true
		})
	}
	if fi.fuel {
		params = append([]string{"(fuel_ : nat)"}, params...)
	}
	if t.stubOnly {
		// the body left the subset: emit a stub with the right type that always panics, so that the
		// rest of Gen2.v still compiles and exactly the bridge lemmas about this function (and about
		// its translated callers) stop checking
		return fmt.Sprintf("Definition %s %s : gres %s :=\n GPanic.", fi.name, strings.Join(params, " "), rty)
	}
	t.curSeq = fi.seq
	t.selfRec = nil
	if fi.fuel {
		t.selfRec = obj
	}
	body := t.stmts(fd.Body.List, c, func() string { return end })
	if strings.Contains(body, noRest) {
		t.fail(fd, "function %s can fall off its end without a return", fi.name)
	}
	if fi.fuel {
		// a self-recursive function: structural recursion on explicit fuel; out of fuel = GPanic (the
		// bridge lemmas quantify over sufficient fuel). Inside the body fuel_ is the predecessor.
		return fmt.Sprintf("Fixpoint %s %s {struct fuel_} : gres %s :=\n match fuel_ with\n | O => GPanic\n | S fuel_ =>\n %s\n end.", fi.name, strings.Join(params, " "), rty, body)
	}
	return fmt.Sprintf("Definition %s %s : gres %s :=\n %s.", fi.name, strings.Join(params, " "), rty, body)
}

// checkShadow rejects a local variable that shadows another local of the same function (the
// let-based translation would resolve later uses of the outer variable to the inner one).
func (t *tr2) checkShadow(fd *ast.FuncDecl) {
	ast.Inspect(fd, func(n ast.Node) bool {
		id, ok := n.(*ast.Ident)
		if !ok || id.Name == "_" {
			return true
		}
		v, ok := t.info.Defs[id].(*types.Var)
		if !ok || v.Parent() == nil {
			return true
		}
		for s := v.Parent().Parent(); s != nil && s != t.pkg.Scope() && s != types.Universe; s = s.Parent() {
			if o, ok := s.Lookup(id.Name).(*types.Var); ok && o != v && o.Pos() < v.Pos() {
				// (an outer variable declared LATER is not in scope here: no shadowing)
				t.fail(id, "local %s shadows another local of the same function", id.Name)
			}
		}
		return true
	})
}

// findFresh marks slice variables created by make, and pointer variables created by &T{...}, that
// are never copied to another variable (their pointee cannot be observed through an alias).
func (t *tr2) findFresh(fd *ast.FuncDecl) {
	bad := map[types.Object]bool{}
	markAlias := func(o types.Object, at token.Pos) {
		if isSlice(o.Type()) {
			t.aliasAt[o] = append(t.aliasAt[o], at) // position-sensitive: see checkWritable
		} else {
			bad[o] = true
		}
	}
	aliasOf := func(e ast.Expr) types.Object {
		for {
			switch x := e.(type) {
			case *ast.ParenExpr:
				e = x.X
			case *ast.SliceExpr:
				e = x.X
			case *ast.Ident:
				if o := t.info.Uses[x]; o != nil {
					if _, isP := o.Type().Underlying().(*types.Pointer); isP || isSlice(o.Type()) {
						return o
					}
				}
				return nil
			default:
				return nil
			}
		}
	}
	ast.Inspect(fd, func(n ast.Node) bool {
		switch x := n.(type) {
		case *ast.AssignStmt:
			for i, r := range x.Rhs {
				if o := aliasOf(r); o != nil {
					// x = x[...] / x = x re-binds the same variable: still an alias of itself only
					if i < len(x.Lhs) {
						if id, ok := x.Lhs[i].(*ast.Ident); ok && (t.info.Uses[id] == o || t.info.Defs[id] == o) {
							continue
						}
					}
					markAlias(o, r.Pos())
				}
				if x.Tok == token.DEFINE && i < len(x.Lhs) {
					if id, ok := x.Lhs[i].(*ast.Ident); ok {
						if u, ok := r.(*ast.UnaryExpr); ok && u.Op == token.AND {
							if _, isLit := u.X.(*ast.CompositeLit); isLit { // p := &T{...}: a fresh pointee
								if o := t.info.Defs[id]; o != nil {
									t.fresh[o] = true
								}
							}
						}
						if call, ok := r.(*ast.CallExpr); ok {
							if sel, ok := call.Fun.(*ast.SelectorExpr); ok {
								if s := t.info.Selections[sel]; s != nil && s.Kind() == types.MethodVal {
									if m, ok := s.Obj().(*types.Func); ok && m.Pkg() != nil && freshAlloc2[m.Pkg().Path()+"."+recvName(m)+m.Name()] {
										if o := t.info.Defs[id]; o != nil {
											t.fresh[o] = true
										}
									}
								}
							}
							if f, ok := call.Fun.(*ast.Ident); ok && f.Name == "make" {
								if o := t.info.Defs[id]; o != nil {
									t.fresh[o] = true
								}
							}
						}
					}
				}
			}
		case *ast.CompositeLit:
			for _, el := range x.Elts {
				if kv, ok := el.(*ast.KeyValueExpr); ok {
					el = kv.Value
				}
				if o := aliasOf(el); o != nil {
					markAlias(o, el.Pos())
				}
			}
		case *ast.ValueSpec:
			for _, v := range x.Values {
				if o := aliasOf(v); o != nil {
					markAlias(o, v.Pos())
				}
			}
		}
		return true
	})
	for o := range bad {
		delete(t.fresh, o)
	}
}

// atomicCall recognises x.Add(k) / x.Load() / x.Store(v) on a sync/atomic integer.
func (t *tr2) atomicCall(call *ast.CallExpr) (target ast.Expr, method string, k ikind, ok bool) {
	sel, isSel := call.Fun.(*ast.SelectorExpr)
	if !isSel {
		return nil, "", ikind{}, false
	}
	ty := t.info.TypeOf(sel.X)
	if ty == nil {
		return nil, "", ikind{}, false
	}
	if p, isP := ty.(*types.Pointer); isP {
		ty = p.Elem()
	}
	k, ok = atomicKind(ty)
	if !ok {
		return nil, "", ikind{}, false
	}
	return sel.X, sel.Sel.Name, k, true
}

// atomicPtrCall recognises x.Load() / x.Store(p) on a sync/atomic.Pointer[T].
func (t *tr2) atomicPtrCall(call *ast.CallExpr) (target ast.Expr, method string, ok bool) {
	sel, isSel := call.Fun.(*ast.SelectorExpr)
	if !isSel {
		return nil, "", false
	}
	ty := t.info.TypeOf(sel.X)
	if ty == nil {
		return nil, "", false
	}
	if p, isP := ty.(*types.Pointer); isP {
		ty = p.Elem()
	}
	if _, ok := atomicPtrElem(ty); !ok {
		return nil, "", false
	}
	return sel.X, sel.Sel.Name, true
}

// writesReceiver: a pointer-receiver method whose body assigns through the receiver (field
// assignment, element assignment, copy / PutUint into it, atomic Add / Store on a field).
func (t *tr2) writesReceiver(fd *ast.FuncDecl) bool {
	if fd.Recv == nil || len(fd.Recv.List) != 1 || len(fd.Recv.List[0].Names) != 1 {
		return false
	}
	if _, isPtr := fd.Recv.List[0].Type.(*ast.StarExpr); !isPtr {
		return false
	}
	recv := t.info.Defs[fd.Recv.List[0].Names[0]]
	if recv == nil {
		return false
	}
	for _, o := range t.assignedOutside(fd.Body) {
		if o == recv {
			return true
		}
	}
	return false
}

// useSum declares the Inductive of a sum interface (once), in the module of its package.
func (t *tr2) useSum(n ast.Node, si *sumInfo, ty types.Type) {
	if t.g.sumSeen[si] {
		return
	}
	t.g.sumSeen[si] = true
	mod := t.g.mods[modPath+"/"+si.pkg]
	pkg := ty.(*types.Named).Obj().Pkg()
	save := t.mod
	t.mod = mod
	defer func() { t.mod = save }()
	var b strings.Builder
	fmt.Fprintf(&b, "(* interface %s as the sum of its registered implementations *)\nInductive %s :=\n| %s_nil", si.name, si.name, si.name)
	var mutual []*recInfo
	for _, impl := range si.impls {
		tn, _ := pkg.Scope().Lookup(strings.TrimPrefix(impl, "*")).(*types.TypeName)
		if tn == nil {
			t.fail(n, "sum interface %s: implementation %s not found", si.name, impl)
			continue
		}
		nn, _, ok := namedStruct(tn.Type())
		if !ok {
			t.fail(n, "sum interface %s: implementation %s is not a struct type", si.name, impl)
			continue
		}
		r := t.record(nn)
		arg := r.name
		if strings.HasPrefix(impl, "*") {
			arg = "(option " + r.name + ")"
		}
		fmt.Fprintf(&b, "\n| %s (v_ : %s)", sumCtor(si, impl), arg)
		// an implementation that holds values of the interface (a tree node) is declared in the
		// same mutual block
		for _, f := range r.fields {
			if !f.ok || f.ty == nil {
				continue
			}
			if fs, isL := isSumList(f.ty); (isL && fs == si) || sumOf(f.ty) == si {
				if !r.inSum {
					r.inSum = true
					mutual = append(mutual, r)
				}
			}
		}
	}
	for _, r := range mutual {
		args := []string{}
		for _, f := range r.fields {
			if f.ok {
				args = append(args, fmt.Sprintf("(%s_ : %s)", f.coq, t.fieldType(f)))
			}
		}
		fmt.Fprintf(&b, "\nwith %s := mk_%s %s", r.name, r.name, strings.Join(args, " "))
	}
	b.WriteString(".\n")
	for _, r := range mutual {
		oks := []recField{}
		for _, f := range r.fields {
			if f.ok {
				oks = append(oks, f)
			}
		}
		for i, f := range oks {
			pats := make([]string, len(oks))
			for j := range pats {
				pats[j] = "_"
			}
			pats[i] = "x_"
			fmt.Fprintf(&b, "Definition %s (r_ : %s) : %s := match r_ with mk_%s %s => x_ end.\n", f.coq, r.name, t.fieldType(f), r.name, strings.Join(pats, " "))
		}
		for i, f := range oks {
			args := make([]string, len(oks))
			for j, g := range oks {
				args[j] = "(" + g.coq + " r_)"
			}
			args[i] = "v_"
			fmt.Fprintf(&b, "Definition set_%s (r_ : %s) (v_ : %s) : %s := mk_%s %s.\n", f.coq, r.name, t.fieldType(f), r.name, r.name, strings.Join(args, " "))
		}
	}
	b.WriteString("\n")
	t.g.sumDecl[mod] = append(t.g.sumDecl[mod], b.String())
}

// recEqb: the body of Go's == on the struct (fields compared in order), when every field is
// comparable in the subset (blank fields are ignored by Go's ==).
func (t *tr2) recEqb(r *recInfo) (string, bool) {
	conj := []string{}
	for _, f := range r.fields {
		if !f.ok {
			if f.goName != "_" {
				return "", false
			}
			continue
		}
		if f.cty != "" || f.ext != "" || f.ty == nil {
			return "", false
		}
		a, c := "("+f.coq+" a_)", "("+f.coq+" b_)"
		switch {
		case isBool(f.ty):
			conj = append(conj, "(Bool.eqb "+a+" "+c+")")
		case isBytes(f.ty) && !isSlice(f.ty) && !isString(f.ty):
			conj = append(conj, "(list_eqb "+a+" "+c+")")
		case isString(f.ty):
			conj = append(conj, "(list_eqb "+a+" "+c+")")
		default:
			if _, ok := intKind(f.ty); ok {
				conj = append(conj, "(Z.eqb "+a+" "+c+")")
			} else if _, isAtomic := atomicKind(f.ty); isAtomic {
				return "", false
			} else if _, isAbs := absIntKind(f.ty); isAbs {
				return "", false
			} else if nn, _, ok := namedStruct(f.ty); ok && t.typeOK(f.ty) {
				fr := t.record(nn)
				if _, sub := t.recEqb(fr); !sub {
					return "", false
				}
				conj = append(conj, "("+t.qIn(r.mod, fr.mod, "eqb_"+fr.name)+" "+a+" "+c+")")
			} else {
				return "", false
			}
		}
	}
	body := "true"
	for i := len(conj) - 1; i >= 0; i-- {
		body = "(andb " + conj[i] + " " + body + ")"
	}
	return body, true
}

func (t *tr2) qIn(from, mod, name string) string {
	if from == mod {
		return name
	}
	return mod + "." + name
}

// usesIface: the record has (transitively, within its module) a field holding an external
// interface object of the same module, so it must be declared after it.
func (t *tr2) usesIface(r *recInfo, seen map[*recInfo]bool) bool {
	if seen[r] {
		return false
	}
	seen[r] = true
	for _, f := range r.fields {
		if !f.ok || f.ty == nil {
			continue
		}
		ty := f.ty
		if p, ok := ty.Underlying().(*types.Pointer); ok {
			ty = p.Elem()
		}
		if n, ok := extIface(ty); ok && t.g.mods[n.Obj().Pkg().Path()] == r.mod {
			return true
		}
		if n, _, ok := namedStruct(ty); ok {
			if fr := t.g.recs[n.Obj()]; fr != nil && fr.mod == r.mod && t.usesIface(fr, seen) {
				return true
			}
		}
	}
	return false
}

// namedResultUsed: the named result is referenced in the body, or some return is bare.
func (t *tr2) namedResultUsed(fd *ast.FuncDecl, rv *types.Var) bool {
	used := false
	ast.Inspect(fd.Body, func(n ast.Node) bool {
		switch x := n.(type) {
		case *ast.Ident:
			if t.info.Uses[x] == rv || t.info.Defs[x] == rv {
				used = true
			}
		case *ast.ReturnStmt:
			if len(x.Results) == 0 {
				used = true
			}
		case *ast.FuncLit:
			return false
		}
		return !used
	})
	return used
}

// selfRecursive: the body calls the function itself.
func (t *tr2) selfRecursive(fd *ast.FuncDecl, obj *types.Func) bool {
	found := false
	ast.Inspect(fd.Body, func(n ast.Node) bool {
		if c, ok := n.(*ast.CallExpr); ok {
			if id, ok := c.Fun.(*ast.Ident); ok && t.info.Uses[id] == obj {
				found = true
			}
		}
		return !found
	})
	return found
}
