package main

// C16 (constructors): the clamp helpers the constructor model is bridged to
// (coq/theories/Gen/BridgeConstruct.v). clampF4 is float code, outside the translator's subset; it
// is tied by the correspondence run at and around +-MaxFloat32.
func init() {
	register("secs2", []string{"clampInt64", "clampUint64"}, nil)
}
