package main

import (
	"go/ast"
	"go/token"
	"go/types"
	"sort"
	"strconv"
	"strings"
)

func (t *tr2) stmts(list []ast.Stmt, c *fctx, rest func() string) string {
	if len(list) == 0 {
		return rest()
	}
	return t.stmt(list[0], c, func() string { return t.stmts(list[1:], c, rest) })
}

// escapes: the statement can leave by return / break / continue (of an enclosing construct).
func escapes(n ast.Node) bool { return escapesIn(n, false) }

// escapesIn: inSwitch = n is the body of a switch (its own breaks do not leave it by a jump the
// translation cannot express: they continue with what follows the switch).
func escapesIn(n ast.Node, inSwitch0 bool) bool {
	if n == nil {
		return false
	}
	found := false
	var walk func(n ast.Node, inLoop, inSwitch bool)
	walk = func(n ast.Node, inLoop, inSwitch bool) {
		ast.Inspect(n, func(m ast.Node) bool {
			if found || m == nil {
				return false
			}
			switch x := m.(type) {
			case *ast.ReturnStmt:
				found = true
				return false
			case *ast.BranchStmt:
				ok := x.Label == nil && ((x.Tok == token.BREAK && (inLoop || inSwitch)) || (x.Tok == token.CONTINUE && inLoop))
				if !ok {
					found = true
				}
				return false
			case *ast.ForStmt:
				if m != n {
					walk(x.Body, true, false)
					return false
				}
			case *ast.RangeStmt:
				if m != n {
					walk(x.Body, true, false)
					return false
				}
			case *ast.SwitchStmt:
				if m != n { // a break inside belongs to that switch; a continue still to the loop around
					walk(x.Body, inLoop, true)
					return false
				}
			case *ast.FuncLit:
				return false
			}
			return true
		})
	}
	walk(n, false, inSwitch0)
	return found
}

func rootIdent(e ast.Expr) *ast.Ident {
	for {
		switch x := e.(type) {
		case *ast.ParenExpr:
			e = x.X
		case *ast.IndexExpr:
			e = x.X
		case *ast.SliceExpr:
			e = x.X
		case *ast.SelectorExpr:
			e = x.X
		case *ast.Ident:
			return x
		default:
			return nil
		}
	}
}

// assignedOutside: local variables assigned inside n that are declared outside n, by position.
func (t *tr2) assignedOutside(n ast.Node, exclude ...types.Object) []types.Object {
	set := map[types.Object]bool{}
	add := func(e ast.Expr) {
		id := rootIdent(e)
		if id == nil || id.Name == "_" {
			return
		}
		o := t.info.Uses[id]
		if o == nil {
			return
		}
		v, ok := o.(*types.Var)
		if !ok || v.Pos() >= n.Pos() && v.Pos() < n.End() {
			return
		}
		if v.Pkg() != nil && v.Parent() == v.Pkg().Scope() {
			return
		}
		set[o] = true
	}
	ast.Inspect(n, func(m ast.Node) bool {
		switch x := m.(type) {
		case *ast.AssignStmt:
			for _, l := range x.Lhs {
				add(l)
			}
		case *ast.IncDecStmt:
			add(x.X)
		case *ast.SendStmt:
			add(x.Chan)
		case *ast.UnaryExpr:
			if x.Op == token.ARROW {
				add(x.X)
			}
		case *ast.RangeStmt:
			if x.Tok == token.ASSIGN {
				if x.Key != nil {
					add(x.Key)
				}
				if x.Value != nil {
					add(x.Value)
				}
			}
		case *ast.ExprStmt:
			if call, ok := x.X.(*ast.CallExpr); ok && len(call.Args) > 0 {
				if id, ok := call.Fun.(*ast.Ident); ok && id.Name == "copy" {
					add(call.Args[0])
				}
				if m, ok := t.bigEndianMethod(call.Fun); ok && strings.HasPrefix(m, "Put") {
					add(call.Args[0])
				}
			}
		case *ast.CallExpr:
			if id, ok := x.Fun.(*ast.Ident); ok && t.genYield != nil && t.info.Uses[id] == t.genYield {
				add(id)
			}
			if tgt, m, _, ok := t.atomicCall(x); ok && (m == "Add" || m == "Store" || m == "CompareAndSwap") {
				add(tgt)
			}
			if tgt, m, ok := t.atomicPtrCall(x); ok && m == "Store" {
				add(tgt)
			}
			if sx, _, f := t.extFieldOf(x.Fun); f != nil && f.ext == "call" {
				add(sx.X)
			}
			if sf, ok := x.Fun.(*ast.SelectorExpr); ok {
				if fn, kind, _ := t.extMethodOf(sf); fn != nil && kind == "call" {
					add(sf.X)
				}
			}
			if sel, ok := x.Fun.(*ast.SelectorExpr); ok { // call of a receiver-mutating method
				if s := t.info.Selections[sel]; s != nil && s.Kind() == types.MethodVal {
					if m, ok := s.Obj().(*types.Func); ok {
						if fi := t.g.fns[m]; fi != nil && fi.mut {
							add(sel.X)
						}
					}
				}
			}
		case *ast.FuncLit:
			return false
		}
		return true
	})
	for _, e := range exclude {
		delete(set, e)
	}
	out := []types.Object{}
	for o := range set {
		out = append(out, o)
	}
	sort.Slice(out, func(i, j int) bool { return out[i].Pos() < out[j].Pos() })
	return out
}

func tuple(vars []types.Object) (pat, val string) {
	if len(vars) == 0 {
		return "_", "tt"
	}
	names := []string{}
	for _, v := range vars {
		names = append(names, ident(v.Name()))
	}
	if len(names) == 1 {
		return names[0], names[0]
	}
	s := "(" + strings.Join(names, ", ") + ")"
	return s, s
}

func funPat(p string) string {
	if strings.HasPrefix(p, "(") {
		return "'" + p
	}
	return p
}

// assign rebinds the root variable of the l-value so that it holds val at that path.
func (t *tr2) assign(lhs ast.Expr, val string, bs *[]bind) {
	switch x := lhs.(type) {
	case *ast.ParenExpr:
		t.assign(x.X, val, bs)
	case *ast.Ident:
		if x.Name == "_" {
			return
		}
		o := t.info.Uses[x]
		if o == nil {
			o = t.info.Defs[x]
		}
		if v, ok := o.(*types.Var); !ok || (v.Pkg() != nil && v.Parent() == v.Pkg().Scope()) {
			t.fail(x, "assignment to %s, which is not a local variable", x.Name)
			return
		}
		*bs = append(*bs, bind{let: true, pat: ident(x.Name), rhs: val})
	case *ast.IndexExpr:
		bt := t.info.TypeOf(x.X)
		if isBoolList(bt) && isSlice(bt) {
			t.checkWritable(x.X)
			base := t.expr(x.X, bs)
			idx := t.expr(x.Index, bs)
			tmp := t.freshTmp()
			*bs = append(*bs, bind{pat: tmp, rhs: "(go_set_g " + base + " " + idx + " " + val + ")"})
			t.assign(x.X, tmp, bs)
			return
		}
		if !isBytes(bt) {
			t.fail(x, "element assignment on unsupported type %s", bt)
			return
		}
		t.checkWritable(x.X)
		base := t.expr(x.X, bs)
		idx := t.expr(x.Index, bs)
		if _, arr := isArray(bt); arr {
			if _, c := constIntOf(t.info, x.Index); c {
				t.assign(x.X, "(arr_set "+base+" "+idx+" "+val+")", bs)
				return
			}
		}
		tmp := t.freshTmp()
		*bs = append(*bs, bind{pat: tmp, rhs: "(go_set " + base + " " + idx + " " + val + ")"})
		t.assign(x.X, tmp, bs)
	case *ast.SelectorExpr:
		sel := t.info.Selections[x]
		xt := t.info.TypeOf(x.X)
		nn, _, ok := namedStruct(xt)
		viaPtr := false
		if !ok {
			// p.f = v through a pointer: only when p is a local created by &T{...} and never copied
			if pn, isP := ptrStruct(xt); isP {
				if id, isId := x.X.(*ast.Ident); isId && (t.fresh[t.info.Uses[id]] || (t.mutRecv != nil && t.info.Uses[id] == t.mutRecv)) {
					nn, ok, viaPtr = pn, true, true
				}
			}
		}
		if sel == nil || sel.Kind() != types.FieldVal || len(sel.Index()) != 1 || !ok || !t.typeOK(nn) {
			t.fail(x, "field assignment outside the subset (writes through pointers are rejected unless the pointer is a local created by &T{...} and never copied)")
			return
		}
		r := t.record(nn)
		f := r.fields[sel.Index()[0]]
		if !f.ok {
			t.fail(x, "field %s.%s has a type outside the subset", r.name, f.goName)
			return
		}
		base := t.expr(x.X, bs)
		if viaPtr {
			tmp := t.freshTmp()
			*bs = append(*bs, bind{pat: tmp, rhs: "(go_deref " + base + ")"})
			t.assign(x.X, "(Some ("+t.q(r.mod, "set_"+f.coq)+" "+tmp+" "+val+"))", bs)
			return
		}
		t.assign(x.X, "("+t.q(r.mod, "set_"+f.coq)+" "+base+" "+val+")", bs)
	default:
		t.fail(lhs, "unsupported assignment target %T", lhs)
	}
}

// checkWritable: element writes are allowed into arrays (values) and into slices made in this
// function that were never copied to another variable.
func (t *tr2) checkWritable(e ast.Expr) {
	ty := t.info.TypeOf(e)
	if _, arr := isArray(ty); arr {
		// an array reached through a pointer would be a write through the pointer
		for cur := e; ; {
			switch x := cur.(type) {
			case *ast.ParenExpr:
				cur = x.X
				continue
			case *ast.SelectorExpr:
				if _, isP := t.info.TypeOf(x.X).Underlying().(*types.Pointer); isP {
					if id, isId := x.X.(*ast.Ident); !isId || !(t.fresh[t.info.Uses[id]] || (t.mutRecv != nil && t.info.Uses[id] == t.mutRecv)) {
						t.fail(e, "write through a pointer unsupported (unless it is a local created by &T{...} and never copied)")
					}
				}
				cur = x.X
				continue
			case *ast.IndexExpr:
				cur = x.X
				continue
			}
			break
		}
		return
	}
	id, ok := e.(*ast.Ident)
	if !ok {
		t.fail(e, "write into a slice that is not a plain local variable")
		return
	}
	o := t.info.Uses[id]
	if o == nil || !t.fresh[o] {
		t.fail(e, "write into slice %s: only slices created by make in this function and never aliased may be written (slice parameters would leak the write to the caller)", id.Name)
		return
	}
	// copies of the slice are harmless when they are all made after this write has happened for
	// the last time: after the outermost loop that contains the write (or after the write itself)
	limit := e.End()
	if len(t.loops) > 0 {
		limit = t.loops[0].End()
	}
	for _, at := range t.aliasAt[o] {
		if at < limit {
			t.fail(e, "write into slice %s, which is copied to another variable or literal before the write (or inside the same loop)", id.Name)
			return
		}
	}
}

// dest splits a copy / PutUint destination into (base l-value, base value, lo, segment value).
func (t *tr2) dest(e ast.Expr, bs *[]bind) (lv ast.Expr, base, lo, seg string) {
	for {
		p, ok := e.(*ast.ParenExpr)
		if !ok {
			break
		}
		e = p.X
	}
	if s, ok := e.(*ast.SliceExpr); ok {
		t.checkWritable(s.X)
		seg, base, lo = t.slice(s, bs)
		return s.X, base, lo, seg
	}
	if !isBytes(t.info.TypeOf(e)) {
		t.fail(e, "destination of unsupported type")
		return e, "[]", "0", "[]"
	}
	t.checkWritable(e)
	v := t.expr(e, bs)
	return e, v, "0", v
}

func (t *tr2) exprStmt(x *ast.ExprStmt, c *fctx, rest func() string) string {
	call, ok := x.X.(*ast.CallExpr)
	if !ok {
		t.fail(x, "unsupported expression statement")
		return rest()
	}
	var bs []bind
	if id, ok := call.Fun.(*ast.Ident); ok {
		if _, isB := t.info.Uses[id].(*types.Builtin); isB {
			switch id.Name {
			case "copy":
				if len(call.Args) == 2 && isBytes(t.info.TypeOf(call.Args[1])) {
					lv, base, lo, seg := t.dest(call.Args[0], &bs)
					src := t.expr(call.Args[1], &bs)
					t.assign(lv, "(splice "+base+" "+lo+" (go_copy "+seg+" "+src+"))", &bs)
					return wrapBinds(bs, rest())
				}
			case "panic":
				for _, a := range call.Args {
					if _, ok := t.constString(a); !ok {
						ty := t.info.TypeOf(a)
						if _, isInt := intKind(ty); isInt || isErrorType(ty) || isBool(ty) {
							_ = t.expr(a, &bs)
						} else {
							t.fail(a, "panic operand outside the subset")
						}
					}
				}
				return wrapBinds(bs, "GPanic")
			}
			t.fail(x, "builtin %s as a statement outside the subset", id.Name)
			return rest()
		}
	}
	if m, ok := t.bigEndianMethod(call.Fun); ok && strings.HasPrefix(m, "Put") && len(call.Args) == 2 {
		lv, base, lo, seg := t.dest(call.Args[0], &bs)
		v := t.expr(call.Args[1], &bs)
		tmp := t.freshTmp()
		bs = append(bs, bind{pat: tmp, rhs: "(be_put " + itoa(beWidth[m]) + " " + seg + " " + v + ")"})
		t.assign(lv, "(splice "+base+" "+lo+" "+tmp+")", &bs)
		return wrapBinds(bs, rest())
	}
	// a call the models do not observe (logging): operands evaluated, call dropped
	var calleeId *ast.Ident
	switch f := call.Fun.(type) {
	case *ast.SelectorExpr:
		calleeId = f.Sel
	case *ast.Ident:
		calleeId = f
	}
	if calleeId != nil {
		if f, ok := t.info.Uses[calleeId].(*types.Func); ok && f.Pkg() != nil && ignoredCalls2[f.Pkg().Path()+"."+f.Name()] {
			for _, a := range call.Args {
				if _, isStr := t.constString(a); isStr {
					continue
				}
				if ac, isCall := a.(*ast.CallExpr); isCall {
					var aid *ast.Ident
					switch af := ac.Fun.(type) {
					case *ast.SelectorExpr:
						aid = af.Sel
					case *ast.Ident:
						aid = af
					}
					if aid != nil {
						if af, ok := t.info.Uses[aid].(*types.Func); ok && af.Pkg() != nil && ignoredCalls2[af.Pkg().Path()+"."+af.Name()] {
							continue // an operand computed by an ignored function is dropped with the call
						}
					}
				}
				at := t.info.TypeOf(a)
				if _, isInt := intKind(at); isInt || isBool(at) || isBytes(at) || isErrorType(at) {
					_ = t.expr(a, &bs)
				} else {
					t.fail(a, "operand of an ignored call has a type outside the subset: %s", at)
				}
			}
			return wrapBinds(bs, rest())
		}
	}
	// a call of a translated function whose results are dropped
	_ = t.call(call, &bs)
	return wrapBinds(bs, rest())
}

func itoa(i int) string { return strconv.Itoa(i) }

func (t *tr2) retStmt(r *ast.ReturnStmt, c *fctx) string {
	res := t.sig.Results()
	if len(r.Results) == 0 {
		if res.Len() == 0 {
			return c.ret("tt")
		}
		if t.genYield != nil { // inside a generator closure: the generation ends here
			return c.ret(t.genFin)
		}
		t.fail(r, "bare return unsupported")
		return "GPanic"
	}
	var bs []bind
	if fl, ok := r.Results[0].(*ast.FuncLit); ok && len(r.Results) == res.Len() {
		if _, isSeq := seqElem(res.At(0).Type()); isSeq {
			return t.generator(r, fl, c)
		}
	}
	if len(r.Results) == 1 && res.Len() > 1 {
		v := t.expr(r.Results[0], &bs) // return f(...)
		return wrapBinds(bs, c.ret(v))
	}
	parts := []string{}
	for i, e := range r.Results {
		// &local in a return: a snapshot of the local's value
		if u, ok := e.(*ast.UnaryExpr); ok && u.Op == token.AND {
			if id, ok := u.X.(*ast.Ident); ok {
				if _, _, isS := namedStruct(t.info.TypeOf(id)); isS {
					parts = append(parts, "(Some "+t.identExpr(id)+")")
					continue
				}
			}
		}
		parts = append(parts, t.exprAs(e, res.At(i).Type(), &bs))
	}
	v := parts[0]
	if len(parts) > 1 {
		v = "(" + strings.Join(parts, ", ") + ")"
	}
	return wrapBinds(bs, c.ret(v))
}

func (t *tr2) stmt(s ast.Stmt, c *fctx, rest func() string) string {
	switch x := s.(type) {
	case *ast.ReturnStmt:
		return t.retStmt(x, c)
	case *ast.BlockStmt:
		return t.stmts(x.List, c, rest)
	case *ast.EmptyStmt:
		return rest()
	case *ast.ExprStmt:
		if call, ok := t.yieldCall(x.X); ok {
			return t.yieldStmt(call, rest)
		}
		return t.exprStmt(x, c, rest)
	case *ast.BranchStmt:
		if x.Label != nil {
			t.fail(x, "labelled branch unsupported")
			return "GPanic"
		}
		switch x.Tok {
		case token.BREAK:
			if c.brkK != nil { // the innermost breakable construct is a switch: go on after it
				return c.brkK()
			}
			if c.brk != "" {
				return c.brk
			}
		case token.CONTINUE:
			if c.next != "" {
				return c.next
			}
		}
		t.fail(x, "%s outside a translated loop", x.Tok)
		return "GPanic"
	case *ast.IncDecStmt:
		k, ok := intKind(t.info.TypeOf(x.X))
		if !ok {
			t.fail(x, "++/-- on non-integer")
			return rest()
		}
		var bs []bind
		cur := t.expr(x.X, &bs)
		op := " + 1"
		if x.Tok == token.DEC {
			op = " - 1"
		}
		t.assign(x.X, wrap(k, "("+cur+op+")"), &bs)
		return wrapBinds(bs, rest())
	case *ast.AssignStmt:
		return t.assignStmt(x, c, rest)
	case *ast.DeclStmt:
		return t.declStmt(x, c, rest)
	case *ast.IfStmt:
		return t.ifStmt(x, c, rest)
	case *ast.SwitchStmt:
		return t.switchStmt(x, c, rest)
	case *ast.RangeStmt:
		return t.rangeStmt(x, c, rest)
	case *ast.ForStmt:
		return t.forStmt(x, c, rest)
	case *ast.SendStmt:
		// ch <- v outside a select: a blocking send; on a full channel it would block: GPanic
		var bs []bind
		if _, ok := chanElem(t.info.TypeOf(x.Chan)); !ok {
			t.fail(x, "send on a channel outside the subset (chan of integers, booleans or struct values)")
			return rest()
		}
		ch := t.expr(x.Chan, &bs)
		e, _ := chanElem(t.info.TypeOf(x.Chan))
		v := t.exprAs(x.Value, e, &bs)
		tmp := t.freshTmp()
		bs = append(bs, bind{pat: tmp, rhs: "(ch_send " + ch + " " + v + ")"})
		t.assign(x.Chan, tmp, &bs)
		return wrapBinds(bs, rest())
	case *ast.SelectStmt:
		return t.selectStmt(x, c, rest)
	}
	t.fail(s, "unsupported statement %T", s)
	return rest()
}

func (t *tr2) assignStmt(x *ast.AssignStmt, c *fctx, rest func() string) string {
	var bs []bind
	switch {
	case x.Tok == token.DEFINE || x.Tok == token.ASSIGN:
		if len(x.Lhs) == len(x.Rhs) {
			vals := []string{}
			for i, r := range x.Rhs {
				lt := t.info.TypeOf(x.Lhs[i])
				if id, ok := x.Lhs[i].(*ast.Ident); ok && id.Name == "_" || lt == nil {
					vals = append(vals, t.expr(r, &bs))
				} else {
					vals = append(vals, t.exprAs(r, lt, &bs))
				}
			}
			if len(vals) > 1 { // parallel assignment: all right-hand sides first
				for i := range vals {
					tmp := t.freshTmp()
					bs = append(bs, bind{let: true, pat: tmp, rhs: vals[i]})
					vals[i] = tmp
				}
			}
			for i, l := range x.Lhs {
				t.assign(l, vals[i], &bs)
			}
			return wrapBinds(bs, rest())
		}
		if ta, isTA := x.Rhs[0].(*ast.TypeAssertExpr); isTA && len(x.Rhs) == 1 && len(x.Lhs) == 2 && ta.Type != nil {
			// v, ok := x.(T) on a sum interface
			si := sumOf(t.info.TypeOf(ta.X))
			want := t.info.TypeOf(ta.Type)
			impl := implName(want)
			found := false
			if si != nil {
				for _, i := range si.impls {
					found = found || i == impl
				}
			}
			if !found {
				t.fail(x, "type assertion outside the subset (comma-ok assertion of a sum interface to a registered implementation)")
				return rest()
			}
			t.ctype(ta.X, t.info.TypeOf(ta.X))
			mod := t.g.mods[modPath+"/"+si.pkg]
			v := t.expr(ta.X, &bs)
			t1, t2 := t.freshTmp(), t.freshTmp()
			bs = append(bs, bind{let: true, pat: "'(" + t1 + ", " + t2 + ")",
				rhs: "(match " + v + " with | " + t.q(mod, sumCtor(si, impl)) + " v_ => (v_, true) | _ => (" + t.zero(x, want) + ", false) end)"})
			t.assign(x.Lhs[0], t1, &bs)
			t.assign(x.Lhs[1], t2, &bs)
			return wrapBinds(bs, rest())
		}
		if len(x.Rhs) == 1 {
			if _, ok := x.Rhs[0].(*ast.CallExpr); !ok {
				t.fail(x, "tuple assignment from something that is not a call")
				return rest()
			}
			v := t.expr(x.Rhs[0], &bs)
			tmps := []string{}
			for range x.Lhs {
				tmps = append(tmps, t.freshTmp())
			}
			bs = append(bs, bind{let: true, pat: "'(" + strings.Join(tmps, ", ") + ")", rhs: v})
			for i, l := range x.Lhs {
				t.assign(l, tmps[i], &bs)
			}
			return wrapBinds(bs, rest())
		}
	default: // op=
		if len(x.Lhs) == 1 && len(x.Rhs) == 1 {
			op := map[token.Token]token.Token{token.ADD_ASSIGN: token.ADD, token.SUB_ASSIGN: token.SUB, token.MUL_ASSIGN: token.MUL,
				token.QUO_ASSIGN: token.QUO, token.REM_ASSIGN: token.REM, token.AND_ASSIGN: token.AND, token.OR_ASSIGN: token.OR,
				token.XOR_ASSIGN: token.XOR, token.SHL_ASSIGN: token.SHL, token.SHR_ASSIGN: token.SHR, token.AND_NOT_ASSIGN: token.AND_NOT}[x.Tok]
			k, ok := intKind(t.info.TypeOf(x.Lhs[0]))
			if op == token.ILLEGAL || !ok {
				t.fail(x, "unsupported compound assignment %s", x.Tok)
				return rest()
			}
			if op == token.SHL || op == token.SHR {
				if ck, ok := intKind(t.info.TypeOf(x.Rhs[0])); ok && ck.signed {
					if _, cc := constIntOf(t.info, x.Rhs[0]); !cc {
						t.fail(x, "shift by a signed non-constant count unsupported")
					}
				}
			}
			cur := t.expr(x.Lhs[0], &bs)
			b := t.expr(x.Rhs[0], &bs)
			cv, cc := constIntOf(t.info, x.Rhs[0])
			v := t.arith(x, op, cur, b, k, cc && cv != 0, &bs)
			t.assign(x.Lhs[0], v, &bs)
			return wrapBinds(bs, rest())
		}
	}
	t.fail(x, "unsupported assignment form")
	return rest()
}

func (t *tr2) declStmt(x *ast.DeclStmt, c *fctx, rest func() string) string {
	gd, ok := x.Decl.(*ast.GenDecl)
	if !ok {
		t.fail(x, "unsupported declaration")
		return rest()
	}
	switch gd.Tok {
	case token.CONST:
		return rest()
	case token.VAR:
		var bs []bind
		for _, sp := range gd.Specs {
			vs := sp.(*ast.ValueSpec)
			if len(vs.Values) != 0 && len(vs.Values) != len(vs.Names) {
				t.fail(vs, "var with a tuple initialiser unsupported")
				continue
			}
			for j, name := range vs.Names {
				ty := t.info.TypeOf(name)
				if name.Name == "_" {
					if j < len(vs.Values) {
						_ = t.expr(vs.Values[j], &bs)
					}
					continue
				}
				if !t.typeOK(ty) {
					t.fail(vs, "var of unsupported type %s", ty)
					continue
				}
				var val string
				if j < len(vs.Values) {
					val = t.exprAs(vs.Values[j], ty, &bs)
				} else {
					val = t.zero(vs, ty)
				}
				bs = append(bs, bind{let: true, pat: ident(name.Name), rhs: val})
			}
		}
		return wrapBinds(bs, rest())
	}
	t.fail(x, "unsupported declaration")
	return rest()
}

func (t *tr2) ifStmt(x *ast.IfStmt, c *fctx, rest func() string) string {
	if x.Init != nil {
		return t.stmt(x.Init, c, func() string {
			y := *x
			y.Init = nil
			return t.ifStmt(&y, c, rest)
		})
	}
	if u, ok := x.Cond.(*ast.UnaryExpr); ok && u.Op == token.NOT && x.Else == nil && len(x.Body.List) == 1 {
		if call, isY := t.yieldCall(u.X); isY {
			if rs, isR := x.Body.List[0].(*ast.ReturnStmt); isR && len(rs.Results) == 0 {
				return t.yieldStmt(call, rest) // the consumer drains the sequence: yield answers true
			}
		}
	}
	var cb []bind
	cond := t.expr(x.Cond, &cb)
	if !escapes(x.Body) && !escapes(x.Else) {
		// join form: both branches fall through; export the variables they assign
		nodes := []ast.Node{x.Body}
		if x.Else != nil {
			nodes = append(nodes, x.Else)
		}
		set := map[types.Object]bool{}
		vars := []types.Object{}
		for _, n := range nodes {
			for _, o := range t.assignedOutside(n) {
				if !set[o] && !(o.Pos() >= x.Pos() && o.Pos() < x.End()) {
					set[o] = true
					vars = append(vars, o)
				}
			}
		}
		sort.Slice(vars, func(i, j int) bool { return vars[i].Pos() < vars[j].Pos() })
		pat, val := tuple(vars)
		end := func() string { return "(GOk " + val + ")" }
		thenE := t.stmts(x.Body.List, c, end)
		elseE := end()
		if x.Else != nil {
			elseE = t.stmt(x.Else, c, end)
		}
		return wrapBinds(cb, "(gbind (if "+cond+"\n then "+thenE+"\n else "+elseE+") (fun "+funPat(pat)+" =>\n "+rest()+"))")
	}
	thenE := t.stmts(x.Body.List, c, rest)
	elseE := ""
	if x.Else != nil {
		elseE = t.stmt(x.Else, c, rest)
	} else {
		elseE = rest()
	}
	return wrapBinds(cb, "(if "+cond+"\n then "+thenE+"\n else "+elseE+")")
}

func (t *tr2) switchStmt(x *ast.SwitchStmt, c *fctx, rest func() string) string {
	if x.Init != nil {
		return t.stmt(x.Init, c, func() string {
			y := *x
			y.Init = nil
			return t.switchStmt(&y, c, rest)
		})
	}
	var pre []bind
	tag := ""
	if x.Tag != nil {
		tag = t.freshTmp()
		pre = append(pre, bind{let: true, pat: tag, rhs: t.expr(x.Tag, &pre)})
	}
	join := !escapesIn(x.Body, true)
	var pat, val string
	end := rest
	if join {
		pat, val = tuple(t.assignedOutside(x.Body))
		end = func() string { return "(GOk " + val + ")" }
	}
	// break inside this switch = go on with what follows it
	sc := *c
	sc.brkK = end
	c = &sc
	var deflt *ast.CaseClause
	type arm struct{ cond, body string }
	arms := []arm{}
	for _, cl := range x.Body.List {
		cc := cl.(*ast.CaseClause)
		for _, bsn := range cc.Body {
			if br, ok := bsn.(*ast.BranchStmt); ok && br.Tok == token.FALLTHROUGH {
				t.fail(br, "fallthrough unsupported")
			}
		}
		if cc.List == nil {
			deflt = cc
			continue
		}
		conds := []string{}
		for _, e := range cc.List {
			var eb []bind
			v := t.expr(e, &eb)
			if len(eb) > 0 {
				t.fail(e, "case expression with a partial operation unsupported")
			}
			if x.Tag == nil {
				conds = append(conds, v)
			} else if tt := t.info.TypeOf(x.Tag); isBool(tt) {
				conds = append(conds, "(Bool.eqb "+tag+" "+v+")")
			} else if _, ok := intKind(tt); ok {
				conds = append(conds, "(Z.eqb "+tag+" "+v+")")
			} else {
				t.fail(x, "switch on unsupported type %s", tt)
			}
		}
		if len(conds) == 0 {
			continue
		}
		cond := conds[0]
		for _, c2 := range conds[1:] {
			cond = "(orb " + cond + " " + c2 + ")"
		}
		arms = append(arms, arm{cond, t.stmts(cc.Body, c, end)})
	}
	out := ""
	if deflt != nil {
		out = t.stmts(deflt.Body, c, end)
	} else {
		out = end()
	}
	for i := len(arms) - 1; i >= 0; i-- {
		out = "(if " + arms[i].cond + "\n then " + arms[i].body + "\n else " + out + ")"
	}
	if join {
		out = "(gbind " + out + " (fun " + funPat(pat) + " =>\n " + rest() + "))"
	}
	return wrapBinds(pre, out)
}

func (t *tr2) loopCtx(c *fctx, val string) *fctx {
	return &fctx{rty: c.rty, ret: func(v string) string { return "(GOk (LRet " + v + "))" },
		next: "(GOk (LNext " + val + "))", brk: "(GOk (LBreak " + val + "))"}
}

func (t *tr2) rangeStmt(x *ast.RangeStmt, c *fctx, rest func() string) string {
	if x.Tok == token.ASSIGN {
		t.fail(x, "range with = (assignment to existing variables) unsupported")
		return rest()
	}
	name := func(e ast.Expr) (string, types.Object) {
		if e == nil {
			return "_", nil
		}
		id, ok := e.(*ast.Ident)
		if !ok {
			t.fail(e, "range variable is not an identifier")
			return "_", nil
		}
		if id.Name == "_" {
			return "_", nil
		}
		return ident(id.Name), t.info.Defs[id]
	}
	k, ko := name(x.Key)
	v, vo := name(x.Value)
	var xb []bind
	xt := t.info.TypeOf(x.X)
	xs := t.expr(x.X, &xb)
	vars := t.assignedOutside(x.Body, ko, vo)
	if isSlice(xt) {
		// Go reads the elements of a ranged SLICE live: a write to it in the body would be seen by
		// later iterations (an array is ranged over a copy)
		if rid := rootIdent(x.X); rid != nil {
			for _, o := range vars {
				if o == t.info.Uses[rid] {
					t.fail(x, "the ranged slice %s is assigned in the loop body", rid.Name)
				}
			}
		}
	}
	pat, val := tuple(vars)
	lc := t.loopCtx(c, val)
	t.loops = append(t.loops, x)
	body := t.stmts(x.Body.List, lc, func() string { return lc.next })
	t.loops = t.loops[:len(t.loops)-1]
	var loop string
	switch {
	case isString(xt):
		t.fail(x, "range over a string yields runes (UTF-8 decoding): unsupported; index its bytes instead")
		return rest()
	case func() bool { _, ok := seqElem(xt); return ok }():
		if escapes(x.Body) {
			t.fail(x, "a range over an iter.Seq must drain it: break / return / continue in its body unsupported")
			return rest()
		}
		if x.Value != nil {
			t.fail(x, "range over an iter.Seq has one variable")
			return rest()
		}
		en, _ := seqElem(xt)
		r := t.record(en)
		loop = "(range_loop (R:=" + c.rty + ") (fun (_ : Z) (" + k + " : " + t.q(r.mod, r.name) + ") " + funPat(pat) + " =>\n " + body + ") 0 " + xs + " " + val + ")"
	case isBytes(xt), isBoolList(xt), func() bool { _, ok := t.isStructList(xt); return ok }():
		ety := "Z"
		if isBoolList(xt) {
			ety = "bool"
		}
		if nn, ok := t.isStructList(xt); ok {
			r := t.record(nn)
			ety = t.q(r.mod, r.name)
		}
		loop = "(range_loop (R:=" + c.rty + ") (fun (" + k + " : Z) (" + v + " : " + ety + ") " + funPat(pat) + " =>\n " + body + ") 0 " + xs + " " + val + ")"
	default:
		if _, ok := intKind(xt); ok && x.Value == nil { // for i := range n
			loop = "(count_loop (R:=" + c.rty + ") (fun " + k + " " + funPat(pat) + " =>\n " + body + ") 0 " + xs + " " + val + ")"
		} else {
			t.fail(x, "range over unsupported type %s", xt)
			return rest()
		}
	}
	return wrapBinds(xb, "(loop_k "+loop+"\n (fun "+funPat(pat)+" =>\n "+rest()+")\n (fun r_ => "+c.ret("r_")+"))")
}

// forStmt: only `for i := lo; i < hi; i++ { body }` where neither i nor any variable of hi is
// assigned in the body and hi has no partial operation.
func (t *tr2) forStmt(x *ast.ForStmt, c *fctx, rest func() string) string {
	bad := func(why string) string {
		t.fail(x, "for loop outside the subset (%s); supported: for i := lo; i < hi; i++ with i and hi unchanged in the body, and range loops", why)
		return rest()
	}
	stride := int64(1)
	init, ok := x.Init.(*ast.AssignStmt)
	if !ok || init.Tok != token.DEFINE || len(init.Lhs) != 1 || len(init.Rhs) != 1 {
		return bad("init")
	}
	iv, ok := init.Lhs[0].(*ast.Ident)
	if !ok {
		return bad("init")
	}
	io := t.info.Defs[iv]
	cond, ok := x.Cond.(*ast.BinaryExpr)
	if !ok || cond.Op != token.LSS {
		return bad("condition is not i < hi")
	}
	if ci, ok := cond.X.(*ast.Ident); !ok || t.info.Uses[ci] != io {
		return bad("condition is not i < hi")
	}
	switch p := x.Post.(type) {
	case *ast.IncDecStmt:
		if pi, ok := p.X.(*ast.Ident); !ok || t.info.Uses[pi] != io || p.Tok != token.INC {
			return bad("post is not i++")
		}
	case *ast.AssignStmt:
		one := false
		if len(p.Rhs) == 1 {
			cv, cc := constIntOf(t.info, p.Rhs[0])
			one = cc && cv == 1
			if cc && cv > 1 {
				stride = cv
				one = true
			}
		}
		if pi, ok := p.Lhs[0].(*ast.Ident); !ok || len(p.Lhs) != 1 || t.info.Uses[pi] != io || p.Tok != token.ADD_ASSIGN || !one {
			return bad("post is not i += k for a positive constant k")
		}
	default:
		return bad("post")
	}
	assigned := map[types.Object]bool{}
	for _, o := range t.assignedOutside(x.Body) {
		assigned[o] = true
	}
	if assigned[io] {
		return bad("the loop variable is assigned in the body")
	}
	hiBad := false
	ast.Inspect(cond.Y, func(n ast.Node) bool {
		if id, ok := n.(*ast.Ident); ok && assigned[t.info.Uses[id]] {
			hiBad = true
		}
		return true
	})
	if hiBad {
		return bad("the bound is assigned in the body")
	}
	var pre []bind
	lo := t.expr(init.Rhs[0], &pre)
	var hb []bind
	hi := t.expr(cond.Y, &hb)
	if len(hb) > 0 {
		return bad("the bound has a partial operation")
	}
	vars := t.assignedOutside(x.Body, io)
	pat, val := tuple(vars)
	lc := t.loopCtx(c, val)
	t.loops = append(t.loops, x)
	body := t.stmts(x.Body.List, lc, func() string { return lc.next })
	t.loops = t.loops[:len(t.loops)-1]
	if stride > 1 {
		// for i := lo; i < hi; i += k: iteration j (j = 0 ..) runs with i = lo + j*k while that is
		// below hi. Go's i += k must not overflow before the test: hi <= MaxInt64 - k is required
		// (GPanic otherwise: stricter than Go, like the capacity rule).
		k := strconv.FormatInt(stride, 10)
		loop := "(stride_loop (R:=" + c.rty + ") (fun " + ident(iv.Name) + " " + funPat(pat) + " =>\n " + body + ") " + lo + " " + hi + " " + k + " " + val + ")"
		return wrapBinds(pre, "(loop_k "+loop+"\n (fun "+funPat(pat)+" =>\n "+rest()+")\n (fun r_ => "+c.ret("r_")+"))")
	}
	loop := "(count_loop (R:=" + c.rty + ") (fun " + ident(iv.Name) + " " + funPat(pat) + " =>\n " + body + ") " + lo + " " + hi + " " + val + ")"
	return wrapBinds(pre, "(loop_k "+loop+"\n (fun "+funPat(pat)+" =>\n "+rest()+")\n (fun r_ => "+c.ret("r_")+"))")
}

// openChanRecv: `<-x.f` (result unused) on a channel field registered with registerOpenChan2.
func (t *tr2) openChanRecv(s ast.Stmt) bool {
	es, ok := s.(*ast.ExprStmt)
	if !ok {
		return false
	}
	u, ok := es.X.(*ast.UnaryExpr)
	if !ok || u.Op != token.ARROW {
		return false
	}
	sel, ok := u.X.(*ast.SelectorExpr)
	if !ok {
		return false
	}
	xt := t.info.TypeOf(sel.X)
	nn, _, isS := namedStruct(xt)
	if !isS {
		if pn, isP := ptrStruct(xt); isP {
			nn, isS = pn, true
		}
	}
	return isS && nn.Obj().Pkg() != nil && openChans2[nn.Obj().Pkg().Path()+"."+nn.Obj().Name()+"."+sel.Sel.Name]
}

// selectStmt: select over ONE live communication (receive cases on registered open channels are
// never ready and dropped):
//
//	select { case ch <- v: A  default: B }   non-blocking send: room ? (push; A) : B
//	select { case <-ch: A     default: B }   non-blocking receive, value discarded
//	select { case ch <- v: A }               blocking send (GPanic when full), then A
//
// The channel and the value are evaluated once, on entry (as Go does).
func (t *tr2) selectStmt(x *ast.SelectStmt, c *fctx, rest func() string) string {
	var comm, deflt *ast.CommClause
	for _, cl := range x.Body.List {
		cc := cl.(*ast.CommClause)
		if cc.Comm == nil {
			deflt = cc
			continue
		}
		if t.openChanRecv(cc.Comm) {
			if len(cc.Body) != 0 {
				t.fail(cc, "a receive case on an open signalling channel must have an empty body")
			}
			continue
		}
		if comm != nil {
			t.fail(x, "select over more than one live communication unsupported")
			return rest()
		}
		comm = cc
	}
	if comm == nil {
		t.fail(x, "select without a send / receive case unsupported")
		return rest()
	}
	join := !escapesIn(x.Body, true)
	var pat, val string
	end := rest
	if join {
		pat, val = tuple(t.assignedOutside(x.Body))
		end = func() string { return "(GOk " + val + ")" }
	}
	sc := *c
	sc.brkK = end // break inside a select continues after it
	c = &sc
	finish := func(body string) string {
		if join {
			return "(gbind " + body + " (fun " + funPat(pat) + " =>\n " + rest() + "))"
		}
		return body
	}
	var pre []bind
	switch cm := comm.Comm.(type) {
	case *ast.SendStmt:
		e, ok := chanElem(t.info.TypeOf(cm.Chan))
		if !ok {
			t.fail(cm, "send on a channel outside the subset (chan of integers, booleans or struct values)")
			return rest()
		}
		ch := t.expr(cm.Chan, &pre)
		v := t.exprAs(cm.Value, e, &pre)
		if deflt == nil {
			tmp := t.freshTmp()
			var tb []bind
			tb = append(tb, bind{pat: tmp, rhs: "(ch_send " + ch + " " + v + ")"})
			t.assign(cm.Chan, tmp, &tb)
			return wrapBinds(pre, finish(wrapBinds(tb, t.stmts(comm.Body, c, end))))
		}
		var tb []bind
		t.assign(cm.Chan, "(ch_push "+ch+" "+v+")", &tb)
		thenE := wrapBinds(tb, t.stmts(comm.Body, c, end))
		elseE := t.stmts(deflt.Body, c, end)
		return wrapBinds(pre, finish("(if (ch_room "+ch+")\n then "+thenE+"\n else "+elseE+")"))
	case *ast.ExprStmt:
		u, ok := cm.X.(*ast.UnaryExpr)
		if !ok || u.Op != token.ARROW {
			break
		}
		if _, ok := chanElem(t.info.TypeOf(u.X)); !ok || deflt == nil {
			t.fail(cm, "receive case outside the subset (non-blocking receive with the value discarded)")
			return rest()
		}
		ch := t.expr(u.X, &pre)
		var tb []bind
		t.assign(u.X, "(ch_pop "+ch+")", &tb)
		thenE := wrapBinds(tb, t.stmts(comm.Body, c, end))
		elseE := t.stmts(deflt.Body, c, end)
		return wrapBinds(pre, finish("(if (ch_nonempty "+ch+")\n then "+thenE+"\n else "+elseE+")"))
	}
	t.fail(comm, "select case outside the subset")
	return rest()
}

// generator: `return func(yield func(T) bool) { ... }, rest...` with result type iter.Seq[T]. The
// closure body is translated in place with the yield parameter standing for the list yielded so
// far: yield(v) appends v; `if !yield(v) { return }` appends v and goes on (the consumer drains
// the sequence: checked at every range over a Seq); a bare return ends the generation.
func (t *tr2) generator(r *ast.ReturnStmt, fl *ast.FuncLit, c *fctx) string {
	res := t.sig.Results()
	if t.genYield != nil || len(t.loops) > 0 || fl.Type.Params == nil || len(fl.Type.Params.List) != 1 || len(fl.Type.Params.List[0].Names) != 1 {
		t.fail(fl, "generator closure outside the subset")
		return "GPanic"
	}
	yid := fl.Type.Params.List[0].Names[0]
	yo := t.info.Defs[yid]
	var bs []bind
	others := []string{}
	for i := 1; i < len(r.Results); i++ {
		others = append(others, t.exprAs(r.Results[i], res.At(i).Type(), &bs))
	}
	if len(bs) > 0 {
		t.fail(r, "results returned next to a generator must be plain values")
	}
	acc := ident(yid.Name)
	fin := acc
	if len(others) > 0 {
		fin = "(" + acc + ", " + strings.Join(others, ", ") + ")"
	}
	gc := &fctx{rty: c.rty, ret: c.ret}
	t.genYield, t.genFin = yo, fin
	body := t.stmts(fl.Body.List, gc, func() string { return c.ret(fin) })
	t.genYield, t.genFin = nil, ""
	return "(let " + acc + " := [] in\n " + body + ")"
}

// yieldCall: yield(v) inside a generator closure.
func (t *tr2) yieldCall(e ast.Expr) (*ast.CallExpr, bool) {
	call, ok := e.(*ast.CallExpr)
	if !ok || t.genYield == nil || len(call.Args) != 1 {
		return nil, false
	}
	id, ok := call.Fun.(*ast.Ident)
	if !ok || t.info.Uses[id] != t.genYield {
		return nil, false
	}
	return call, true
}

func (t *tr2) yieldStmt(call *ast.CallExpr, rest func() string) string {
	var bs []bind
	sig := t.genYield.Type().(*types.Signature)
	v := t.exprAs(call.Args[0], sig.Params().At(0).Type(), &bs)
	acc := ident(t.genYield.Name())
	bs = append(bs, bind{let: true, pat: acc, rhs: "(" + acc + " ++ [" + v + "])"})
	return wrapBinds(bs, rest())
}
