package main

// v2 targets, HSMS System Bytes generator (C06/C08): sysBytesGen.next = counter + 1 modulo 2^32,
// big-endian. The counter is a sync/atomic.Uint32: the translation is state-passing (the method
// returns its updated receiver) and sequential - it ties the ARITHMETIC (wrap at 2^32, byte order)
// to next_sys of coq/theories/Hsms/Responder.v; atomicity under concurrency is not what it shows.
func init() {
	register2("hsms", []string{"sysBytesGen.next"})
}
