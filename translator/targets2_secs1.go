package main

// v2 targets, SECS-I block layer (C17): header packing, wire form with the 16-bit checksum, block
// parsing. Bridged to coq/theories/Secs1/Block.v in coq/theories/Gen/Bridge2Secs1.v.
// wire.Chunk (a struct around one []byte) is translated too, so nothing about it is assumed.
func init() {
	register2("internal/wire", []string{"Chunk.Len", "Chunk.AppendTo", "ChunkOf"})
	register2("secs1", []string{"buildHeader", "block.appendTo", "parseBlock"})
}
