package main

// v2 targets, SECS-II leaf encoders (C01): AppendTo of the Binary / Boolean / ASCII / JIS8 /
// LocalizedStr / Int / Uint items (header + big-endian payload, scalar fast path and slice path,
// raw-bytes path of decoded items, deferred-error path). Bridged to append_to of
// coq/theories/Secs2/Encode.v in coq/theories/Gen/Bridge2Secs2Leaves.v.
// FloatItem.AppendTo is NOT here: it narrows float64 to float32 (float32(v)), which needs an IEEE
// rounding model the framework does not have on the translated side.
func init() {
	register2("secs2", []string{
		"baseItem.raw",
		"BinaryItem.AppendTo", "BooleanItem.AppendTo", "ASCIIItem.AppendTo", "JIS8Item.AppendTo",
		"LocalizedStrItem.AppendTo",
		"IntItem.formatCode", "IntItem.AppendTo", "UintItem.formatCode", "UintItem.AppendTo",
	})
}
