package main

// v2 targets, HSMS header packing and framing (C03/C06): the functions that write the ten header
// bytes and the 4-byte length prefix, the header accessors, the control-message factories, the
// System Bytes conversions and the reply discriminator. Bridged to coq/theories/Hsms/Header.v and
// Frame.v in coq/theories/Gen/Bridge2Frames.v.
//
// wire.Body is an interface (two implementations, one of them lazily encoding an item tree): it is
// modelled as its encoded bytes (Len() = their count, AppendTo(dst) = dst ++ bytes), exactly the
// abstraction Hsms/Header.v makes ("the SECS-II body is abstract: its encoded bytes"). That
// Len() equals the number of bytes AppendTo appends is property C01/C12 territory, not assumed
// by any lemma other than the two about DataMessage.ToBytes.
func init() {
	registerAbstractBytes2("internal/wire", "Body")
	// AdoptBody(b) is the Body holding exactly b; discharged for its implementation rawFrameBody by
	// translating rawFrameBody.Len / AppendTo (lemmas bridge_rawFrameBody_* in Bridge2Frames.v).
	registerAbstractCtor2("internal/wire", "AdoptBody")
	register2("internal/wire", []string{"rawFrameBody.Len", "rawFrameBody.AppendTo"})
	// hsms.Message is implemented by *DataMessage and *ControlMessage only (plus test doubles).
	registerSum2("hsms", "Message", []string{"*DataMessage", "*ControlMessage"})
	register2("hsms", []string{
		"IsValidSType", "ToSystemBytes", "FromSystemBytes",
		"ControlMessage.Type", "ControlMessage.SessionID", "ControlMessage.SystemBytes", "ControlMessage.HeaderBytes",
		"ControlMessage.ToBytes", "ControlMessage.WaitBit", "ControlMessage.ID",
		"ControlMessage.WithSessionID", "ControlMessage.WithSystemBytes",
		"NewSelectReq", "NewSelectRsp", "NewDeselectReq", "NewDeselectRsp", "NewLinktestReq", "NewLinktestRsp",
		"NewSeparateReq", "NewRejectReqRaw",
		"DataMessage.SessionID", "DataMessage.SystemBytes", "DataMessage.HeaderBytes", "DataMessage.ToBytes",
		"DataMessage.Stream", "DataMessage.Function", "DataMessage.WaitBit", "DataMessage.ID",
		"DataMessage.WithSessionID", "DataMessage.WithSystemBytes", "DataMessage.WithID",
		"isSecondaryReply",
		"DataMessage.Type",
		"newRawFrameDataMessage", "decodeOwnedFrame", "DecodeHSMSMessage", "DecodeHSMSPayload", "DecodeOwnedHSMSPayload",
		"NewRejectReq", "GetRejectReasonCode", "ControlMessage.RejectReasonCode",
	})
}
