package main

// v2 targets, the E37 connection-state supervisor (hsms/supervisor.go; C05, used by C07/C08/C10):
// the transition table, the three synchronous commits, inject / requestClose and the supervisor
// goroutine's step with fireTransition / emit, in state-passing form. Bridged to
// coq/theories/Hsms/Supervisor.v in coq/theories/Gen/Bridge2Supervisor.v, one ATOMIC STEP of the
// hand model per translated call (sync/atomic operations are single sequential steps).
//
//   - events / notify are buffered channels used as bounded FIFOs (gchan): a blocking send on a full
//     channel is GPanic ("would block": the callers of the bridge lemmas keep room);
//   - runDone is only ever closed by run() on exit: it is registered as an OPEN channel, i.e. the
//     translation covers the supervisor while run() is live, and `case <-s.runDone` is never ready;
//   - react and testHookAfterStateLoad are outgoing calls (logged with their arguments);
//   - the pinned epoch's teardown (and the close-timeout provider feeding it) is outside the hand
//     model: dropped as an ignored call.
func init() {
	registerExtField2("hsms", "supervisor.react", "call")
	registerExtField2("hsms", "supervisor.testHookAfterStateLoad", "call")
	registerOpenChan2("hsms", "supervisor.runDone")
	registerIgnoredCall2("hsms", "teardown")
	registerIgnoredCall2("hsms", "resolveCloseTimeout")
	register2("hsms", []string{
		"isCommitEcho", "transition", "supervisor.State", "supervisor.inject",
		"supervisor.CommitConnected", "supervisor.CommitSelected", "supervisor.CommitSelectLost",
		"supervisor.emit", "supervisor.fireTransition", "supervisor.step", "supervisor.requestClose",
	})
}
