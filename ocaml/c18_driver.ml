(* C18 correspondence driver.

   U lines (unit, virtual time): the event log of one real lineIO operation against the harness's
   peer is replayed in the extracted line model:
     U <realside> <limit> <peerlimit> <realtodo> <peertodo> ev ; ev ; ... | <result> handed=N yields=N sendok=N failed=N
     ev = S x (start) | W x KIND (x wrote) | L x FAULT (oldest write of x passes the line) | T x (T2 expiry)
   Every L must find the model's oldest written item of x to be what x wrote; every S/L/T must be
   an enabled step; the final state of the real end must match what the real code reported.

   M lines (e2e, real time): the extracted monitor on the logs of one direction:
     M <tok>:<0|1>,... | <tok>,...      (send results in call order | tokens delivered in order)  *)
let split_bar line =
  match String.index_opt line '|' with
  | None -> failwith "no bar"
  | Some i -> (String.sub line 0 i, String.sub line (i + 1) (String.length line - i - 1))

let rec nat_of_int i = if i <= 0 then O else S (nat_of_int (i - 1))
let rec int_of_nat n = match n with O -> 0 | S m -> 1 + int_of_nat m

let side_of s = match s with "A" -> A | "B" -> B | _ -> failwith "side"
let fault_of s = match s with "ok" -> Deliver | "drop" -> Drop | "garble" -> Garble | _ -> failwith "fault"
let kind_of_out o = match o with
  | OCh ENQ -> "ENQ" | OCh EOT -> "EOT" | OCh ACK -> "ACK" | OCh NAK -> "NAK" | OCh Noise -> "NOISE" | OBlk _ -> "BLK"

let todo_of s = if s = "-" then [] else
    List.map (fun t -> match String.split_on_char ':' t with
        | [tok; n] -> (nat_of_int (int_of_string tok), nat_of_int (int_of_string n))
        | _ -> (nat_of_int (int_of_string t), S O)) (String.split_on_char ',' s)

let check_u lhs rhs =
  match split_ws lhs with
  | "U" :: realside :: limit :: plimit :: rtodo :: ptodo :: rest ->
    let real = side_of realside in
    let (la, lb, ta, tb) =
      if real = A then (int_of_string limit, int_of_string plimit, todo_of rtodo, todo_of ptodo)
      else (int_of_string plimit, int_of_string limit, todo_of ptodo, todo_of rtodo) in
    let s = ref (sys0 (nat_of_int la) (nat_of_int lb) ta tb) in
    let pend_a = Queue.create () and pend_b = Queue.create () in
    let pend x = if x = A then pend_a else pend_b in
    let evs = List.filter (fun x -> x <> []) (List.map split_ws (String.split_on_char ';' (String.concat " " rest))) in
    let err = ref None in
    let fail i m = if !err = None then err := Some (Printf.sprintf "event %d: %s" i m) in
    let alive st = (get st A).e_ph <> Down && (get st B).e_ph <> Down in
    let peer = (match real with A -> B | B -> A) in
    let truncated = ref false in
    List.iteri (fun i ev ->
        if !err = None && not !truncated then
          if not (alive !s) then begin
            (* the model ends when an end gives up; the real line goes on physically *)
            if (get !s peer).e_ph = Down then truncated := true
            else match ev with
              | [_; x] | [_; x; _] when side_of x <> real -> ()   (* the peer's later moves are beyond the model *)
              | ["L"; x; _] when not (Queue.is_empty (pend (side_of x))) ->
                let sx = side_of x in
                let k = Queue.pop (pend sx) in
                (match (get !s sx).e_out with
                 | o :: rest when kind_of_out o = k ->
                   let e = get !s sx in
                   s := (if sx = A then { sa = { e with e_out = rest }; sb = !s.sb } else { sa = !s.sa; sb = { e with e_out = rest } })
                 | _ -> fail i "after the link went down: a write the model did not make")
              | ["W"; x; k] -> Queue.add k (pend (side_of x))
              | _ -> truncated := true
          end else
          match ev with
          | ["S"; x] -> (match step !s (LStart (side_of x)) with Some s' -> s := s' | None -> fail i "start not enabled in the model")
          | ["W"; x; k] -> Queue.add k (pend (side_of x))
          | ["L"; x; f] ->
            let sx = side_of x in
            (match (get !s sx).e_out with
             | [] -> fail i "the model has nothing in flight from this end"
             | o :: _ ->
               if Queue.is_empty (pend sx) then fail i "line event without a logged write"
               else begin
                 let k = Queue.pop (pend sx) in
                 if kind_of_out o <> k then fail i (Printf.sprintf "end %s wrote %s, the model wrote %s" x k (kind_of_out o))
                 else match step !s (LLine (sx, fault_of f)) with Some s' -> s := s' | None -> fail i "line step not enabled"
               end)
          | ["T"; x] -> (match step !s (LTimeout (side_of x)) with Some s' -> s := s' | None -> fail i "timeout not enabled in the model (line not quiet or end not waiting)")
          | _ -> fail i "unparsable event") evs;
    (match !err with
     | Some m -> Some m
     | None ->
       if !truncated || (get !s peer).e_ph = Down then None else
       let e = get !s real in
       (* what was written but has not passed the line must be what the model still holds *)
       let left x = List.of_seq (Queue.to_seq (pend x)) in
       if left real <> List.map kind_of_out (get !s real).e_out ||
          (alive !s && left peer <> List.map kind_of_out (get !s peer).e_out)
       then Some "writes still in flight differ from the model's"
       else begin
         let result = match e.e_ph with
           | Down -> "failed"
           | Idle -> if e.e_done <> [] then "ok" else "idle"
           | _ -> "busy" in
         (* blocks ACK'd = all blocks of the completed messages + the ACK'd blocks of the one in progress *)
         let blocks_of tok = List.fold_left (fun a (t, n) -> if t = tok then int_of_nat n else a) 0 (if real = A then ta else tb) in
         let acked = List.fold_left (fun a t -> a + blocks_of t) 0 e.e_done + int_of_nat e.e_k in
         let model = Printf.sprintf "%s handed=%d yields=%d sendok=%d failed=%d" result
             (int_of_nat e.e_handed) (int_of_nat e.e_yields) acked (if e.e_ph = Down then 1 else 0) in
         let obs = String.concat " " (split_ws rhs) in
         if model = obs then None else Some (Printf.sprintf "final state model=[%s] impl=[%s]" model obs)
       end)
  | _ -> Some "unparsable U line"

let check_m lhs rhs =
  match split_ws lhs with
  | ["M"; sent] ->
    let sent = if sent = "-" then [] else
        List.map (fun p -> match String.split_on_char ':' p with
            | [t; ok] -> (nat_of_int (int_of_string t), ok = "1")
            | _ -> failwith "sent") (String.split_on_char ',' sent) in
    let deliv = match split_ws rhs with
      | [] | ["-"] -> []
      | [d] -> List.map (fun t -> nat_of_int (int_of_string t)) (String.split_on_char ',' d)
      | _ -> failwith "deliv" in
    if ok_dir sent deliv then None else Some "monitor ok_dir rejects the logs of this direction"
  | _ -> Some "unparsable M line"

(* K lines: retry-limit wiring. The model end A (limit k) sends one single-block message to a peer that
   NAKs every block (its transmissions arrive garbled) or never grants the line (its ENQs are lost);
   count the ENQs and blocks A writes until it gives up. *)
let check_k lhs rhs =
  match split_ws lhs with
  | ["K"; scenario; k] ->
    let s = ref (sys0 (nat_of_int (int_of_string k)) O [(S O, S O)] []) in
    let enqs = ref 0 and blocks = ref 0 in
    let stepx l = match step !s l with Some s' -> s := s'; true | None -> false in
    ignore (stepx (LStart A));
    let fuel = ref 400 in
    while !fuel > 0 && (get !s A).e_ph <> Down && (get !s A).e_done = [] do
      decr fuel;
      (match (get !s A).e_out, (get !s B).e_out with
       | o :: _, _ ->
         (match o with OCh ENQ -> incr enqs | OBlk _ -> incr blocks | _ -> ());
         let f = (match o, scenario with
             | OCh ENQ, "never-grant" -> Drop
             | OBlk _, _ -> Garble
             | _ -> Deliver) in
         ignore (stepx (LLine (A, f)))
       | [], _ :: _ -> ignore (stepx (LLine (B, Deliver)))
       | [], [] -> if not (stepx (LTimeout A)) then ignore (stepx (LTimeout B)))
    done;
    let model = Printf.sprintf "%d %d %s" !enqs !blocks (if (get !s A).e_ph = Down then "1" else "0") in
    let obs = String.concat " " (split_ws rhs) in
    if model = obs then None else Some (Printf.sprintf "retry-limit wiring model=[%s] impl=[%s]" model obs)
  | _ -> Some "unparsable K line"

let check _ln line =
  let (lhs, rhs) = split_bar line in
  match split_ws lhs with
  | "U" :: _ -> check_u lhs rhs
  | "M" :: _ -> check_m lhs rhs
  | "K" :: _ -> check_k lhs rhs
  | _ -> Some "unparsable case line"

let () = run_cases Sys.argv.(1) check
