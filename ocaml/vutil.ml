(* Shared helpers for correspondence drivers. This file is textually appended after
   `open <Model>` so that [positive]/[z]/[n] and the modules [Z]/[N] refer to the datatypes of
   that extraction (ExtrOcamlBasic only: numbers stay Coq datatypes, never OCaml int). *)

let rec pos_of_int (i : int) : positive =
  if i = 1 then XH
  else if i land 1 = 0 then XO (pos_of_int (i lsr 1))
  else XI (pos_of_int (i lsr 1))

let z_of_int (i : int) : z =
  if i = 0 then Z0 else if i > 0 then Zpos (pos_of_int i) else Zneg (pos_of_int (- i))

let n_of_int (i : int) : n = if i = 0 then N0 else Npos (pos_of_int i)

let z10 = z_of_int 10

(* arbitrary-size decimal, optional leading '-' *)
let z_of_string (s : string) : z =
  let neg = String.length s > 0 && s.[0] = '-' in
  let start = if neg then 1 else 0 in
  let acc = ref Z0 in
  for i = start to String.length s - 1 do
    let d = Char.code s.[i] - 48 in
    if d < 0 || d > 9 then failwith ("z_of_string: " ^ s);
    acc := Z.add (Z.mul !acc z10) (z_of_int d)
  done;
  if neg then Z.opp !acc else !acc

let rec int_of_pos (p : positive) : int =
  match p with XH -> 1 | XO q -> 2 * int_of_pos q | XI q -> 2 * int_of_pos q + 1

(* only for values known to be small (lengths, bytes, enum tags) *)
let int_of_z (v : z) : int = match v with Z0 -> 0 | Zpos p -> int_of_pos p | Zneg p -> - (int_of_pos p)
let int_of_n (v : n) : int = match v with N0 -> 0 | Npos p -> int_of_pos p

let z_to_string (v : z) : string =
  let rec go (v : z) (acc : string) =
    match v with
    | Z0 -> if acc = "" then "0" else acc
    | _ -> let (q, r) = Z.div_eucl v z10 in go q (string_of_int (int_of_z r) ^ acc)
  in
  match v with
  | Zneg p -> "-" ^ go (Zpos p) ""
  | _ -> go v ""

let hexval c =
  match c with
  | '0'..'9' -> Char.code c - 48
  | 'a'..'f' -> Char.code c - 87
  | 'A'..'F' -> Char.code c - 55
  | _ -> failwith "hexval"

(* "0aff" -> [10; 255] ; "-" or "" -> [] *)
let ints_of_hex (s : string) : int list =
  if s = "-" then [] else begin
    let n = String.length s / 2 in
    let rec go i acc = if i < 0 then acc else go (i - 1) ((hexval s.[2*i] * 16 + hexval s.[2*i+1]) :: acc) in
    go (n - 1) []
  end

(* small-number tables so that converting 16 MB of bytes does not allocate per byte *)
let ztab = Array.init 256 z_of_int
let ntab = Array.init 256 n_of_int
let zbytes_of_hex s = List.rev (List.rev_map (fun i -> ztab.(i)) (ints_of_hex s))
let nbytes_of_hex s = List.rev (List.rev_map (fun i -> ntab.(i)) (ints_of_hex s))

let hex_of_ints (l : int list) : string =
  if l = [] then "-" else begin
    let b = Buffer.create (2 * List.length l) in
    List.iter (fun i -> Buffer.add_string b (Printf.sprintf "%02x" i)) l;
    Buffer.contents b
  end
let hex_of_zbytes l = hex_of_ints (List.rev (List.rev_map int_of_z l))
let hex_of_nbytes l = hex_of_ints (List.rev (List.rev_map int_of_n l))

let bool_of_string01 s = match s with "1" | "true" -> true | "0" | "false" -> false | _ -> failwith ("bool: " ^ s)
let string_of_bool01 b = if b then "1" else "0"

let split_ws (s : string) : string list =
  List.filter (fun x -> x <> "") (String.split_on_char ' ' s)

(* Iterate over the lines of a case file. [f lineno line] returns None when model and
   implementation agree, Some msg otherwise. Prints one MISMATCH line per disagreement (first 20)
   and a final summary line `CASES <n> MISMATCHES <m>`. Exit code 0 always: the caller decides. *)
let run_cases (path : string) (f : int -> string -> string option) : unit =
  let ic = open_in path in
  let n = ref 0 and m = ref 0 and ln = ref 0 in
  (try
     while true do
       let line = input_line ic in
       incr ln;
       if String.length line > 0 && line.[0] <> '#' then begin
         incr n;
         (match (try f !ln line with e -> Some ("driver exception: " ^ Printexc.to_string e)) with
          | None -> ()
          | Some msg ->
            incr m;
            if !m <= 20 then Printf.printf "MISMATCH line=%d %s\n" !ln msg)
       end
     done
   with End_of_file -> ());
  close_in ic;
  Printf.printf "CASES %d MISMATCHES %d\n" !n !m
