(* C05 correspondence driver: replays each schedule the Go harness drove through the REAL
   supervisor on the extracted Coq model and compares the observable snapshot after every action.

   Case line:  S <k> a1 .. ak | snap1 ; snap2 ; ...
   snap = <state> <lastReacted> <closed> <qlen> <nlen> <dropped> r<p><n>.. d<p><n>.. (skipped: X)
   Also T lines: T <cur> <ev> | <next> <ok>   (transition table, against Gen.hsms.transition) *)
let act_of_int = function
  | 0 -> CommitConnected | 1 -> CommitSelected | 2 -> CommitSelectLost
  | 3 -> Inject IDisconnect | 4 -> Inject IT7 | 5 -> Inject IClose
  | 6 -> StepLoad | 7 -> StepFinish | 8 -> Deliver
  | _ -> failwith "bad action"

let cs_int = function NC -> 0 | NS -> 1 | SEL -> 2

let rec nat_int = function O -> 0 | S n -> 1 + nat_int n

let snap_of (s : sup) (o : obs list) : string =
  let reacts = List.filter_map (function React (p, n) -> Some (Printf.sprintf "r%d%d" (cs_int p) (cs_int n)) | _ -> None) o in
  let deliv = List.filter_map (function Delivered (p, n) -> Some (Printf.sprintf "d%d%d" (cs_int p) (cs_int n)) | _ -> None) o in
  String.concat " " ([ string_of_int (cs_int s.st); string_of_int (cs_int s.lastr); string_of_bool01 s.closed;
                       string_of_int (List.length s.queue); string_of_int (List.length s.nbuf);
                       string_of_int (nat_int s.dropped) ] @ reacts @ deliv)

let check _ln line =
  match String.index_opt line '|' with
  | None -> Some "no bar"
  | Some i ->
    let lhs = split_ws (String.sub line 0 i) in
    let rhs = String.sub line (i + 1) (String.length line - i - 1) in
    (match lhs with
     | "T" :: c :: e :: [] ->
       let (n, ok) = Coq_hsms.transition (z_of_string c) (z_of_string e) in
       let m = Printf.sprintf "%s %s" (z_to_string n) (string_of_bool01 ok) in
       let obs = String.concat " " (split_ws rhs) in
       if m <> obs then Some (Printf.sprintf "transition generated=[%s] impl=[%s]" m obs) else None
     | "S" :: _k :: acts ->
       let acts = List.map (fun a -> act_of_int (int_of_string a)) acts in
       let snaps = List.map (fun s -> String.concat " " (split_ws s)) (String.split_on_char ';' rhs) in
       let snaps = List.filter (fun s -> s <> "") snaps in
       let rec go s acts snaps idx =
         match acts, snaps with
         | [], [] -> None
         | a :: ar, sn :: sr ->
           let (s', o) = exec s a in
           let m = snap_of s' o in
           if m <> sn then Some (Printf.sprintf "action #%d: model=[%s] impl=[%s]" idx m sn)
           else go s' ar sr (idx + 1)
         | _ -> Some "schedule/snapshot length mismatch"
       in
       go init acts snaps 0
     | _ -> Some "unparsable case line")

let () = run_cases Sys.argv.(1) check
