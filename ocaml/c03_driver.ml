(* C03 correspondence driver: evaluates the extracted Coq model (Hsms/Header.v, Hsms/Frame.v) on the
   inputs the Go harness ran through the real code and compares with what the code did.

   Case lines (LHS | observed); the driver re-renders the model's outcome in the same syntax and
   compares token by token:
     D stream fn w sid s0 s1 s2 s3 kind body | E <S|I|R>
     D ...                                   | OK frame nbuf buf.. | type stream fn w sid id hdr | <decode> | reser
     C <factory> args                        | ERR  or  OK frame reply type nbuf buf.. | <decode> | reser
     R baseframe k op..                      | frame
     Q baseframe k op..                      | wire bytes of sibling 0..k (frame buffers concatenated)
     B baseframe bodyok k op..               | E <class>  or  OK frame
     H hdr kind body                         | E <P|S|S'|I|R> or OK frame
     W selreq sid s0..s3 | frame ;  W sepreq sid s0..s3 | frame ; W ltreq s0..s3 | frame
     W data mode stream fn w sid s0..s3 kind body | frame
     G n | OK framelen first18 <class> <class>
   <decode> = E <H|B|P|S>  |  OK D hdr body  |  OK C hdr reply *)

let split_bar line =
  match String.index_opt line '|' with
  | None -> failwith "no bar"
  | Some i -> (String.sub line 0 i, String.sub line (i + 1) (String.length line - i - 1))

let norm s = String.concat " " (split_ws s)
let zs = z_of_string
let hx = hex_of_zbytes
let b01 = string_of_bool01

let sb4 a b c d = (((zs a, zs b), zs c), zs d)

let item_of kind body =
  match kind with
  | "N" -> ItemNil
  | "O" -> ItemOk (zbytes_of_hex body)
  | "E" -> ItemErr
  | _ -> failwith "item kind"

let cerr_s = function EStream -> "S" | EItem -> "I" | ERspW -> "R"
let derr_s = function
  | ETooShort | ELenSmall | ELenMismatch -> "H"
  | ELenBig -> "B"
  | EPType -> "P"
  | ESType -> "S"

let render_msg m =
  match m with
  | MData d -> Printf.sprintf "D %s %s" (hx (hdr_bytes d.d_hdr)) (hx d.d_body)
  | MCtrl c -> Printf.sprintf "C %s %s" (hx (hdr_bytes c.c_hdr)) (b01 c.c_reply)

let render_decode r =
  match r with
  | Ok m -> "OK " ^ render_msg m
  | Err e -> "E " ^ derr_s e

let render_bufs bs =
  String.concat " " (string_of_int (List.length bs) :: List.map hx bs)

let decode_and_reser frame =
  let r = decode_message frame_cap frame in
  let rs = match r with Ok m -> hx (to_bytes m) | Err _ -> "-" in
  (render_decode r, rs)

let msg_of_frame_hex h =
  match decode_message frame_cap (zbytes_of_hex h) with
  | Ok m -> m
  | Err _ -> failwith "base frame does not decode in the model"

let hdr_of_hex h =
  match hdr_split (zbytes_of_hex h) with
  | Some (hd, _) -> hd
  | None -> failwith "header hex"

let parse_sys s =
  match String.split_on_char ',' s with
  | [a; b; c; d] -> sb4 a b c d
  | _ -> failwith "sys"

let after_colon s =
  let i = String.index s ':' in
  (String.sub s 0 i, String.sub s (i + 1) (String.length s - i - 1))

let stamp_of tok =
  let (k, v) = after_colon tok in
  match k with
  | "sid" -> SetSid (zs v)
  | "sys" -> SetSys (parse_sys v)
  | "id" -> SetId (zs v)
  | _ -> failwith "stamp op"

let bop_of tok =
  let (k, v) = after_colon tok in
  match k with
  | "stream" -> BStream (zs v)
  | "fn" -> BFunction (zs v)
  | "w" -> BWait (bool_of_string01 v)
  | "sid" -> BSid (zs v)
  | "sys" -> BSys (parse_sys v)
  | "id" -> BId (zs v)
  | "item" -> let (kind, body) = after_colon v in BItem (item_of kind body)
  | _ -> failwith "builder op"

let rec take n l = if n = 0 then [] else match l with [] -> [] | x :: t -> x :: take (n - 1) t

let model_of_lhs (l : string list) : string =
  match l with
  | "D" :: stream :: fn :: w :: sid :: s0 :: s1 :: s2 :: s3 :: kind :: body :: [] ->
    (match new_data_message (zs stream) (zs fn) (bool_of_string01 w) (zs sid) (sb4 s0 s1 s2 s3) (item_of kind body) with
     | Err e -> "E " ^ cerr_s e
     | Ok d ->
       let m = MData d in
       let frame = to_bytes m in
       let h = d.d_hdr in
       let (dec, rs) = decode_and_reser frame in
       Printf.sprintf "OK %s %s | %s %s %s %s %s %s %s | %s | %s" (hx frame) (render_bufs (frame_buffers m))
         (z_to_string (msg_type m)) (z_to_string (stream_of h)) (z_to_string (function_of h)) (b01 (wait_bit h))
         (z_to_string (session_id h)) (z_to_string (msg_id h)) (hx (hdr_bytes h)) dec rs)
  | "C" :: rest ->
    let fin (c : cmsg option) =
      match c with
      | None -> "ERR"
      | Some c ->
        let m = MCtrl c in
        let frame = to_bytes m in
        let (dec, rs) = decode_and_reser frame in
        Printf.sprintf "OK %s %s %s %s | %s | %s" (hx frame) (b01 c.c_reply) (z_to_string (msg_type m))
          (render_bufs (frame_buffers m)) dec rs
    in
    (match rest with
     | ["selreq"; sid; a; b; c; d] -> fin (Some (new_select_req (zs sid) (sb4 a b c d)))
     | ["deselreq"; sid; a; b; c; d] -> fin (Some (new_deselect_req (zs sid) (sb4 a b c d)))
     | ["sepreq"; sid; a; b; c; d] -> fin (Some (new_separate_req (zs sid) (sb4 a b c d)))
     | ["ltreq"; a; b; c; d] -> fin (Some (new_linktest_req (sb4 a b c d)))
     | ["selrsp"; rh; status] -> fin (new_select_rsp { c_hdr = hdr_of_hex rh; c_reply = false } (zs status))
     | ["deselrsp"; rh; status] -> fin (new_deselect_rsp { c_hdr = hdr_of_hex rh; c_reply = false } (zs status))
     | ["ltrsp"; rh; _] -> fin (new_linktest_rsp { c_hdr = hdr_of_hex rh; c_reply = false })
     | ["rejraw"; sid; pt; st; a; b; c; d; reason] ->
       fin (Some (new_reject_req_raw (zs sid) (zs pt) (zs st) (sb4 a b c d) (zs reason)))
     | ["rej"; "C"; rh; _; reason] ->
       fin (Some (new_reject_req (MCtrl { c_hdr = hdr_of_hex rh; c_reply = false }) (zs reason)))
     | ["rej"; "D"; rh; body; reason] ->
       fin (Some (new_reject_req (MData { d_hdr = hdr_of_hex rh; d_body = zbytes_of_hex body }) (zs reason)))
     | _ -> failwith "control case")
  | "R" :: base :: k :: ops ->
    let m = msg_of_frame_hex base in
    let ops = take (int_of_string k) ops in
    hx (to_bytes (stamp_chain m (List.map stamp_of ops)))
  | "Q" :: base :: k :: ops ->
    (* a message and its re-stamped siblings, each through the frame-buffer builder: the i-th
       sibling is the chain prefix of length i; framing order is irrelevant in the model *)
    let m = msg_of_frame_hex base in
    let ops = List.map stamp_of (take (int_of_string k) ops) in
    let rec upto i = if i > List.length ops then [] else
        hx (List.concat (frame_buffers (stamp_chain m (take i ops)))) :: upto (i + 1) in
    String.concat " " (upto 0)
  | "B" :: base :: ok :: k :: ops ->
    (match msg_of_frame_hex base with
     | MData d ->
       let ops = take (int_of_string k) ops in
       (match derive_build d (bool_of_string01 ok) (List.map bop_of ops) with
        | Ok d' -> "OK " ^ hx (to_bytes (MData d'))
        | Err e -> "E " ^ cerr_s e)
     | MCtrl _ -> failwith "derive on control")
  | "H" :: h :: kind :: body :: [] ->
    (match new_data_message_from_header (hdr_of_hex h) (item_of kind body) with
     | Ok d -> "OK " ^ hx (to_bytes (MData d))
     | Err HPType -> "E P"
     | Err HSType -> "E S"
     | Err (HCons e) -> "E " ^ cerr_s e)
  | ["W"; "selreq"; sid; a; b; c; d] -> hx (to_bytes (MCtrl (new_select_req (zs sid) (sb4 a b c d))))
  | ["W"; "sepreq"; sid; a; b; c; d] -> hx (to_bytes (MCtrl (new_separate_req (zs sid) (sb4 a b c d))))
  | ["W"; "ltreq"; a; b; c; d] -> hx (to_bytes (MCtrl (new_linktest_req (sb4 a b c d))))
  | ["W"; "data"; _mode; stream; fn; w; sid; s0; s1; s2; s3; kind; body] ->
    (match new_data_message (zs stream) (zs fn) (bool_of_string01 w) (zs sid) (sb4 s0 s1 s2 s3) (item_of kind body) with
     | Err e -> "E " ^ cerr_s e
     | Ok d ->
       let m = MData d in
       (* what the socket gets is the concatenation of the frame buffers *)
       let wire = List.concat (frame_buffers m) in
       if hx wire <> hx (to_bytes m) then "model: buffers <> to_bytes" else hx wire)
  | ["G"; n] ->
    (* a binary item of n payload bytes (n > 65535: 3 length bytes), all zero *)
    let n = int_of_string n in
    (* 16 MB frames go through the extracted (non tail-recursive) list functions: a large minor
       heap keeps the number of minor collections (each scans the deep stack) small *)
    if n > 1000000 then Gc.set { (Gc.get ()) with Gc.minor_heap_size = 64 * 1024 * 1024; Gc.space_overhead = 400 };
    let zero = ztab.(0) in
    let payload = List.init n (fun _ -> zero) in
    let body = ztab.(0x23) :: ztab.((n lsr 16) land 255) :: ztab.((n lsr 8) land 255) :: ztab.(n land 255) :: payload in
    (match new_data_message ztab.(1) ztab.(1) true ztab.(7) (((ztab.(0), ztab.(0)), ztab.(0)), ztab.(1)) (ItemOk body) with
     | Err e -> "E " ^ cerr_s e
     | Ok d ->
       let frame = to_bytes (MData d) in
       let cls r = match r with Ok _ -> "ok" | Err e -> derr_s e in
       let payload_part = match frame with _ :: _ :: _ :: _ :: p -> p | _ -> [] in
       Printf.sprintf "OK %s %s %s %s" (z_to_string (len frame)) (hx (take 18 frame))
         (cls (decode_message frame_cap frame)) (cls (decode_payload frame_cap payload_part)))
  | _ -> failwith "unparsable case line"

let check _ln line =
  let (lhs, rhs) = split_bar line in
  let model = norm (model_of_lhs (split_ws lhs)) in
  let obs = norm rhs in
  if model = obs then None
  else begin
    let cut s = if String.length s > 400 then String.sub s 0 400 ^ "..." else s in
    Some (Printf.sprintf "case=[%s] model=[%s] impl=[%s]" (cut (norm lhs)) (cut model) (cut obs))
  end

let () = run_cases Sys.argv.(1) check
