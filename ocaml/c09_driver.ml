(* C09 correspondence driver.

   H <name> | ev ; ev ; ...              a log recorded from the REAL connection: judged by the
                                         extracted monitor ok_C09 (reports the first rejected event)
   M <name> | act act ... | ev ; ev ...  a deterministic single-sender scenario: the extracted model
                                         is run on the action list and its labels, projected on what
                                         the harness can observe (A W C E T U S), must EQUAL the log

   events:  A c k g | W g c k | C c k r from | E c k r | T g | U g | D g | S sent recv infl err drop aerr retry reconn quiet
   actions: en c k | b1 c | rg c | eq c | eqc c | eqx c | dr c | cp c | ck c | wo c | wf c | ar c |
            cr c | ct c | cc c | cx c | ps g f key | rd g | rt g | open | pub | up | sel | desel | drop |
            close | td | join g | lsp | lbeg | lend ok | snap *)
let rec nat_of_int i = if i <= 0 then O else S (nat_of_int (i - 1))
let rec int_of_nat = function O -> 0 | S n -> 1 + int_of_nat n

let kind_of_int = function 0 -> KSyncW | 1 -> KSyncNW | 2 -> KAsync | 3 -> KCtrl | 4 -> KCtrlAsync | _ -> failwith "kind"
let int_of_kind = function KSyncW -> 0 | KSyncNW -> 1 | KAsync -> 2 | KCtrl -> 3 | KCtrlAsync -> 4

let result_of r from =
  match r with
  | 0 -> ROk | 1 -> RQueued | 2 -> RReply (nat_of_int from) | 3 -> RReject (nat_of_int from) | 4 -> RTimer
  | 5 -> RClosed | 6 -> RCtx | 7 -> RNotSel | 8 -> RWriteErr | 9 -> RNotOpen | _ -> failwith "result"
let result_str = function
  | ROk -> "0 -1" | RQueued -> "1 -1" | RReply f -> Printf.sprintf "2 %d" (int_of_nat f)
  | RReject f -> Printf.sprintf "3 %d" (int_of_nat f) | RTimer -> "4 -1" | RClosed -> "5 -1" | RCtx -> "6 -1"
  | RNotSel -> "7 -1" | RWriteErr -> "8 -1" | RNotOpen -> "9 -1"

let metrics_of l =
  match List.map z_of_string l with
  | [a; b; c; d; e; f; g; h] -> { m_sent = a; m_recv = b; m_inflight = c; m_err = d; m_drop = e; m_aerr = f; m_retry = g; m_reconn = h }
  | _ -> failwith "metrics"

let obs_of_event (s : string) : obs option =
  match split_ws s with
  | ["A"; c; k; g] -> Some (OAccepted (nat_of_int (int_of_string c), kind_of_int (int_of_string k), nat_of_int (int_of_string g)))
  | ["W"; _; c; _] when int_of_string c < 0 -> None
  | ["W"; g; c; k] -> Some (OWire (nat_of_int (int_of_string g), nat_of_int (int_of_string c), kind_of_int (int_of_string k)))
  | ["C"; c; k; r; f] -> Some (OCompleted (nat_of_int (int_of_string c), kind_of_int (int_of_string k), result_of (int_of_string r) (int_of_string f)))
  | ["E"; c; k; r] -> if int_of_string c < 0 then None
                      else Some (OAsyncErr (nat_of_int (int_of_string c), kind_of_int (int_of_string k), result_of (int_of_string r) 0))
  | ["T"; g] -> Some (OTeardown (nat_of_int (int_of_string g)))
  | ["U"; g] -> Some (OGenUp (nat_of_int (int_of_string g)))
  | ["D"; g] -> Some (ODispatch (nat_of_int (int_of_string g), FPrimary, true))
  | "S" :: rest when List.length rest = 9 ->
    let m = metrics_of (List.filteri (fun i _ -> i < 8) rest) in
    Some (OSnap (m, List.nth rest 8 = "1"))
  | [] -> None
  | _ -> failwith ("bad event: " ^ s)

let str_of_obs (o : obs) : string option =
  match o with
  | OAccepted (c, k, g) -> Some (Printf.sprintf "A %d %d %d" (int_of_nat c) (int_of_kind k) (int_of_nat g))
  | OWire (g, c, k) -> Some (Printf.sprintf "W %d %d %d" (int_of_nat g) (int_of_nat c) (int_of_kind k))
  | OCompleted (c, k, r) -> Some (Printf.sprintf "C %d %d %s" (int_of_nat c) (int_of_kind k) (result_str r))
  | OAsyncErr (c, k, r) -> Some (Printf.sprintf "E %d %d %s" (int_of_nat c) (int_of_kind k) (List.hd (split_ws (result_str r))))
  | OTeardown g -> Some (Printf.sprintf "T %d" (int_of_nat g))
  | OGenUp g -> Some (Printf.sprintf "U %d" (int_of_nat g))
  | OSnap (m, q) -> Some (Printf.sprintf "S %s %s %s %s %s %s %s %s %s" (z_to_string m.m_sent) (z_to_string m.m_recv)
                            (z_to_string m.m_inflight) (z_to_string m.m_err) (z_to_string m.m_drop) (z_to_string m.m_aerr)
                            (z_to_string m.m_retry) (z_to_string m.m_reconn) (if q then "1" else "0"))
  | _ -> None

let pframe_of f key =
  match f with
  | "reply" -> FReply (nat_of_int key) | "reject" -> FRejectK (nat_of_int key) | "rsp" -> FCtrlRsp (nat_of_int key)
  | "primary" -> FPrimary | _ -> failwith "pframe"

let rec actions_of (l : string list) : action list =
  let n s = nat_of_int (int_of_string s) in
  match l with
  | [] -> []
  | "en" :: c :: k :: r -> Enter (n c, kind_of_int (int_of_string k)) :: actions_of r
  | "b1" :: c :: r -> B1 (n c) :: actions_of r
  | "rg" :: c :: r -> Register (n c) :: actions_of r
  | "eq" :: c :: r -> Enqueue (n c) :: actions_of r
  | "eqc" :: c :: r -> EnqueueClosed (n c) :: actions_of r
  | "eqx" :: c :: r -> EnqueueCtx (n c) :: actions_of r
  | "dr" :: c :: r -> Drain (n c) :: actions_of r
  | "cp" :: c :: r -> Capture (n c) :: actions_of r
  | "ck" :: c :: r -> Check (n c) :: actions_of r
  | "wo" :: c :: r -> WriteOk (n c) :: actions_of r
  | "wf" :: c :: r -> WriteFail (n c) :: actions_of r
  | "ar" :: c :: r -> Arm (n c) :: actions_of r
  | "cr" :: c :: r -> CompleteReply (n c) :: actions_of r
  | "ct" :: c :: r -> CompleteTimer (n c) :: actions_of r
  | "cc" :: c :: r -> CompleteClosed (n c) :: actions_of r
  | "cx" :: c :: r -> CompleteCtx (n c) :: actions_of r
  | "ps" :: g :: f :: key :: r -> PeerSend (n g, pframe_of f (int_of_string key)) :: actions_of r
  | "rd" :: g :: r -> Read (n g) :: actions_of r
  | "rt" :: g :: r -> Route (n g) :: actions_of r
  | "open" :: r -> Open :: actions_of r
  | "pub" :: r -> Publish :: actions_of r
  | "up" :: r -> TCPUp :: actions_of r
  | "sel" :: r -> Select :: actions_of r
  | "desel" :: r -> Deselect :: actions_of r
  | "drop" :: r -> Drop :: actions_of r
  | "close" :: r -> CloseReq :: actions_of r
  | "td" :: r -> Teardown :: actions_of r
  | "join" :: g :: r -> Join (n g) :: actions_of r
  | "lsp" :: r -> LoopSpawn :: actions_of r
  | "lbeg" :: r -> LoopBegin :: actions_of r
  | "lend" :: ok :: r -> LoopEnd (ok = "1") :: actions_of r
  | "snap" :: r -> Snap :: actions_of r
  | x :: _ -> failwith ("bad action: " ^ x)

let norm s = String.concat " " (split_ws s)

let check _ln line =
  match String.split_on_char '|' line with
  | [hd; evs] when String.length hd > 0 && hd.[0] = 'H' ->
    let obs = List.filter_map obs_of_event (String.split_on_char ';' evs) in
    let rec go m i = function
      | [] -> None
      | o :: r -> (match mon9_step m o with
                   | Some m' -> go m' (i + 1) r
                   | None -> Some (Printf.sprintf "%s: ok_C09 rejects event #%d (%s)" (norm hd) i
                                     (match str_of_obs o with Some s -> s | None -> "?")))
    in
    go mon9_0 0 obs
  | [hd; acts; evs] when String.length hd > 0 && hd.[0] = 'M' ->
    let acts = actions_of (split_ws acts) in
    let (_, labels) = run init acts in
    let internal_model o = (match o with
        | OAccepted (c, _, _) | OWire (_, c, _) | OCompleted (c, _, _) | OAsyncErr (c, _, _) -> int_of_nat c >= 1000
        | _ -> false) in
    let internal_impl s = (match split_ws s with
        | ["W"; _; c; _] | "E" :: c :: _ -> int_of_string c < 0
        | _ -> false) in
    let model = List.filter_map str_of_obs (List.filter (fun o -> not (internal_model o)) labels) in
    let impl = List.filter (fun s -> s <> "" && s.[0] <> 'D' && not (internal_impl s)) (List.map norm (String.split_on_char ';' evs)) in
    if not (ok_C09 labels) then Some (norm hd ^ ": ok_C09 rejects the model's own labels")
    else if (let is_t s = String.length s > 0 && s.[0] = 'T' in
             (* T g is where the PEER noticed the end of generation g, not the instant of the
                library's teardown: its position relative to the other events is not compared *)
             List.filter (fun s -> not (is_t s)) model <> List.filter (fun s -> not (is_t s)) impl
             || List.sort compare (List.filter is_t model) <> List.sort compare (List.filter is_t impl)) then
      Some (Printf.sprintf "%s: model=[%s] impl=[%s]" (norm hd) (String.concat " ; " model) (String.concat " ; " impl))
    else None
  | _ -> Some "unparsable case line"

let () = run_cases Sys.argv.(1) check
