(* C17 correspondence driver: evaluates the extracted Coq model of the SECS-I block layer and
   assembler on the inputs the Go harness ran through the real code, and compares.

   Case lines (numbers decimal, booleans 0/1, bytes hex, "-" = empty):
     H dev r stream func w sys num last | hdr
     A hdr | dev r stream func w sys num ebit
     S dev r stream func w sys body | err k {hdr body}*
     SZ dev r stream func w sys len | err k fnv32      (all-zero body of that length)
     F dev equip hsmshdr body | err k {hdr body}*
     W hdr body | wire
     P lb rest | err [hdr body]
     M k {hdr body}* | err [frame]
     Q equip dev k {now t4 lb rest}* | step ; step ...   step = P<err> | A nd {frame}* nv {kind hdr}* c0..c5 err
     RS k {c<hex> | s}* | {W<xx> | D hdr body}*          (receive side at the character level: bursts of
                                                          characters and silences; what the receiver
                                                          writes and delivers, in order)
     X equip dev hsmshdr body | wire                      (e2e: block transmissions seen on the line)
     Y equip dev k {gap_exceeds_t4 hdr body | R}* | nd {frame}*   (e2e: handler deliveries; R = line drop
                                                                + reconnect: a new connection generation
                                                                starts from a FRESH assembler state)
*)
let split_bar line =
  match String.index_opt line '|' with
  | None -> failwith "no bar"
  | Some i -> (String.sub line 0 i, String.sub line (i + 1) (String.length line - i - 1))

let zb = zbytes_of_hex
let hz = hex_of_zbytes
let zi = z_of_int
let b01 = bool_of_string01

let err_code (e : err) : int = match e with
  | EInvalidLength -> 1 | EChecksum -> 2 | EInvalidHeader -> 3 | ETooLarge -> 4
  | EEmptyBlocks -> 5 | EBlockNumber -> 6 | EEBit -> 7 | EHeaderMismatch -> 8

let mk_header dev r st fn w sys =
  { h_dev = z_of_string dev; h_rbit = b01 r; h_stream = z_of_string st; h_func = z_of_string fn;
    h_wbit = b01 w; h_sys = zb sys }

let show_mheader (m : mheader) (num : z) (e : bool) =
  Printf.sprintf "%s %s %s %s %s %s %s %s" (z_to_string m.h_dev) (string_of_bool01 m.h_rbit)
    (z_to_string m.h_stream) (z_to_string m.h_func) (string_of_bool01 m.h_wbit) (hz m.h_sys)
    (z_to_string num) (string_of_bool01 e)

let show_blocks (bs : block list) =
  String.concat " " (string_of_int (List.length bs) :: List.map (fun b -> hz b.b_hdr ^ " " ^ hz b.b_body) bs)

let show_split (r : block list result) = match r with
  | Ok bs -> "0 " ^ show_blocks bs
  | Err e -> Printf.sprintf "%d 0" (err_code e)

let rec take_blocks k toks acc =
  if k = 0 then (List.rev acc, toks) else
    match toks with
    | h :: b :: tl -> take_blocks (k - 1) tl ({ b_hdr = zb h; b_body = zb b } :: acc)
    | _ -> failwith "bad block list"

let fnv (bs : block list) : int =
  let h = ref 2166136261 in
  let feed l = List.iter (fun v -> h := ((!h lxor (int_of_z v)) * 16777619) land 0xFFFFFFFF) l in
  List.iter (fun b -> feed b.b_hdr; feed b.b_body) bs; !h

let viol_code v = match v with VDevice -> 1 | VNumber -> 2 | VHeader -> 3 | VInvalidFirst -> 4
let counter_idx c = match c with CDevice -> 0 | CDir -> 1 | CPartialTimeout -> 2 | CDup -> 3 | CNumberMismatch -> 4 | CInvalidFirst -> 5

let show_step (o : aout list) : string =
  let dels = List.filter_map (fun x -> match x with ODeliver f -> Some (hz f) | _ -> None) o in
  let viols = List.filter_map (fun x -> match x with OViol (v, h) -> Some (Printf.sprintf "%d %s" (viol_code v) (hz h)) | _ -> None) o in
  let cnt = Array.make 6 0 in
  List.iter (fun x -> match x with OCount c -> cnt.(counter_idx c) <- cnt.(counter_idx c) + 1 | _ -> ()) o;
  let err = List.fold_left (fun a x -> match x with OError e -> err_code e | _ -> a) 0 o in
  String.concat " " (["A"; string_of_int (List.length dels)] @ dels @ [string_of_int (List.length viols)] @ viols
                     @ (Array.to_list (Array.map string_of_int cnt)) @ [string_of_int err])

let norm s = String.concat " " (split_ws s)

let cmp what model obs =
  if model = norm obs then None else
    let cut s = if String.length s > 400 then String.sub s 0 400 ^ "..." else s in
    Some (Printf.sprintf "%s model=[%s] impl=[%s]" what (cut model) (cut (norm obs)))

let check _ln line =
  let (lhs, rhs) = split_bar line in
  let l = split_ws lhs in
  match l with
  | ["H"; dev; r; st; fn; w; sys; num; last] ->
    cmp "build_header" (hz (build_header (mk_header dev r st fn w sys) (z_of_string num) (b01 last))) rhs
  | ["A"; hdr] ->
    let h = zb hdr in
    cmp "accessors" (show_mheader (msg_header h) (hdr_num h) (hdr_ebit h)) rhs
  | ["S"; dev; r; st; fn; w; sys; body] ->
    cmp "split_body" (show_split (split_body (zb body) (mk_header dev r st fn w sys))) rhs
  | ["SZ"; dev; r; st; fn; w; sys; len] ->
    let body = List.init (int_of_string len) (fun _ -> Z0) in
    let m = match split_body body (mk_header dev r st fn w sys) with
      | Ok bs -> Printf.sprintf "0 %d %d" (List.length bs) (fnv bs)
      | Err e -> Printf.sprintf "%d 0 %d" (err_code e) (fnv []) in
    cmp "split_body(zeros)" m rhs
  | ["F"; dev; equip; hh; body] ->
    cmp "split_frame" (show_split (split_frame (z_of_string dev) (b01 equip) (zb hh) (zb body))) rhs
  | ["W"; hdr; body] ->
    cmp "append_block" (hz (append_block { b_hdr = zb hdr; b_body = zb body })) rhs
  | ["P"; lb; rest] ->
    let m = match parse_block (z_of_string lb) (zb rest) with
      | Ok b -> Printf.sprintf "0 %s %s" (hz b.b_hdr) (hz b.b_body)
      | Err e -> string_of_int (err_code e) in
    cmp "parse_block" m rhs
  | "M" :: k :: toks ->
    let (bs, _) = take_blocks (int_of_string k) toks [] in
    let m = match assemble_frame bs with
      | Ok f -> "0 " ^ hz f
      | Err e -> string_of_int (err_code e) in
    cmp "assemble_frame" m rhs
  | "Q" :: equip :: dev :: k :: toks ->
    let cfg = { c_equip = b01 equip; c_dev = z_of_string dev } in
    let rec go k toks st ss acc =
      if k = 0 then List.rev acc else
        match toks with
        | now :: t4 :: lb :: rest :: tl ->
          (match parse_block (z_of_string lb) (zb rest) with
           | Err e -> go (k - 1) tl st ss (Printf.sprintf "P%d" (err_code e) :: acc)
           | Ok b ->
             let e = { e_time = z_of_string now; e_t4 = z_of_string t4; e_blk = b } in
             let (st', o) = accept cfg st e in
             let (ss', d) = spec_step cfg ss e in
             let s = show_step o in
             (* the E4 reading and the assembler model must agree on deliveries (theorem C17_assembler) *)
             let s = if List.map hz d = List.map hz (deliveries_of o) then s else s ^ " SPEC-DISAGREES" in
             go (k - 1) tl st' ss' (s :: acc))
        | _ -> failwith "bad event list"
    in
    cmp "assembler" (String.concat " ; " (go (int_of_string k) toks astate0 sstate0 [])) rhs
  | "RS" :: _ :: toks ->
    let ins = List.concat_map (fun t ->
        if t = "s" then [Silence]
        else List.map (fun b -> Ch b) (zb (String.sub t 1 (String.length t - 1)))) toks in
    let (_, outs) = rrun RIdle ins in
    let m = String.concat " " (List.map (fun o -> match o with
        | Emit b -> Printf.sprintf "W%02x" (int_of_z b)
        | Deliver b -> Printf.sprintf "D %s %s" (hz b.b_hdr) (hz b.b_body)) outs) in
    cmp "receive stream" m rhs
  | ["X"; equip; dev; hh; body] ->
    let m = match split_frame (z_of_string dev) (b01 equip) (zb hh) (zb body) with
      | Ok bs -> hz (wire_of_blocks bs)
      | Err e -> Printf.sprintf "ERR%d" (err_code e) in
    cmp "line bytes" m rhs
  | "Y" :: equip :: dev :: k :: toks ->
    let cfg = { c_equip = b01 equip; c_dev = z_of_string dev } in
    (* e2e timing is abstracted: consecutive blocks are 0 apart unless the harness slept past T4 *)
    let rec go k toks st now acc =
      if k = 0 then List.rev acc else
        match toks with
        | "R" :: tl -> go (k - 1) tl astate0 now acc
        | gap :: hdr :: body :: tl ->
          let now = if b01 gap then Z.add now (zi 1000) else now in
          let e = { e_time = now; e_t4 = zi 10; e_blk = { b_hdr = zb hdr; b_body = zb body } } in
          let (st', o) = accept cfg st e in
          go (k - 1) tl st' now (List.rev_append (List.map hz (deliveries_of o)) acc)
        | _ -> failwith "bad e2e event list"
    in
    let ds = go (int_of_string k) toks astate0 Z0 [] in
    cmp "handler deliveries" (String.concat " " (string_of_int (List.length ds) :: ds)) rhs
  | _ -> Some "unparsable case line"

let () = run_cases Sys.argv.(1) check
