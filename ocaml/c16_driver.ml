(* C16 correspondence driver: evaluates the extracted constructor model on the argument lists the Go
   harness passed to the real public constructors and compares the observable result.

   Case lines (tokens separated by blanks):
     C <expr> | <show>                    construct and observe (Error()!=nil, Type, Size, values)
     Q <expr> ; <expr> | <0/1>            secs2.Equal
     M <stream> <fn> <w> <expr> | <class> hsms.NewDataMessage (ok | stream | item | rsp)
     S <call> <stream> <fn> <w> <expr> | <class> <frames>   endpoint send calls on a live connection
     K <v> <lo> <hi> | <r>                clampInt64 through the translated source
   expr ::= I w k arg*k | U w k arg*k | F w k arg*k | B k arg*k | O k arg*k | A hex | J hex
          | W lsh hex | E | N | L k expr*k
   arg  ::= i:<gotype>:<z> | is:<gotype>:<z,...> | f32:<bits> | f32s:<bits,...> | f64:.. | f64s:..
          | s:<hex>[=<pf>] | ss:<hex>[=<pf>],... | b:<0/1> | bs:<0/1,...> | nil | other
   where <pf> is strconv.ParseFloat's answer for that string (E or the binary64 bits).            *)

let split_on c s = String.split_on_char c s

let gty_of = function
  | "int" -> TInt | "int8" -> TInt8 | "int16" -> TInt16 | "int32" -> TInt32 | "int64" -> TInt64
  | "uint" -> TUint | "uint8" -> TUint8 | "uint16" -> TUint16 | "uint32" -> TUint32 | "uint64" -> TUint64
  | s -> failwith ("gty: " ^ s)

let zlist s = if s = "" then [] else List.map z_of_string (split_on ',' s)

(* the ParseFloat oracle table of the current case *)
let pf_table : (z list * z option) list ref = ref []

let str_of tok =
  match split_on '=' tok with
  | [h] -> zbytes_of_hex h
  | [h; pf] ->
    let b = zbytes_of_hex h in
    pf_table := (b, (if pf = "E" then None else Some (z_of_string pf))) :: !pf_table;
    b
  | _ -> failwith "string token"

let pf (s : z list) : z option = try List.assoc s !pf_table with Not_found -> None

let arg_of tok =
  if tok = "nil" then ANil else if tok = "other" then AOther else
  match split_on ':' tok with
  | ["i"; t; v] -> AInt (gty_of t, z_of_string v)
  | ["is"; t; vs] -> AInts (gty_of t, zlist vs)
  | ["f32"; b] -> AF32 (z_of_string b)
  | ["f32s"; bs] -> AF32s (zlist bs)
  | ["f64"; b] -> AF64 (z_of_string b)
  | ["f64s"; bs] -> AF64s (zlist bs)
  | ["s"; h] -> AStr (str_of h)
  | ["ss"; hs] -> AStrs (if hs = "" then [] else List.map str_of (split_on ',' hs))
  | ["b"; v] -> ABool (bool_of_string01 v)
  | ["bs"; vs] -> ABools (if vs = "" then [] else List.map bool_of_string01 (split_on ',' vs))
  | _ -> failwith ("arg: " ^ tok)

let rec take_args k toks acc =
  if k = 0 then (List.rev acc, toks) else
    match toks with
    | t :: r -> take_args (k - 1) r (arg_of t :: acc)
    | [] -> failwith "args: too few tokens"

(* returns (item option, remaining tokens) *)
let rec expr toks : item option * string list =
  match toks with
  | "I" :: w :: k :: r -> let (a, r) = take_args (Stdlib.int_of_string k) r [] in (Some (new_int (z_of_string w) a), r)
  | "U" :: w :: k :: r -> let (a, r) = take_args (Stdlib.int_of_string k) r [] in (Some (new_uint (z_of_string w) a), r)
  | "F" :: w :: k :: r -> let (a, r) = take_args (Stdlib.int_of_string k) r [] in (Some (new_float pf (z_of_string w) a), r)
  | "B" :: k :: r -> let (a, r) = take_args (Stdlib.int_of_string k) r [] in (Some (new_binary a), r)
  | "O" :: k :: r -> let (a, r) = take_args (Stdlib.int_of_string k) r [] in (Some (new_boolean a), r)
  | "A" :: h :: r -> (Some (new_ascii (zbytes_of_hex h)), r)
  | "J" :: h :: r -> (Some (new_jis8 (zbytes_of_hex h)), r)
  | "W" :: l :: h :: r -> (Some (new_localized (z_of_string l) (zbytes_of_hex h)), r)
  | "E" :: r -> (Some IEmpty, r)
  | "N" :: r -> (None, r)
  | "L" :: k :: r ->
    let rec kids n r acc =
      if n = 0 then (List.rev acc, r) else let (x, r) = expr r in kids (n - 1) r (x :: acc) in
    let (cs, r) = kids (Stdlib.int_of_string k) r [] in
    (Some (new_list cs), r)
  | t :: _ -> failwith ("expr: " ^ t)
  | [] -> failwith "expr: empty"

let comma_or_dash l = if l = [] then "-" else String.concat "," l

let rec show (it : item) : string =
  match it with
  | IList (cs, _, own) ->
    let e = match error it with None -> "0" | Some _ -> "1" in
    let kids = match own with None -> String.concat "" (List.map (fun c -> " " ^ show c) cs) | Some _ -> "" in
    Printf.sprintf "[%s %s%s]" e (z_to_string (size_of it)) kids
  | _ ->
    (match error it with
     | Some _ -> "E"
     | None ->
       let vals =
         match it with
         | IEmpty -> "-"
         | IBin (v, _) | IAscii (v, _) | IJis8 (v, _) -> hex_of_zbytes v
         | ILoc (h, v, _) -> z_to_string h ^ ":" ^ hex_of_zbytes v
         | IBool _ -> comma_or_dash (List.map string_of_bool01 (bool_values it))
         | IFloat _ -> comma_or_dash (List.map (fun b -> if f64_nan b then "nan" else z_to_string b) (num_values it))
         | _ -> comma_or_dash (List.map z_to_string (num_values it)) in
       Printf.sprintf "(%s %s %s)" (z_to_string (type_code it)) (z_to_string (size_of it)) vals)

let show_opt = function None -> "N" | Some x -> show x

let split_bar line =
  match String.index_opt line '|' with
  | None -> failwith "no bar"
  | Some i -> (String.sub line 0 i, String.trim (String.sub line (i + 1) (String.length line - i - 1)))

let merr_class = function
  | Inl MStream -> "stream" | Inl (MItem _) -> "item" | Inl MRsp -> "rsp" | Inr _ -> "ok"

let check _ln line =
  pf_table := [];
  let (lhs, obs) = split_bar line in
  match split_ws lhs with
  | "C" :: r ->
    let (x, rest) = expr r in
    if rest <> [] then Some "trailing tokens" else
    let m = show_opt x in
    if m <> obs then Some (Printf.sprintf "construct model=[%s] impl=[%s]" m obs) else None
  | "Q" :: r ->
    let (a, rest) = expr r in
    (match rest with
     | ";" :: r2 ->
       let (b, rest2) = expr r2 in
       if rest2 <> [] then Some "trailing tokens" else
       let m = string_of_bool01 (equal_opt a b) in
       if m <> obs then Some (Printf.sprintf "equal model=[%s] impl=[%s]" m obs) else None
     | _ -> Some "Q: no separator")
  | "M" :: s :: f :: w :: r ->
    let (x, rest) = expr r in
    if rest <> [] then Some "trailing tokens" else
    let m = merr_class (new_data_message (z_of_string s) (z_of_string f) (bool_of_string01 w) Z0 Z0 x) in
    let b = merr_class (build (z_of_string s) (z_of_string f) (bool_of_string01 w) Z0 Z0 x) in
    if m <> obs then Some (Printf.sprintf "gate model=[%s] impl=[%s]" m obs)
    else if b <> obs then Some (Printf.sprintf "build model=[%s] impl=[%s]" b obs) else None
  | "S" :: call :: s :: f :: w :: r ->
    let (x, rest) = expr r in
    if rest <> [] then Some "trailing tokens" else
    let s = z_of_string s and f = z_of_string f and w = bool_of_string01 w in
    let c = match call with
      | "data" -> SendData (s, f, w, x) | "async" -> SendAsync (s, f, w, x)
      | "secs2" -> SendSecs2 (s, f, w, x) | "reply" -> Reply (s, f, Z0, x)
      | _ -> failwith "call" in
    let (e, frames) = send Z0 Z0 c in
    let m = Printf.sprintf "%s %d" (match e with None -> "ok" | Some MStream -> "stream" | Some (MItem _) -> "item" | Some MRsp -> "rsp")
        (List.length frames) in
    if m <> obs then Some (Printf.sprintf "send model=[%s] impl=[%s]" m obs) else None
  | ["K"; v; lo; hi] ->
    let v = z_of_string v and lo = z_of_string lo and hi = z_of_string hi in
    let g = z_to_string (Coq_secs2.clampInt64 v lo hi) and m = z_to_string (clamp lo hi v) in
    if g <> obs then Some (Printf.sprintf "clampInt64 generated=[%s] impl=[%s]" g obs)
    else if m <> obs then Some (Printf.sprintf "clamp model=[%s] impl=[%s]" m obs) else None
  | _ -> Some "unparsable case line"

let () = run_cases Sys.argv.(1) check
