(* C13 correspondence driver: runs the extracted Coq models of the sml encoder (all options) and
   of the strict parser on what the Go harness fed the real code, and compares.

   Case lines:
     E <strict> <asciiSingle> <sfq> <binLit> <hex indent> <S> <F> <W> <item> | <hex EncodeMessage text>
     P <hex text> {<w>:<hex token>:<float64 bits>}* | OK <n> {<S> <F> <W> <item>}*n
                                                     | ERR syntax <offset> | ERR construct
     Q I|U <bits> <hex token> | ok <v> / syntax / range        (strconv.ParseInt/ParseUint base 0)
   Item syntax as in the C15 driver. Float texts (E lines) and ParseFloat results (P lines) are
   Go's: they instantiate the strconv oracles of the models by table; a token without an entry is
   one ParseFloat rejects. *)

let split_bar line =
  match String.index_opt line '|' with
  | None -> failwith "no bar"
  | Some i -> (String.sub line 0 i, String.sub line (i + 1) (String.length line - i - 1))

let ftab : (int * string, z list) Hashtbl.t = Hashtbl.create 64
let qtab : (string, z list) Hashtbl.t = Hashtbl.create 16
let ptab : (int * string, z) Hashtbl.t = Hashtbl.create 64

let width_of = function "1" -> W1 | "2" -> W2 | "4" -> W4 | "8" -> W8 | s -> failwith ("width " ^ s)
let fwidth_of = function "4" -> F4 | "8" -> F8 | s -> failwith ("fwidth " ^ s)

let rec take_n n f toks acc =
  if n = 0 then (List.rev acc, toks) else
    let (x, rest) = f toks in take_n (n - 1) f rest (x :: acc)

let rec parse_item toks =
  match toks with
  | "E" :: r -> (IEmpty, r)
  | "L" :: n :: r -> let (cs, r') = take_n (int_of_string n) parse_item r [] in (IList cs, r')
  | "A" :: h :: r -> (IAscii (zbytes_of_hex h), r)
  | "J" :: h :: r -> (IJis8 (zbytes_of_hex h), r)
  | "W" :: h :: q :: r -> Hashtbl.replace qtab h (zbytes_of_hex q); (ILocal (zbytes_of_hex h), r)
  | "B" :: h :: r -> (IBinary (zbytes_of_hex h), r)
  | "T" :: s :: r ->
    let l = if s = "-" then [] else List.init (String.length s) (fun i -> s.[i] = '1') in (IBoolean l, r)
  | "I" :: w :: n :: r ->
    let (vs, r') = take_n (int_of_string n) (function v :: t -> (z_of_string v, t) | [] -> failwith "I") r [] in
    (IInt (width_of w, vs), r')
  | "U" :: w :: n :: r ->
    let (vs, r') = take_n (int_of_string n) (function v :: t -> (z_of_string v, t) | [] -> failwith "U") r [] in
    (IUint (width_of w, vs), r')
  | "F" :: w :: n :: r ->
    let one = function
      | v :: t ->
        (match String.index_opt v '/' with
         | Some i ->
           let bits = String.sub v 0 i and txt = String.sub v (i + 1) (String.length v - i - 1) in
           Hashtbl.replace ftab (int_of_string w, bits) (zbytes_of_hex txt);
           (z_of_string bits, t)
         | None -> failwith "F elem")
      | [] -> failwith "F" in
    let (vs, r') = take_n (int_of_string n) one r [] in
    (IFloat (fwidth_of w, vs), r')
  | t :: _ -> failwith ("item token " ^ t)
  | [] -> failwith "item: eof"

let fw_int = function F4 -> 4 | F8 -> 8
let ffmt w bits =
  match Hashtbl.find_opt ftab (fw_int w, z_to_string bits) with Some t -> t | None -> failwith "float oracle: no entry"
let quote s =
  match Hashtbl.find_opt qtab (hex_of_zbytes s) with Some t -> t | None -> failwith "quote oracle: no entry"
let fparse w tok = Hashtbl.find_opt ptab (fw_int w, hex_of_zbytes tok)

let rec show_item (x : item) : string =
  match x with
  | IEmpty -> "E"
  | IList cs -> String.concat " " (("L " ^ string_of_int (List.length cs)) :: List.map show_item cs)
  | IAscii s -> "A " ^ hex_of_zbytes s
  | IJis8 s -> "J " ^ hex_of_zbytes s
  | ILocal s -> "W " ^ hex_of_zbytes s
  | IBinary s -> "B " ^ hex_of_zbytes s
  | IBoolean l -> "T " ^ (if l = [] then "-" else String.concat "" (List.map (fun b -> if b then "1" else "0") l))
  | IInt (w, vs) -> String.concat " " (("I" ^ string_of_int (int_of_z (wbytes w))) :: string_of_int (List.length vs) :: List.map z_to_string vs)
  | IUint (w, vs) -> String.concat " " (("U" ^ string_of_int (int_of_z (wbytes w))) :: string_of_int (List.length vs) :: List.map z_to_string vs)
  | IFloat (w, vs) -> String.concat " " (("F" ^ string_of_int (fw_int w)) :: string_of_int (List.length vs) :: List.map z_to_string vs)

let show_msg (m : msg) =
  Printf.sprintf "%s %s %s %s" (z_to_string m.m_stream) (z_to_string m.m_function) (string_of_bool01 m.m_wbit) (show_item m.m_body)

let check _ln line =
  let (lhs, rhs) = split_bar line in
  let l = split_ws lhs and r = split_ws rhs in
  match l with
  | "E" :: st :: aq :: sfq :: bl :: ind :: s :: f :: w :: toks ->
    Hashtbl.reset ftab; Hashtbl.reset qtab;
    let (x, rest) = parse_item toks in
    if rest <> [] then Some "trailing tokens" else begin
      let o = { eo_strict = bool_of_string01 st; eo_ascii_single = bool_of_string01 aq; eo_sf_quote = z_of_string sfq;
                eo_binary_literal = bool_of_string01 bl; eo_indent = zbytes_of_hex ind } in
      let m = { m_stream = z_of_string s; m_function = z_of_string f; m_wbit = bool_of_string01 w; m_body = x } in
      let mt = hex_of_zbytes (encode_msg ffmt quote o m) in
      match r with
      | [g] -> if mt <> g then Some (Printf.sprintf "EncodeMessage model=%s impl=%s" mt g) else None
      | _ -> Some "bad rhs"
    end
  | "P" :: h :: tab ->
    Hashtbl.reset ptab; Hashtbl.reset ftab; Hashtbl.reset qtab;
    List.iter (fun e ->
        match String.split_on_char ':' e with
        | [w; tok; bits] -> Hashtbl.replace ptab (int_of_string w, tok) (z_of_string bits)
        | _ -> failwith "bad float table entry") tab;
    let text = zbytes_of_hex h in
    let model =
      match parse_strict fparse text with
      | POk (ms, _) -> String.concat " " (("OK " ^ string_of_int (List.length ms)) :: List.map show_msg ms)
      | PErr (PE_Construct, _) -> "ERR construct"
      | PErr (_, off) -> "ERR syntax " ^ z_to_string off
      | PFuel -> "FUEL" in
    (* the implementation side: re-render its trees through the same printer *)
    let impl =
      match r with
      | "OK" :: n :: toks ->
        let rec msgs k toks acc =
          if k = 0 then (if toks <> [] then failwith "trailing" else List.rev acc) else
            match toks with
            | s :: f :: w :: rest ->
              let (x, rest') = parse_item rest in
              msgs (k - 1) rest' ({ m_stream = z_of_string s; m_function = z_of_string f; m_wbit = bool_of_string01 w; m_body = x } :: acc)
            | _ -> failwith "bad msg" in
        let ms = msgs (int_of_string n) toks [] in
        String.concat " " (("OK " ^ n) :: List.map show_msg ms)
      | _ -> String.concat " " r in
    if model <> impl then Some (Printf.sprintf "ParseStrict model=[%s] impl=[%s]" model impl) else None
  | ["Q"; k; bits; tok] ->
    let b = z_of_int (int_of_string bits) and t = zbytes_of_hex tok in
    let res = if k = "I" then parse_int true b t else parse_uint true b t in
    let model = (match res with NOk x -> "ok " ^ z_to_string x | NSyntax -> "syntax" | NRange -> "range") in
    let obs = String.concat " " r in
    if model <> obs then Some (Printf.sprintf "strconv model=[%s] impl=[%s]" model obs) else None
  | _ -> Some "unparsable case line"

let () = run_cases Sys.argv.(1) check
