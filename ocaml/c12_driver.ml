(* C12 correspondence driver.

   T <op> <op> ... | <flags> <flags> ...
     the operation sequence the harness performed on the REAL API, in model syntax:
       new:<hex>                    the caller allocates a buffer (caller buffer #k, k counts up)
       write:<cv>:<i>:<v>           the caller overwrites element i of its buffer cv
       construct:<cv,cv,..>         a constructor is called with those buffers (object #o counts up)
       constructm:<cv,cv,..>        the same for a data message (body with a lazy, unfired encode memo)
       decode:<cv>:<A|T>:<skip>:<hl>    a copying decode entry point
       owned:<cv>:<A|T>:<skip>:<hl>     an ownership-transferring decode entry point
       get:<o>:<g>                  an accessor/serialiser returned a slice/array (new caller buffer)
       append:<o>:<g>:<cv>          an append helper wrote into caller buffer cv (new caller buffer)
       share:<o>                    a re-stamped / derived copy (new object)
       codec:<o|->                  the caller wraps object o in a DataMessageCodec (- = zero value); slot #k counts up
       unmarshal:<k>:<cv>:<A|T>:<skip>:<hl>   slot k's UnmarshalBinary(buffer cv): copying decode into a FRESH object, slot re-pointed
       build:<o>                    a DataMessageBuilder derived from o builds a fresh message (new object)
       obs:<o>                      observation point
     after the bar, for every obs in order: two bits "c0c1" = did the value observations / the
     serialised bytes of that object differ from those at its creation. The model computes the same
     bits from its heap.
   O <id> <id> ...   the Item() results (canonical identity numbers) seen by concurrent readers of one
                     shared decode state: the extracted monitor all_same must accept.              *)

let rec nat_of_int (i : int) : nat = if i <= 0 then O else S (nat_of_int (i - 1))

let split_bar line =
  match String.index_opt line '|' with
  | None -> failwith "no bar"
  | Some i -> (String.sub line 0 i, String.trim (String.sub line (i + 1) (String.length line - i - 1)))

let kind_of = function "A" -> KAlias | "T" -> KTyped | s -> failwith ("kind " ^ s)
let ni s = nat_of_int (int_of_string s)

let check _ln line =
  let (lhs, rhs) = split_bar line in
  match split_ws lhs with
  | "T" :: toks ->
    let cst = ref cinit in
    let base p = cst := cstep !cst (CBase p) in
    let created : (int * (z list * z list)) list ref = ref [] in   (* object -> observation at creation *)
    let nobj = ref 0 in
    let flags = ref [] in
    let note_new_objects () =
      let all = obs_all (!cst).cs_st in
      let n = List.length all in
      List.iteri (fun i o -> if i >= !nobj then created := (i, o) :: !created) all;
      nobj := n in
    List.iter (fun tok ->
        match String.split_on_char ':' tok with
        | ["new"; h] -> base (ONew (zbytes_of_hex h))
        | ["write"; cv; i; v] -> base (OWrite (ni cv, ni i, z_of_string v))
        | [("construct" | "constructm") as kw; cvs] ->
          let l = if cvs = "" then [] else List.map ni (String.split_on_char ',' cvs) in
          base (OConstruct (l, kw = "constructm")); note_new_objects ()
        | ["decode"; cv; k; skip; hl] -> base (ODecode (ni cv, kind_of k, ni skip, ni hl)); note_new_objects ()
        | ["owned"; cv; k; skip; hl] -> base (ODecodeOwned (ni cv, kind_of k, ni skip, ni hl)); note_new_objects ()
        | ["get"; o; g] -> base (OGet (ni o, ni g))
        | ["append"; o; g; cv] -> base (OAppend (ni o, ni g, ni cv))
        | ["share"; o] -> base (OShare (ni o)); note_new_objects ()
        | ["codec"; o] -> cst := cstep !cst (CCodec (if o = "-" then None else Some (ni o)))
        | ["unmarshal"; k; cv; kd; skip; hl] ->
          cst := cstep !cst (CUnmarshal (ni k, ni cv, kind_of kd, ni skip, ni hl)); note_new_objects ()
        | ["build"; o] -> cst := cstep !cst (CBuild (ni o)); note_new_objects ()
        | ["obs"; o] ->
          let o = int_of_string o in
          let (b0, b1) = (try List.assoc o !created with Not_found -> failwith "obs of an unknown object") in
          let n0 = obs (!cst).cs_st (nat_of_int o) O and n1 = obs (!cst).cs_st (nat_of_int o) (S O) in
          flags := ((if n0 = b0 then "0" else "1") ^ (if n1 = b1 then "0" else "1")) :: !flags
        | _ -> failwith ("op: " ^ tok)) toks;
    let model = String.concat " " (List.rev !flags) in
    if model <> rhs then Some (Printf.sprintf "aliasing model=[%s] impl=[%s]" model rhs) else None
  | "O" :: ids ->
    let ok = all_same (List.map z_of_string ids) in
    let m = string_of_bool01 ok in
    if m <> rhs then Some (Printf.sprintf "once monitor=[%s] harness=[%s]" m rhs)
    else if not ok then Some "concurrent readers saw different lazily-decoded items" else None
  | _ -> Some "unparsable case line"

let () = run_cases Sys.argv.(1) check
