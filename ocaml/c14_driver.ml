(* C14 correspondence driver: runs the extracted model of sml/parser.go (Sml/Parser.v) on every
   input the Go harness ran through the real parser in its resource-limited child, and compares.

   Case line:
     P <strict 0|1> <entry P|G|M|H> <shallow 0|1> <hex input> <float table> | <allocated bytes> <outcome>
   outcome (observed): OK n {M s f w item}*n | ERR syntax off line col | ERR nomsg | ERR other
                     | PANIC kind func | CRASH stack|oom|other | TIMEOUT
   float table: '-' or 'hex(tok):r32:r64;...' with r = s | r | <float64 bits>: the results of
   strconv.ParseFloat (code outside go-secs) for every token it accepts on this input.

   The model has three switches (Parser.cfg): quote_fix, cap_hint, depth_cap — the current code
   and the three proposed repairs. The driver accepts a run iff ONE assignment of the switches
   explains every case: per case it computes the set of assignments under which the model's
   outcome equals the observed one (and the model's allocation meter is compatible with the
   measured allocation), intersects over all cases, and reports the surviving assignment(s).
   On the pinned code that is (0,0,0); after a repair the corresponding switch flips. *)

let split_bar line =
  match String.index_opt line '|' with
  | None -> failwith "no bar"
  | Some i -> (String.sub line 0 i, String.sub line (i + 1) (String.length line - i - 1))

let rec nat_of_int_acc (i : int) (acc : nat) : nat = if i <= 0 then acc else nat_of_int_acc (i - 1) (S acc)
let nat_of_int i = nat_of_int_acc i O

let rec canon_item (b : Buffer.t) (it : item) : unit =
  let nums tag w l =
    Buffer.add_string b (Printf.sprintf "%s %d %d" tag (int_of_z w) (List.length l));
    List.iter (fun v -> Buffer.add_char b ' '; Buffer.add_string b (z_to_string v)) l in
  match it with
  | IEmpty -> Buffer.add_string b "E"
  | IList l ->
    Buffer.add_string b (Printf.sprintf "L %d" (List.length l));
    List.iter (fun c -> Buffer.add_char b ' '; canon_item b c) l
  | IAscii s -> Buffer.add_string b ("A " ^ hex_of_zbytes s)
  | IJis8 s -> Buffer.add_string b ("J " ^ hex_of_zbytes s)
  | ILocal s -> Buffer.add_string b ("W " ^ hex_of_zbytes s)
  | IBin s -> Buffer.add_string b ("B " ^ hex_of_zbytes s)
  | IBool l ->
    Buffer.add_string b "T ";
    if l = [] then Buffer.add_char b '-';
    List.iter (fun v -> Buffer.add_char b (if v then '1' else '0')) l
  | IInt (w, l) -> nums "I" w l
  | IUint (w, l) -> nums "U" w l
  | IFloat (w, l) -> nums "F" w l

let canon_msgs (shallow : bool) (ms : msg list) : string =
  let b = Buffer.create 256 in
  Buffer.add_string b (Printf.sprintf "OK %d" (List.length ms));
  List.iter (fun m ->
      Buffer.add_string b (Printf.sprintf " M %d %d %s " (int_of_z m.m_stream) (int_of_z m.m_function) (string_of_bool01 m.m_wbit));
      if shallow then Buffer.add_char b '*' else canon_item b m.m_item) ms;
  Buffer.contents b

let canon_res (shallow : bool) (r : msg list res) : string =
  match r with
  | ROk (ms, _) -> canon_msgs shallow ms
  | RErr (ESyntax (_, off, line, col), _) -> Printf.sprintf "ERR syntax %s %s %s" (z_to_string off) (z_to_string line) (z_to_string col)
  | RErr (EConstruct, _) -> "ERR other"
  | RErr (ENoMessage, _) -> "ERR nomsg"
  | RPanic _ -> "PANIC"
  | RFuel _ -> "FUEL"

let float_table (s : string) : (string, string * string) Hashtbl.t =
  let h = Hashtbl.create 16 in
  if s <> "-" then
    List.iter (fun e ->
        match String.split_on_char ':' e with
        | [k; a; b] -> Hashtbl.replace h k (a, b)
        | _ -> failwith "bad float table entry") (String.split_on_char ';' s);
  h

let parse_float_of (h : (string, string * string) Hashtbl.t) (bits : z) (tok : bytes) : numres =
  match Hashtbl.find_opt h (hex_of_zbytes tok) with
  | None -> NSyntax
  | Some (a, b) ->
    let r = if int_of_z bits = 32 then a else b in
    if r = "s" then NSyntax else if r = "r" then NRange else NOk (z_of_string r)

(* switches: bit 0 = quote_fix, bit 1 = depth_cap, bit 2 = cap_hint *)
let cfg_of (v : int) : cfg =
  { c_quote_fix = v land 1 <> 0; c_depth_cap = (if v land 2 <> 0 then Some max_list_depth else None); c_cap_hint = v land 4 <> 0 }

let surviving = ref 255
let n_panic = ref 0 and n_deep = ref 0 and n_hint = ref 0 and n_crash = ref 0
let max_depth_seen = ref 0 and max_steps_ratio = ref 0.0

let starts_with p s = String.length s >= String.length p && String.sub s 0 (String.length p) = p

let check _ln line =
  let (lhs, rhs) = split_bar line in
  match split_ws lhs with
  | ["P"; strict; entry; shallow; hx; ftab] ->
    let strict = bool_of_string01 strict and shallow = bool_of_string01 shallow in
    let input = zbytes_of_hex hx in
    let len = List.length input in
    let plen = z_of_int len in
    let pf = parse_float_of (float_table ftab) in
    let fuel = fuel_for_input input in   (* the fuel the theorems are stated with: 2 len + 2 *)
    let rhs = String.trim rhs in
    let (alloc_s, obs) =
      match String.index_opt rhs ' ' with
      | Some i -> (String.sub rhs 0 i, String.sub rhs (i + 1) (String.length rhs - i - 1))
      | None -> failwith "bad rhs" in
    let observed_alloc = int_of_string alloc_s in
    let run (v : int) : msg list res =
      let cf = cfg_of v in
      match entry with
      | "P" | "G" -> run_parse cf strict input plen pf fuel
      | "M" | "H" ->
        (match run_parse_one cf strict input plen pf fuel (entry = "H") with
         | ROk (m, st) -> ROk ([m], st)
         | RErr (e, st) -> RErr (e, st)
         | RPanic st -> RPanic st
         | RFuel st -> RFuel st)
      | _ -> failwith "entry" in
    let obs_key =
      if starts_with "PANIC" obs then "PANIC"
      else obs in
    (* which of the 8 switch assignments explain this case *)
    let memo = Array.make 4 None in
    let run (v : int) : msg list res =
      match memo.(v) with
      | Some r -> r
      | None -> let r = run v in memo.(v) <- Some r; r in
    let r0 = run 0 in
    let m0 = final_meters r0 in
    let depth0 = int_of_z m0.m_depth_max in
    if depth0 > !max_depth_seen then max_depth_seen := depth0;
    let steps = float_of_int (int_of_z m0.m_steps) /. (float_of_int ((len + 1) * (len + 1))) in
    if steps > !max_steps_ratio then max_steps_ratio := steps;
    let is_panic = (match r0 with RPanic _ -> true | _ -> false) in
    let sensitive_q = is_panic in
    let r1 = if sensitive_q then run 1 else r0 in
    let depth1 = int_of_z (final_meters r1).m_depth_max in
    let sensitive_d = depth0 > 64 || depth1 > 64 in
    if sensitive_q then incr n_panic;
    if sensitive_d then incr n_deep;
    let alloc_max0 = int_of_z m0.m_alloc_max in
    let sensitive_c = alloc_max0 > 8192 + 64 * len in
    if sensitive_c then incr n_hint;
    let crash = starts_with "CRASH" obs || starts_with "TIMEOUT" obs in
    if crash then incr n_crash;
    let mask = ref 0 in
    for v = 0 to 7 do
      let q = v land 1 and d = v land 2 in
      let r =
        if (not sensitive_q) && (not sensitive_d) then r0
        else if not sensitive_d then (if q <> 0 then r1 else r0)
        else if sensitive_q then run (v land 3)
        else run (v land 2) in   (* quote_fix cannot matter when the current model does not panic *)
      let m = final_meters r in
      let ok_outcome =
        if obs = "CRASH stack" then
          (* a fatal stack overflow is explained by a model run whose recursion depth is huge *)
          d = 0 && int_of_z m.m_depth_max >= 20000
        else if obs = "CRASH oom" then
          v land 4 = 0 && int_of_z m.m_alloc_max >= 1 lsl 30
        else if crash then false
        else canon_res shallow r = obs_key in
      let ok_alloc =
        if crash || obs_key = "PANIC" || not sensitive_c then true
        else if v land 4 = 0 then observed_alloc >= alloc_max0      (* uncapped: the hint was allocated *)
        else observed_alloc < alloc_max0 in                          (* capped: it was not *)
      if ok_outcome && ok_alloc then mask := !mask lor (1 lsl v)
    done;
    if !mask = 0 then
      Some (Printf.sprintf "no model variant explains: strict=%b entry=%s model(current)=[%s] alloc_max=%d depth_max=%d impl=[%d %s] input=%s"
              strict entry (let s = canon_res shallow r0 in if String.length s > 300 then String.sub s 0 300 else s)
              alloc_max0 depth0 observed_alloc (if String.length obs > 300 then String.sub obs 0 300 else obs)
              (if String.length hx > 200 then String.sub hx 0 200 else hx))
    else begin
      let s = !surviving land !mask in
      if s = 0 then
        Some (Printf.sprintf "switch assignments inconsistent across cases: so far %d, this case %d (bit v set = assignment v: 1 quote_fix, 2 depth_cap, 4 cap_hint) input=%s" !surviving !mask
                (if String.length hx > 200 then String.sub hx 0 200 else hx))
      else (surviving := s; None)
    end
  | _ -> Some "unparsable case line"

let () =
  (* inputs of 16 MB become lists of 16 M cells: let the major heap grow instead of collecting it over and over *)
  Gc.set { (Gc.get ()) with Gc.space_overhead = 1000; Gc.minor_heap_size = 8 * 1024 * 1024 };
  run_cases Sys.argv.(1) check;
  let names = List.filter (fun v -> !surviving land (1 lsl v) <> 0) [0;1;2;3;4;5;6;7] in
  Printf.printf "VARIANTS %s (assignment = quote_fix + 2*depth_cap + 4*cap_hint); sensitive cases: panic %d, depth>64 %d, hint>>len %d, crash %d; max model depth %d; max steps/(len+1)^2 %.3f\n"
    (String.concat "," (List.map string_of_int names)) !n_panic !n_deep !n_hint !n_crash !max_depth_seen !max_steps_ratio
