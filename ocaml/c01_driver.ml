(* C01 correspondence driver: evaluates the extracted Coq model (Secs2/Item.v, Encode.v, Decode.v)
   on the logical trees the Go harness built through the public constructors, and compares with
   what the real code did.

   Case line:  T <tree> | <err> <enclen> <bytes> <dec> <equal> <dirty> | <decoded tree>
   (dirty = 1 iff AppendTo over destinations with non-zero spare capacity gave prefix ++ ToBytes)
   Tree syntax (prefix, space separated): L<n> kids.. | B:<hex> A:<hex> J:<hex> W<lsh>:<hex>
   O:<0/1..> I<w>:<v,..> U<w>:<v,..> F<w>:<bits,..> E ; "<head>#<seed>,<count>" = generated leaf. *)

let two32 = z_of_string "4294967296"

(* unsigned 64-bit (held in an Int64) -> z *)
let z_of_u64 (x : int64) : z =
  let hi = Int64.to_int (Int64.shift_right_logical x 32) in
  let lo = Int64.to_int (Int64.logand x 0xFFFFFFFFL) in
  if hi = 0 then z_of_int lo else Z.add (Z.mul (z_of_int hi) two32) (z_of_int lo)

let z_of_i64 (x : int64) : z =
  if Int64.compare x 0L >= 0 then z_of_u64 x
  else if x = Int64.min_int then Z.opp (z_of_u64 x)
  else Z.opp (z_of_u64 (Int64.neg x))

let lcg (s : int64) : int64 = Int64.add (Int64.mul s 6364136223846793005L) 1442695040888963407L

let width_of_int = function 1 -> W1 | 2 -> W2 | 4 -> W4 | 8 -> W8 | _ -> failwith "width"
let int_of_width = function W1 -> 1 | W2 -> 2 | W4 -> 4 | W8 -> 8

(* expand "#seed,count" exactly as harness/cmd/c01/s2t.Expand does *)
let gen_list (count : int) (seed : int64) (f : int64 -> 'a) : 'a list =
  let s = ref seed in
  let acc = ref [] in
  for _ = 1 to count do
    s := lcg !s;
    acc := f !s :: !acc
  done;
  List.rev !acc

let split_on (c : char) (s : string) : string list = if s = "" then [] else String.split_on_char c s

let parse_leaf (tok : string) : item =
  let sep = try String.index tok ':' with Not_found -> (try String.index tok '#' with Not_found -> failwith ("leaf: " ^ tok)) in
  let head = String.sub tok 0 sep in
  let body = String.sub tok (sep + 1) (String.length tok - sep - 1) in
  let gen = tok.[sep] = '#' in
  let seed, count =
    if gen then (match String.split_on_char ',' body with
        | [a; b] -> (Int64.of_string ("0u" ^ a), int_of_string b)
        | _ -> failwith "gen")
    else (0L, 0) in
  let kind = head.[0] in
  let num = if String.length head > 1 then int_of_string (String.sub head 1 (String.length head - 1)) else 0 in
  let bytes () =
    if gen then gen_list count seed (fun s -> ztab.(Int64.to_int (Int64.shift_right_logical s 56)))
    else zbytes_of_hex body in
  match kind with
  | 'B' -> IBinary (bytes ())
  | 'A' -> IAscii (bytes ())
  | 'J' -> IJis8 (bytes ())
  | 'W' -> ILocalized (z_of_int num, bytes ())
  | 'O' ->
    if gen then IBoolean (gen_list count seed (fun s -> Int64.shift_right_logical s 63 = 1L))
    else IBoolean (List.init (String.length body) (fun i -> body.[i] = '1'))
  | 'I' ->
    let w = width_of_int num in
    if gen then IInt (w, gen_list count seed (fun s -> z_of_i64 (Int64.shift_right s (64 - 8 * num))))
    else IInt (w, List.map z_of_string (split_on ',' body))
  | 'U' ->
    let w = width_of_int num in
    if gen then IUint (w, gen_list count seed (fun s -> z_of_u64 (Int64.shift_right_logical s (64 - 8 * num))))
    else IUint (w, List.map z_of_string (split_on ',' body))
  | 'F' ->
    let w = width_of_int num in
    if gen then
      let mask = if num = 4 then Int64.lognot 0x00800000L else Int64.lognot (Int64.shift_left 1L 52) in
      IFloat (w, gen_list count seed (fun s -> z_of_u64 (Int64.logand (Int64.shift_right_logical s (64 - 8 * num)) mask)))
    else IFloat (w, List.map z_of_string (split_on ',' body))
  | _ -> failwith ("leaf kind: " ^ tok)

(* parse one tree from a token list; returns (citem, remaining tokens). A tree without decoded
   ("R:") parts is CPlain; "R:<hex>" is what the model's Decode returns on those bytes. *)
let rec parse_item (toks : string list) : citem * string list =
  match toks with
  | [] -> failwith "parse_item: end"
  | "E" :: tl -> (CPlain IEmpty, tl)
  | t :: tl when t.[0] = 'R' ->
    let bytes = zbytes_of_hex (String.sub t 2 (String.length t - 2)) in
    (match decode_c bytes with
     | Some c -> (c, tl)
     | None -> failwith "R: bytes do not decode in the model")
  | t :: tl when t.[0] = 'L' ->
    let n = int_of_string (String.sub t 1 (String.length t - 1)) in
    let rec kids k toks acc =
      if k = 0 then (List.rev acc, toks)
      else let (c, toks') = parse_item toks in kids (k - 1) toks' (c :: acc) in
    let (cs, tl') = kids n tl [] in
    if List.for_all (function CPlain _ -> true | _ -> false) cs
    then (CPlain (IList (List.map (function CPlain x -> x | _ -> assert false) cs)), tl')
    else (CList cs, tl')
  | t :: tl -> (CPlain (parse_leaf t), tl)

let quiet32 (u : int) : int =
  if u land 0x7f800000 = 0x7f800000 && u land 0x007fffff <> 0 then u lor 0x00400000 else u

(* canonical text of a model item: the syntax s2t.Show produces on the Go side *)
let hextab = Array.init 256 (fun i -> Printf.sprintf "%02x" i)

let rec show (b : Buffer.t) (x : item) : unit =
  if Buffer.length b > 0 then Buffer.add_char b ' ';
  let join f l = List.iteri (fun i v -> if i > 0 then Buffer.add_char b ','; Buffer.add_string b (f v)) l in
  let hex l = List.iter (fun v -> Buffer.add_string b hextab.(int_of_z v)) l in
  match x with
  | IEmpty -> Buffer.add_string b "E"
  | IList cs -> Buffer.add_string b (Printf.sprintf "L%d" (List.length cs)); List.iter (show b) cs
  | IBinary l -> Buffer.add_string b "B:"; hex l
  | IAscii l -> Buffer.add_string b "A:"; hex l
  | IJis8 l -> Buffer.add_string b "J:"; hex l
  | ILocalized (h, l) -> Buffer.add_string b (Printf.sprintf "W%d:" (int_of_z h)); hex l
  | IBoolean l -> Buffer.add_string b "O:"; List.iter (fun v -> Buffer.add_char b (if v then '1' else '0')) l
  | IInt (w, l) -> Buffer.add_string b (Printf.sprintf "I%d:" (int_of_width w)); join z_to_string l
  | IUint (w, l) -> Buffer.add_string b (Printf.sprintf "U%d:" (int_of_width w)); join z_to_string l
  | IFloat (W4, l) -> Buffer.add_string b "F4:"; join (fun v -> string_of_int (quiet32 (int_of_z v))) l
  | IFloat (w, l) -> Buffer.add_string b (Printf.sprintf "F%d:" (int_of_width w)); join z_to_string l

let show_string x = let b = Buffer.create 256 in show b x; Buffer.contents b

let digest (s : string) : string =
  if String.length s <= 4096 then s
  else Printf.sprintf "H%s:%d" (Digest.to_hex (Digest.string s)) (String.length s)

let hex_digest (l : z list) : string =
  if l = [] then "-" else begin
    let b = Buffer.create (2 * List.length l) in
    List.iter (fun v -> Buffer.add_string b hextab.(int_of_z v)) l;
    digest (Buffer.contents b)
  end

let rec nat_to_int = function O -> 0 | S n -> 1 + nat_to_int n

let split_bars (line : string) : string list = List.map String.trim (String.split_on_char '|' line)

let check _ln line =
  match split_bars line with
  | [lhs; mid; obs] when String.length lhs > 1 && lhs.[0] = 'Q' ->
    (match split_ws lhs with
     | "Q" :: toks ->
       let (cx, r1) = parse_item toks in
       let (cy, r2) = parse_item (split_ws mid) in
       let x = erase cx and y = erase cy in
       if r1 <> [] || r2 <> [] then Some "trailing tokens in tree"
       else
         let m = string_of_bool01 (equal x y) in
         if m <> obs then Some (Printf.sprintf "Equal: model=%s impl=%s" m obs)
         else if equal y x <> equal x y then Some "model equal not symmetric"
         else None
     | _ -> Some "unparsable Q line")
  | [lhs; mid; obs_tree] ->
    (match split_ws lhs with
     | "T" :: toks ->
       let (cx, rest) = parse_item toks in
       if rest <> [] then Some "trailing tokens in tree" else
       let mixed = (match cx with
        | CPlain _ -> None
        | _ ->
          (* a tree with decoded children: bytes, length, round trip through the mixed model *)
          (match split_ws mid with
           | err :: enclen :: bytes :: dec :: equal_ :: dirty when List.length dirty <= 1 ->
             if dirty = ["0"] then Some "AppendTo over a destination with non-zero spare capacity: impl differs; model: dst ++ encode x (C01_append)"
             else if err = "1" then Some "impl: constructor error on a tree with decoded children"
             else if not (wf_c cx) then Some "model: tree with decoded children is not well-formed"
             else begin
               let enc = encode_c cx in
               let (m_dec, m_equal, m_tree) =
                 match decode enc with
                 | Ok (y, []) -> ("ok", string_of_bool01 (equal (erase cx) y), digest (show_string y))
                 | Ok (_, _) -> ("trailing", "0", "-")
                 | Err _ -> ("err", "0", "-") in
               if hex_digest enc <> bytes then Some (Printf.sprintf "ToBytes (decoded children): model=%s impl=%s" (hex_digest enc) bytes)
               else if z_to_string (encoded_len_c cx) <> enclen then Some "EncodedLen (decoded children) differs"
               else if m_dec <> dec || m_equal <> equal_ || m_tree <> obs_tree then
                 Some (Printf.sprintf "round trip (decoded children): model=%s/%s/%s impl=%s/%s/%s" m_dec m_equal m_tree dec equal_ obs_tree)
               else None
             end
           | _ -> Some "unparsable observation")) in
       if (match cx with CPlain _ -> false | _ -> true) then mixed else begin
         let x = erase cx in
         let model_err = not (ctor_ok x) in
         match split_ws mid with
         | err :: enclen :: bytes :: dec :: equal_ :: dirty when List.length dirty <= 1 ->
           if dirty = ["0"] then Some "AppendTo over a destination with non-zero spare capacity: impl differs; model: dst ++ encode x (C01_append)"
           else if err = "1" then (if model_err then None else Some "impl: constructor error; model: error-free item")
           else if model_err then Some "impl: error-free; model: constructor must refuse (size limit)"
           else begin
             let enc = encode x in
             let small = List.compare_length_with enc 2000 < 0 in
             let m_bytes = hex_digest enc in
             let m_len = z_to_string (encoded_len x) in
             let (m_dec, m_equal, m_tree) =
               match decode enc with
               | Ok (y, []) -> ("ok", string_of_bool01 (equal x y), digest (show_string y))
               | Ok (_, _) -> ("trailing", "0", "-")
               | Err _ -> ("err", "0", "-") in
             if m_bytes <> bytes then Some (Printf.sprintf "ToBytes: model=%s impl=%s" m_bytes bytes)
             else if small && hex_digest (to_bytes x) <> bytes then Some "AppendTo-threaded model differs"
             else if small && hex_digest (append_to x [ztab.(7)]) <> digest ("07" ^ (if bytes = "-" then "" else bytes)) then Some "append_to prefix model differs"
             else if m_len <> enclen then Some (Printf.sprintf "EncodedLen: model=%s impl=%s" m_len enclen)
             else if m_dec <> dec then Some (Printf.sprintf "Decode status: model=%s impl=%s" m_dec dec)
             else if m_equal <> equal_ then Some (Printf.sprintf "Equal: model=%s impl=%s" m_equal equal_)
             else if m_tree <> obs_tree then Some (Printf.sprintf "decoded tree: model=%s impl=%s" m_tree obs_tree)
             else if Z.eqb (Coq_secs2.headerLen (zlen enc)) (header_len (zlen enc)) = false then Some "generated headerLen differs from model"
             else None
           end
         | _ -> Some "unparsable observation"
       end
     | _ -> Some "unparsable case line")
  | _ -> Some "unparsable case line (bars)"

let trunc (s : string) : string = if String.length s > 400 then String.sub s 0 400 ^ "..." else s

let () = run_cases Sys.argv.(1) (fun ln line -> match check ln line with None -> None | Some m -> Some (trunc m))
