(* C06 / C07 correspondence driver (ocaml/c07_driver.ml is the same text).

   Case lines written by harness/cmd/c06 and harness/cmd/c07:

     P <b2> <b3> | <0|1>                         isSecondaryReply on a data header
     G <start> <k> | v1 .. vk                    k draws of the system-bytes generator from counter <start>
     S <T3> <T6> <NH> <actions> | <log>          deterministic scenario: the log produced by the model on
                                                 the action list must EQUAL the recorded log
     H <T3> <T6> <NH> | <log>                    concurrent history: ok_C06 must accept the recorded log
     K <T3> <T6> <NH> | <log>                    same, peer also reuses live system bytes in control
                                                 responses
     E <T3> <T6> <NH> | <log>                    C07 e2e history: ok_C07 must accept the recorded log
     T <T3> <T6> <NH> <actions> | <log>          C07 deterministic scenario (equality, as S)

   Log entries are separated by " ; ":
     S id kind <frame> | R id <result> elapsed | V gen origin <frame> | P n <frame> | H h n |
     A origin <result> | B | C <NC|NS|SEL> <0|1> | M drops | U gen | D gen
   <frame> = sid b2 b3 ptype stype sys bodyhex      <result> = ok- | okf n <frame> | rej r | t3 | t6 |
     closed | ctx | notsel | notopen | werr
   Actions: N U X T F B C M D Q0 Q1 | K d | P <frame> | S id kind <frame> | G id <choice> | Z id *)

let split_bar line =
  match String.index_opt line '|' with
  | None -> failwith "no bar"
  | Some i -> (String.sub line 0 i, String.sub line (i + 1) (String.length line - i - 1))

let split_semi (s : string) : string list list =
  List.filter (fun l -> l <> []) (List.map split_ws (String.split_on_char ';' s))

let frame_of = function
  | sid :: b2 :: b3 :: pt :: st :: sys :: body :: rest ->
    ({ f_sid = z_of_string sid; f_b2 = z_of_string b2; f_b3 = z_of_string b3; f_pt = z_of_string pt;
       f_st = z_of_string st; f_sys = z_of_string sys; f_body = zbytes_of_hex body }, rest)
  | _ -> failwith "bad frame"

let frame_str f =
  Printf.sprintf "%s %s %s %s %s %s %s" (z_to_string f.f_sid) (z_to_string f.f_b2) (z_to_string f.f_b3)
    (z_to_string f.f_pt) (z_to_string f.f_st) (z_to_string f.f_sys) (hex_of_zbytes f.f_body)

let kind_of = function
  | "KSync" -> KSync | "KAsync" -> KAsync | "KReply" -> KReply | "KForward" -> KForward
  | "KForwardAsync" -> KForwardAsync | "KCtl" -> KCtl | s -> failwith ("kind: " ^ s)
let kind_str = function
  | KSync -> "KSync" | KAsync -> "KAsync" | KReply -> "KReply" | KForward -> "KForward"
  | KForwardAsync -> "KForwardAsync" | KCtl -> "KCtl"

let result_of toks =
  match toks with
  | "ok-" :: r -> (ROk None, r)
  | "okf" :: n :: r -> let (f, r') = frame_of r in (ROk (Some (z_of_string n, f)), r')
  | "rej" :: x :: r -> (RRejected (z_of_string x), r)
  | "t3" :: r -> (RT3, r) | "t6" :: r -> (RT6, r) | "closed" :: r -> (RConnClosed, r)
  | "ctx" :: r -> (RCtxErr, r) | "notsel" :: r -> (RNotSelected, r) | "notopen" :: r -> (RNotOpen, r)
  | "werr" :: r -> (RWriteErr, r)
  | x :: _ -> failwith ("result: " ^ x)
  | [] -> failwith "result: empty"
let result_str = function
  | ROk None -> "ok-"
  | ROk (Some (n, f)) -> Printf.sprintf "okf %s %s" (z_to_string n) (frame_str f)
  | RRejected r -> "rej " ^ z_to_string r
  | RT3 -> "t3" | RT6 -> "t6" | RConnClosed -> "closed" | RCtxErr -> "ctx" | RNotSelected -> "notsel"
  | RNotOpen -> "notopen" | RWriteErr -> "werr"

let cstate_of = function "NC" -> NC | "NS" -> NS | "SEL" -> SEL | s -> failwith ("cstate: " ^ s)
let cstate_str = function NC -> "NC" | NS -> "NS" | SEL -> "SEL"

let obs_of toks =
  match toks with
  | "S" :: id :: k :: r -> let (f, _) = frame_of r in OStart (z_of_string id, kind_of k, f)
  | "R" :: id :: r ->
    let (res, r') = result_of r in
    (match r' with [el] -> ORet (z_of_string id, res, z_of_string el) | _ -> failwith "bad R")
  | "V" :: g :: o :: r -> let (f, _) = frame_of r in OPeerRecv (z_of_string g, z_of_string o, f)
  | "P" :: n :: r -> let (f, _) = frame_of r in OPeerSent (z_of_string n, f)
  | ["H"; h; n] -> OHandler (z_of_string h, z_of_string n)
  | "A" :: o :: r -> let (res, _) = result_of r in OAsyncErr (z_of_string o, res)
  | ["B"] -> OBarrier
  | ["C"; s; o] -> OCond (cstate_of s, bool_of_string01 o)
  | ["M"; d] -> OMetric (z_of_string d)
  | ["U"; g] -> OGenUp (z_of_string g)
  | ["D"; g] -> OGenDown (z_of_string g)
  | x :: _ -> failwith ("obs: " ^ x)
  | [] -> failwith "obs: empty"

(* canonical text of an observation for equality; elapsed is not compared *)
let obs_str o =
  match o with
  | OStart (id, k, f) -> Printf.sprintf "S %s %s %s" (z_to_string id) (kind_str k) (frame_str f)
  | ORet (id, r, _) -> Printf.sprintf "R %s %s" (z_to_string id) (result_str r)
  | OPeerRecv (g, o, f) -> Printf.sprintf "V %s %s %s" (z_to_string g) (z_to_string o) (frame_str f)
  | OPeerSent (n, f) -> Printf.sprintf "P %s %s" (z_to_string n) (frame_str f)
  | OHandler (h, n) -> Printf.sprintf "H %s %s" (z_to_string h) (z_to_string n)
  | OAsyncErr (o, r) -> Printf.sprintf "A %s %s" (z_to_string o) (result_str r)
  | OBarrier -> "B"
  | OCond (s, o) -> Printf.sprintf "C %s %s" (cstate_str s) (string_of_bool01 o)
  | OMetric d -> "M " ^ z_to_string d
  | OGenUp g -> "U " ^ z_to_string g
  | OGenDown g -> "D " ^ z_to_string g

let choice_of = function
  | "go" -> CGo | "wok" -> CWriteOk | "wfail" -> CWriteFail | "chan" -> CChan | "timer" -> CTimer
  | "gen" -> CGenDone | "ctx" -> CCtx | "eok" -> CEnqOk | "eclosed" -> CEnqClosed | "ectx" -> CEnqCtx
  | s -> failwith ("choice: " ^ s)

let action_of toks =
  match toks with
  | ["N"] -> ANewGen | ["U"] -> AConnUp | ["X"] -> ASupDown | ["T"] -> ATeardown | ["F"] -> AFault
  | ["B"] -> ABarrier | ["C"] -> ACond | ["M"] -> AMetric | ["D"] -> ADispatch
  | ["Q0"] -> ADrain false | ["Q1"] -> ADrain true
  | ["K"; d] -> ATick (z_of_string d)
  | "P" :: r -> let (f, _) = frame_of r in APeer f
  | "S" :: id :: k :: r -> let (f, _) = frame_of r in AStart (z_of_string id, kind_of k, f)
  | ["G"; id; c] -> AStep (z_of_string id, choice_of c)
  | ["Z"; id] -> ACancel (z_of_string id)
  | x :: _ -> failwith ("action: " ^ x)
  | [] -> failwith "action: empty"

let internal_base = z_of_string "1000000"

(* normalisation applied to both logs before comparing them for equality:
   results of library-internal control transactions are not observable; consecutive D entries of
   one generation are one lifecycle move *)
let normalise (os : obs list) : obs list =
  let os = List.filter (fun o -> match o with ORet (id, _, _) -> Z.ltb id internal_base | _ -> true) os in
  let rec dd = function
    | OGenDown a :: (OGenDown b :: _ as r) when Z.eqb a b -> dd r
    | x :: r -> x :: dd r
    | [] -> [] in
  dd os

let obs_equal (m : obs) (i : obs) : bool =
  match m, i with
  | OStart (a, k, f), OStart (b, k', g) when Z.eqb g.f_sys (z_of_string "-1") ->
    Z.eqb a b && k = k' && frame_eqb { f with f_sys = g.f_sys } g
  | _ -> obs_str m = obs_str i

(* the CURRENT step function: the sender ignores a routed control response (fx) and the registry is
   data-only for data transactions (dW) *)
let cfg_of t3 t6 nh = { t3 = z_of_string t3; t6 = z_of_string t6; nH = z_of_string nh; dW = true }

let equal_logs (model : obs list) (impl : obs list) : string option =
  let rec go i a b =
    match a, b with
    | [], [] -> None
    | x :: a', y :: b' -> if obs_equal x y then go (i + 1) a' b'
      else Some (Printf.sprintf "entry %d: model=[%s] impl=[%s]" i (obs_str x) (obs_str y))
    | x :: _, [] -> Some (Printf.sprintf "entry %d: model=[%s] impl=<end>" i (obs_str x))
    | [], y :: _ -> Some (Printf.sprintf "entry %d: model=<end> impl=[%s]" i (obs_str y)) in
  go 0 model impl

let scenario cfg acts impl : string option =
  let acts = List.map action_of (split_semi acts) in
  let impl = normalise (List.map obs_of (split_semi impl)) in
  match run true cfg (init Z0) acts with
  | None -> Some "model: action list not enabled"
  | Some (_, os) -> equal_logs (normalise os) impl

(* run a monitor over a recorded log; [tolerate] names failures that are a listed known finding *)
let judge (chk : mon -> obs -> bool) (explain : mon -> obs -> string)
    (tolerate : mon -> obs -> bool) (os : obs list) : string option =
  let rec go i m = function
    | [] -> None
    | o :: r ->
      if chk m o || tolerate m o then go (i + 1) (mon_upd m o) r
      else Some (Printf.sprintf "monitor rejects entry %d [%s]: %s" i (obs_str o) (explain m o)) in
  go 0 mon0 os

let explain06 cfg m o =
  String.concat "," (List.filter (fun s -> s <> "")
    [ (if chk_outcome cfg m o then "" else "outcome");
      (if chk_uniq m o then "" else "sysbytes-unique");
      (if chk_recip cfg m o then "" else "unique-recipient") ])

let explain07 m o =
  String.concat "," (List.filter (fun s -> s <> "")
    [ (if chk_gate m o then "" else "gate"); (if chk_declared m o then "" else "declared-condition");
      (if chk_inbound m o then "" else "inbound/pipeline") ])

let check _ln line =
  let (lhs, rhs) = split_bar line in
  match split_ws lhs with
  | ["P"; b2; b3] ->
    let f = { f_sid = Z0; f_b2 = z_of_string b2; f_b3 = z_of_string b3; f_pt = Z0; f_st = Z0; f_sys = Z0; f_body = [] } in
    let m = string_of_bool01 (is_secondary f) in
    let obs = String.concat " " (split_ws rhs) in
    if m <> obs then Some (Printf.sprintf "is_secondary model=%s impl=%s" m obs) else None
  | ["G"; start; _k] ->
    let start = z_of_string start in
    let vs = split_ws rhs in
    let rec go i = function
      | [] -> None
      | v :: r ->
        let m = z_to_string (key_of (Z.add start (z_of_int i))) in
        if m <> v then Some (Printf.sprintf "sysbytes draw %d: model=%s impl=%s" i m v) else go (i + 1) r in
    go 1 vs
  | ("S" | "T") :: t3 :: t6 :: nh :: acts -> scenario (cfg_of t3 t6 nh) (String.concat " " acts) rhs
  | ["H"; t3; t6; nh] ->
    let cfg = cfg_of t3 t6 nh in
    judge (chk_C06 cfg) (explain06 cfg) (fun _ _ -> false) (List.map obs_of (split_semi rhs))
  | ["K"; t3; t6; nh] ->
    let cfg = cfg_of t3 t6 nh in
    judge (chk_C06 cfg) (explain06 cfg) (fun _ _ -> false) (List.map obs_of (split_semi rhs))
  | ["E"; _; _; _] ->
    judge chk_C07 explain07 (fun _ _ -> false) (List.map obs_of (split_semi rhs))
  | _ -> Some "unparsable case line"

let () = run_cases Sys.argv.(1) check
