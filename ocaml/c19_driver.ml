(* C19 correspondence driver: evaluates the extracted Coq model on the inputs the Go harness ran
   through the real code and compares with what the code did.

   Case lines:
     F <suppress> <recvNow> <sentAt> <inflight> <fails> <recvAtLastFail> | <newFails> <newRecv> <credited>
     R <suppress> <inflight> <recvNow> <sentAt> | <bool>
     L <threshold> <suppress> <k> {<preInfl> <fail> <sentAt> <recvNow> <infl> <recvFinal> <inflFinal>}*k | {<suppressed> <send> <err> <credited> <down>}*
     T <threshold> <suppress> <k> {<active> <preInfl> <fail> <sentAt> <recvNow> <infl> <recvFinal> <inflFinal>}*k | {...}*
       (timed run of the real loop: <active> = one of our own writes landed inside the rule-1 window)
*)
let split_bar line =
  match String.index_opt line '|' with
  | None -> failwith "no bar"
  | Some i -> (String.sub line 0 i, String.sub line (i + 1) (String.length line - i - 1))

let check _ln line =
  let (lhs, rhs) = split_bar line in
  let l = split_ws lhs and r = split_ws rhs in
  match l with
  | "F" :: sup :: a :: b :: c :: d :: e :: [] ->
    let sup = bool_of_string01 sup in
    let a = z_of_string a and b = z_of_string b and c = z_of_string c and d = z_of_string d and e = z_of_string e in
    let ((f1, r1), c1) = failure_step sup a b c d e in
    let ((f2, r2), c2) = Coq_hsmsss.linktestFailureStep sup a b c d e in
    let model = Printf.sprintf "%s %s %s" (z_to_string f1) (z_to_string r1) (string_of_bool01 c1) in
    let gen = Printf.sprintf "%s %s %s" (z_to_string f2) (z_to_string r2) (string_of_bool01 c2) in
    let obs = String.concat " " r in
    if model <> obs then Some (Printf.sprintf "failure_step model=[%s] impl=[%s]" model obs)
    else if gen <> obs then Some (Printf.sprintf "failure_step generated=[%s] impl=[%s]" gen obs)
    else None
  | "R" :: sup :: a :: b :: c :: [] ->
    let sup = bool_of_string01 sup in
    let a = z_of_string a and b = z_of_string b and c = z_of_string c in
    let m = string_of_bool01 (disconnect_recheck sup a b c) in
    let g = string_of_bool01 (Coq_hsmsss.linktestDisconnectRecheck sup a b c) in
    let obs = String.concat " " r in
    if m <> obs then Some (Printf.sprintf "recheck model=[%s] impl=[%s]" m obs)
    else if g <> obs then Some (Printf.sprintf "recheck generated=[%s] impl=[%s]" g obs)
    else None
  | ("L" | "T" as kind) :: th :: sup :: k :: rest ->
    let th = z_of_string th and sup = bool_of_string01 sup and k = int_of_string k in
    let rec obs_of n rest acc =
      if n = 0 then List.rev acc else
        let (act, rest) = if kind = "T" then (match rest with a :: tl -> (bool_of_string01 a, tl) | [] -> failwith "bad obs")
                          else (false, rest) in
        match rest with
        | pi :: fl :: sa :: rn :: inf :: rf :: iff :: tl ->
          let o = { o_active = act; o_pre_inflight = z_of_string pi; o_fail = bool_of_string01 fl;
                    o_sent_at = z_of_string sa; o_recv_now = z_of_string rn; o_inflight = z_of_string inf;
                    o_recv_final = z_of_string rf; o_inflight_final = z_of_string iff } in
          obs_of (n - 1) tl (o :: acc)
        | _ -> failwith "bad obs"
    in
    let os = obs_of k rest [] in
    let outs = run sup th { fails = Z0; recv_at_last_fail = Z0 } os in
    let model = String.concat " " (List.map (fun o ->
        Printf.sprintf "%s %s %s %s %s" (string_of_bool01 o.io_suppressed) (string_of_bool01 o.io_sent)
          (string_of_bool01 o.io_err) (z_to_string o.io_credited) (string_of_bool01 o.io_down)) outs) in
    let obs = String.concat " " r in
    if model <> obs then Some (Printf.sprintf "run model=[%s] impl=[%s]" model obs) else None
  | _ -> Some "unparsable case line"

let () = run_cases Sys.argv.(1) check
