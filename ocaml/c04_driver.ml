(* C04 correspondence driver: evaluates the extracted Coq model (Hsms/Frame.v, Hsms/Reader.v) on the
   inputs the Go harness ran through the real code and compares with what the code did.

   Case lines:
     X <bytes> | <DecodeHSMSMessage> | <DecodeHSMSPayload> | <DecodeOwnedHSMSPayload> | <decodeOwnedFrame> | <DataMessageCodec.UnmarshalBinary>
         each result: PANIC | E <H|B|P|S> | OK D <hdr> <body> | OK C <hdr> <reply>   (codec: E C = decodes to a control message)
         (model side: the INSTRUMENTED twins; the driver also checks twin = plain function and
          acceptance = wf_frameb / wf_payloadb, and the SType set against the regenerated IsValidSType)
     K <frame> <bodyok> <k> <op>*k | <obs>*k | <holder hdr>*
         op = item:<h> | err:<h> | stamp:<h>:sid:<n> | stamp:<h>:sys:a,b,c,d | stamp:<h>:id:<n>
         obs = 1 | 0 | -          (body decodes / does not / no observation)
     S <t8> <k> (<gap> <bytes>)*k <E<gap>|Z> | (A<n> | F<frame>)* (X<T|E|L> | I)
*)

let split_bars line = List.map String.trim (String.split_on_char '|' line)
let norm s = String.concat " " (split_ws s)
let zs = z_of_string
let hx = hex_of_zbytes
let b01 = string_of_bool01

let derr_s = function
  | ETooShort | ELenSmall | ELenMismatch -> "H"
  | ELenBig -> "B"
  | EPType -> "P"
  | ESType -> "S"

let render_msg m =
  match m with
  | MData d -> Printf.sprintf "D %s %s" (hx (hdr_bytes d.d_hdr)) (hx d.d_body)
  | MCtrl c -> Printf.sprintf "C %s %s" (hx (hdr_bytes c.c_hdr)) (b01 c.c_reply)

let render_res r = match r with Ok m -> "OK " ^ render_msg m | Err e -> "E " ^ derr_s e
let render_chk r = match r with Panic -> "PANIC" | Val v -> render_res v

let after_colon s =
  let i = String.index s ':' in
  (String.sub s 0 i, String.sub s (i + 1) (String.length s - i - 1))

let parse_sys s =
  match String.split_on_char ',' s with
  | [a; b; c; d] -> (((zs a, zs b), zs c), zs d)
  | _ -> failwith "sys"

let rec nat_of_int i = if i = 0 then O else S (nat_of_int (i - 1))

let cop_of tok =
  let (k, v) = after_colon tok in
  match k with
  | "item" -> CItem (nat_of_int (int_of_string v))
  | "err" -> CDecodeErr (nat_of_int (int_of_string v))
  | "stamp" ->
    let (h, rest) = after_colon v in
    let (sk, sv) = after_colon rest in
    let st = match sk with
      | "sid" -> SetSid (zs sv)
      | "sys" -> SetSys (parse_sys sv)
      | "id" -> SetId (zs sv)
      | _ -> failwith "stamp kind" in
    CStamp (nat_of_int (int_of_string h), st)
  | _ -> failwith "cell op"

let rec take n l = if n = 0 then [] else match l with [] -> [] | x :: t -> x :: take (n - 1) t
let rec drop n l = if n = 0 then l else match l with [] -> [] | _ :: t -> drop (n - 1) t

let render_event e =
  match e with
  | EvAlloc n -> "A" ^ z_to_string n
  | EvFrame f -> "F" ^ hx f
  | EvDrop DLenSmall | EvDrop DLenBig -> "XL"
  | EvDrop DT8 -> "XT"
  | EvDrop DEof -> "XE"
  | EvIdle -> "I"

let check _ln line =
  match split_bars line with
  | lhs :: obs ->
    (match split_ws lhs with
     | ["X"; h] ->
       let bs = zbytes_of_hex h in
       let m = decode_message_chk frame_cap bs and p = decode_payload_chk frame_cap bs and o = decode_owned_chk bs in
       (* DataMessageCodec.UnmarshalBinary: the whole-buffer decoder, data messages only *)
       let codec = match m with
         | Val (Ok (MCtrl _)) -> "E C"
         | _ -> render_chk m in
       let model = [render_chk m; render_chk p; render_chk p; render_chk o; codec] in
       let obs = List.map norm obs in
       if model <> obs then Some (Printf.sprintf "decode case=[%s] model=[%s] impl=[%s]" h (String.concat " | " model) (String.concat " | " obs))
       else begin
         (* internal consistency of the model on this input (each is also a theorem) *)
         let plain_m = decode_message frame_cap bs and plain_p = decode_payload frame_cap bs in
         let acc r = match r with Ok _ -> true | Err _ -> false in
         if render_chk m <> render_res plain_m || render_chk p <> render_res plain_p then Some "model: instrumented twin differs from the plain decoder"
         else if acc plain_m <> wf_frameb frame_cap bs then Some "model: acceptance differs from wf_frame"
         else if acc plain_p <> wf_payloadb frame_cap bs then Some "model: payload acceptance differs from wf_payload"
         else begin
           (* the SType set the model's decoder uses vs the regenerated IsValidSType *)
           match bs with
           | _ :: _ :: _ :: _ :: _ :: _ :: _ :: _ :: pt :: st :: _ when acc plain_m || (match plain_m with Err ESType -> true | _ -> false) ->
             if Z.eqb pt Z0 && (acc plain_m <> Coq_hsms.coq_IsValidSType st) then Some "regenerated IsValidSType disagrees with the decoder's SType set" else None
           | _ -> None
         end
       end
     | "K" :: frame :: flag :: k :: ops ->
       let flag = bool_of_string01 flag in
       (match decode_message frame_cap (zbytes_of_hex frame) with
        | Ok (MData d) ->
          let ops = List.map cop_of (take (int_of_string k) ops) in
          let (f, rs) = crun (fun _ -> flag) (family_of d) ops in
          let model_obs = String.concat " " (List.map (fun r -> match r with None -> "-" | Some b -> b01 b) rs) in
          let model_hdrs = String.concat " " (List.map (fun h -> hx (hdr_bytes h)) f.f_holders) in
          (match obs with
           | [o; hs] ->
             if norm o <> model_obs then Some (Printf.sprintf "cell observations model=[%s] impl=[%s]" model_obs (norm o))
             else if norm hs <> model_hdrs then Some (Printf.sprintf "cell holders model=[%s] impl=[%s]" model_hdrs (norm hs))
             else None
           | _ -> Some "bad K line")
        | _ -> Some "K: the frame is not a data frame in the model")
     | "S" :: t8 :: k :: rest ->
       let k = int_of_string k in
       let rec segs n l acc =
         if n = 0 then (List.rev acc, l) else
           match l with
           | g :: h :: tl -> segs (n - 1) tl ((zs g, zbytes_of_hex h) :: acc)
           | _ -> failwith "bad segment list" in
       let (sg, tl) = segs k rest [] in
       let fin = match tl with
         | ["Z"] -> FinSilent
         | [e] when String.length e > 1 && e.[0] = 'E' -> FinEof (zs (String.sub e 1 (String.length e - 1)))
         | _ -> failwith "bad script end" in
       let ev = run (zs t8) frame_cap sg fin in
       let model = String.concat " " (List.map render_event ev) in
       let o = norm (String.concat " " obs) in
       if model <> o then begin
         let cut s = if String.length s > 300 then String.sub s 0 300 ^ "..." else s in
         Some (Printf.sprintf "reader script=[%s] model=[%s] impl=[%s]" (cut (norm lhs)) (cut model) (cut o))
       end else begin
         (* whenever no T8 drop occurred the run must equal the reference parse (a theorem; checked) *)
         let eof = (match fin with FinEof _ -> true | FinSilent -> false) in
         if not (has_t8_drop ev) && ev <> spec_events frame_cap (stream_of_segs sg) eof then Some "model: run differs from the reference parse although no T8 drop occurred"
         else None
       end
     | _ -> Some "unparsable case line")
  | [] -> Some "empty line"

let () = run_cases Sys.argv.(1) check
