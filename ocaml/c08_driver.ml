(* C08 correspondence driver: replays every frame sequence the Go harness drove through a REAL
   hsmsss connection on the extracted Coq model (Hsms/Responder.v) and compares, frame by frame,
   the frames the library sent back (byte for byte), the handler invocations, the link effect and
   the selected state. The extracted E37 table (Hsms/ResponderSpec.v) is evaluated on the same
   sequence and must agree as well.

   Q <active> <sid> <validate> <equip> <ctr0> | f ; f ; ... | o0 ; o1 ; ...
   P <active> <sid> <validate> <equip> <ctr0> | e ; e ; ... | o ; o ; ...      (see harness/cmd/c08/main.go) *)

let frame_of_toks = function
  | [sid; b2; b3; pt; st; sys; body] ->
    { f_sid = z_of_string sid; f_b2 = z_of_string b2; f_b3 = z_of_string b3; f_pt = z_of_string pt;
      f_st = z_of_string st; f_sys = z_of_string sys; f_body = zbytes_of_hex body }
  | _ -> failwith "bad frame"

let hex_of_frame f = hex_of_zbytes (wire f)

let out_tokens (os : out list) : string list =
  List.filter_map (function Send f -> Some ("S" ^ hex_of_frame f) | Deliver _ -> None) os
  @ List.filter_map (function Deliver f -> Some ("H" ^ hex_of_frame f) | Send _ -> None) os

let eff_s = function Keep -> "K" | Down -> "D"

let split_on s c = List.map String.trim (String.split_on_char c s)

let three line =
  match String.split_on_char '|' line with
  | [a; b; c] -> (a, b, c)
  | _ -> failwith "expected two bars"

let cfg_of = function
  | act :: sid :: v :: e :: ctr0 :: [] ->
    ({ c_active = bool_of_string01 act; c_sid = z_of_string sid; c_validate = bool_of_string01 v;
       c_equip = bool_of_string01 e }, z_of_string ctr0)
  | _ -> failwith "bad cfg"

let norm s = String.concat " " (split_ws s)

let check_q lhs mid rhs =
  let (c, ctr0) = cfg_of lhs in
  let frames = List.filter (fun s -> s <> "") (split_on mid ';') in
  let frames = List.map (fun s -> frame_of_toks (split_ws s)) frames in
  let obs = List.map norm (List.filter (fun s -> s <> "") (split_on rhs ';')) in
  match obs with
  | [] -> Some "no observations"
  | o0 :: orest ->
    let (s0, outs0) = start c ctr0 in
    let (ss0, souts0) = spec_start c ctr0 in
    let m0 = String.concat " " (("0" :: "K" :: out_tokens outs0)) in
    let sp0 = String.concat " " (("0" :: "K" :: out_tokens souts0)) in
    if m0 <> o0 then Some (Printf.sprintf "connect: model=[%s] impl=[%s]" m0 o0)
    else if sp0 <> o0 then Some (Printf.sprintf "connect: spec=[%s] impl=[%s]" sp0 o0)
    else begin
      let steps = run c s0 frames in
      let ssteps = spec_run c ss0 frames in
      let render_m (st : step_obs) =
        let sel = match st.so_eff with Down -> "x" | Keep -> string_of_bool01 st.so_state.selected in
        String.concat " " (sel :: eff_s st.so_eff :: out_tokens st.so_outs) in
      let render_s (st : spec_obs) =
        let sel = match st.sp_eff with Down -> "x" | Keep -> string_of_bool01 st.sp_sel in
        String.concat " " (sel :: eff_s st.sp_eff :: out_tokens st.sp_outs) in
      let ms = List.map render_m steps and sps = List.map render_s ssteps in
      let rec go i ms sps os =
        match ms, sps, os with
        | [], [], [] -> None
        | m :: mr, sp :: spr, o :: orr ->
          if m <> o then Some (Printf.sprintf "frame #%d: model=[%s] impl=[%s]" i m o)
          else if sp <> o then Some (Printf.sprintf "frame #%d: spec=[%s] impl=[%s]" i sp o)
          else go (i + 1) mr spr orr
        | _ ->
          Some (Printf.sprintf "length mismatch at #%d: model has %d steps, spec %d, impl %d (of %d frames)" i
                  (List.length steps) (List.length ssteps) (List.length orest) (List.length frames))
      in
      if List.length frames <> List.length orest then
        Some (Printf.sprintf "harness recorded %d frames but %d observations" (List.length frames) (List.length orest))
      else go 0 ms sps orest
    end


(* pipelined bursts: B <cfg> <ctr0> | f ; f / f / ... | o0 ; o1 ; ...   (one observation per burst) *)
let check_b lhs mid rhs =
  let (c, ctr0) = cfg_of lhs in
  let bursts = List.filter (fun s -> s <> "") (split_on mid '/') in
  let bursts = List.map (fun b ->
      List.map (fun s -> frame_of_toks (split_ws s)) (List.filter (fun s -> s <> "") (split_on b ';'))) bursts in
  let obs = List.map norm (List.filter (fun s -> s <> "") (split_on rhs ';')) in
  match obs with
  | [] -> Some "no observations"
  | o0 :: orest ->
    let (s0, outs0) = start c ctr0 in
    let (ss0, _) = spec_start c ctr0 in
    let m0 = String.concat " " (("0" :: "K" :: out_tokens outs0)) in
    if m0 <> o0 then Some (Printf.sprintf "connect: model=[%s] impl=[%s]" m0 o0)
    else begin
      (* run one burst on the model and on the table; None = the link ended before the burst's last frame *)
      let burst_model s fs =
        let rec go s fs acc =
          match fs with
          | [] -> Some (s, List.rev acc, Keep)
          | f :: r ->
            let ((s', o), e) = respond c s f in
            (match e, r with
             | Down, [] -> Some (s', List.rev (List.rev_append o acc), Down)
             | Down, _ -> None
             | Keep, _ -> go s' r (List.rev_append o acc))
        in go s fs [] in
      let burst_spec s fs =
        let rec go s fs acc =
          match fs with
          | [] -> Some (s, List.rev acc, Keep)
          | f :: r ->
            let ((s', o), e) = spec_step c s f in
            (match e, r with
             | Down, [] -> Some (s', List.rev (List.rev_append o acc), Down)
             | Down, _ -> None
             | Keep, _ -> go s' r (List.rev_append o acc))
        in go s fs [] in
      let rec loop i s ss bs os =
        match bs, os with
        | [], [] -> None
        | b :: br, o :: orr ->
          (match burst_model s b, burst_spec ss b with
           | Some (s', mo, me), Some (ss', so, se) ->
             let sel e b = match e with Down -> "x" | Keep -> string_of_bool01 b in
             let m = String.concat " " (sel me s'.selected :: eff_s me :: out_tokens mo) in
             let sp = String.concat " " (sel se ss'.s_sel :: eff_s se :: out_tokens so) in
             if m <> o then Some (Printf.sprintf "burst #%d: model=[%s] impl=[%s]" i m o)
             else if sp <> o then Some (Printf.sprintf "burst #%d: spec=[%s] impl=[%s]" i sp o)
             else (match me with
                 | Down -> if br = [] then None else Some (Printf.sprintf "burst #%d: the model ended the link but the harness went on" i)
                 | Keep -> loop (i + 1) s' ss' br orr)
           | _ -> Some (Printf.sprintf "burst #%d: the model ends the link inside the burst" i))
        | _ -> Some (Printf.sprintf "burst/observation length mismatch at #%d" i)
      in
      loop 0 s0 ss0 bursts orest
    end

let pout_tokens (ps : pout list) : string =
  let outs = List.filter_map (function POut (_, o) -> Some o | _ -> None) ps in
  let toks =
    List.filter_map (function PAdopted k -> Some ("a" ^ z_to_string k) | PRefused k -> Some ("r" ^ z_to_string k) | _ -> None) ps
    @ out_tokens outs
    @ List.filter_map (function PDown _ -> Some "d" | _ -> None) ps in
  if toks = [] then "-" else String.concat " " toks

let check_p lhs mid rhs =
  let (c, ctr0) = cfg_of lhs in
  let evs = List.filter (fun s -> s <> "") (split_on mid ';') in
  let evs = List.map (fun s ->
      match split_ws s with
      | ["A"; k] -> PAccept (z_of_string k)
      | "F" :: k :: fr -> PFrame (z_of_string k, frame_of_toks fr)
      | _ -> failwith "bad event") evs in
  let obs = List.map norm (List.filter (fun s -> s <> "") (split_on rhs ';')) in
  let rec go i p evs obs =
    match evs, obs with
    | [], [] -> None
    | e :: er, o :: orr ->
      let (p', outs) = pstep c p e in
      let m = pout_tokens outs in
      if m <> o then Some (Printf.sprintf "event #%d: model=[%s] impl=[%s]" i m o) else go (i + 1) p' er orr
    | _ -> Some "event/observation length mismatch"
  in
  go 0 (pstart ctr0) evs obs

let check _ln line =
  let (lhs, mid, rhs) = three line in
  match split_ws lhs with
  | "Q" :: rest -> check_q rest mid rhs
  | "P" :: rest -> check_p rest mid rhs
  | "B" :: rest -> check_b rest mid rhs
  | "V" :: [b] ->
    (* validity set: generated IsValidSType = model valid_stype = what the code answered *)
    let b = z_of_string b in
    let g = string_of_bool01 (Coq_hsms.coq_IsValidSType b) and m = string_of_bool01 (valid_stype b) in
    let o = norm rhs in
    if g <> o then Some (Printf.sprintf "IsValidSType generated=[%s] impl=[%s]" g o)
    else if m <> o then Some (Printf.sprintf "valid_stype model=[%s] impl=[%s]" m o) else None
  | _ -> Some "unparsable case line"

let () = run_cases Sys.argv.(1) check
