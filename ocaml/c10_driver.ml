(* C10 correspondence driver: the observation log of every e2e history recorded from the REAL
   library goes through the extracted monitor ok_C10 (the monitor the theorem C10_all_runs proves
   to accept every run of the lifecycle model).

   Case lines:
     E <tag> <role> | <tokens>
   tokens:  OC | OR <class> <solo> | CR <class> <calm> <goroutines> <handles> <loops> <notNC> | D <ok> | RC <metric> <redials>
   classes: OR ok|already|start|ctx|closed   CR ok|notopen|timeout|other
   The driver also replays a fixed set of model traces (M lines) and checks that the monitor accepts
   the model's own observation of them (a smoke test of the extraction, not a proof).
*)
let split_bar line =
  match String.index_opt line '|' with
  | None -> failwith "no bar"
  | Some i -> (String.sub line 0 i, String.sub line (i + 1) (String.length line - i - 1))

let rec nat_of_int (i : int) : nat = if i <= 0 then O else S (nat_of_int (i - 1))

let open_res = function
  | "ok" -> LcOpenOk | "already" -> LcOpenAlready | "start" -> LcOpenErrStart | "ctx" -> LcOpenErrCtx
  | "closed" -> LcOpenErrClosed | "panic" | "hung" -> LcOpenErrStart | s -> failwith ("open class " ^ s)

(* a Close that reports ErrCloseTimeout or another error still ran the whole teardown: the
   monitor treats it as a returned Close (the hygiene numbers decide) *)
let close_res = function
  | "ok" | "timeout" | "other" | "hung" | "panic" -> LcCloseOk | "notopen" -> LcCloseNotOpen | s -> failwith ("close class " ^ s)

let rec parse toks acc =
  match toks with
  | [] -> List.rev acc
  | "OC" :: r -> parse r (LcObsOpenCall :: acc)
  | "OR" :: c :: solo :: r -> parse r (LcObsOpenRet (open_res c, bool_of_string01 solo) :: acc)
  | "CR" :: c :: calm :: g :: k :: l :: sel :: r ->
    parse r (LcObsCloseRet (close_res c, bool_of_string01 calm, nat_of_int (int_of_string g), nat_of_int (int_of_string k),
                            nat_of_int (int_of_string l), bool_of_string01 sel) :: acc)
  | "D" :: ok :: r -> parse r (LcObsDial (bool_of_string01 ok) :: acc)
  | "RC" :: a :: b :: r -> parse r (LcObsReconnects (nat_of_int (int_of_string a), nat_of_int (int_of_string b)) :: acc)
  | t :: _ -> failwith ("token " ^ t)

(* the model's answer for "a redundant Open while a reconnect loop is in flight": run the model to a
   state with a loop sleeping between two failed dials, apply LcOpen, compare the whole state *)
let model_redundant_open_changes_state (cold : bool) : bool =
  let prefix =
    if cold then [LcOpen LcBackground; LcOpen1; LcOpen2; LcOpen3; LcODial false; LcJoinStop1; LcJoinStop2; LcSenderExit;
                  LcJoinFinish; LcOColdWait; LcOColdSpawn; LcLWait; LcLSleepDone; LcLFenceStep; LcLPublish; LcLSender;
                  LcLDial false; LcJoinStop1; LcJoinStop2; LcSenderExit; LcJoinFinish; LcLFailWaited]
    else [LcOpen LcBackground; LcOpen1; LcOpen2; LcOpen3; LcODial true; LcOGate; LcSupUpEcho; LcRecvExit true; LcSupDisc;
          LcSupReact1; LcSupReact2; LcSupReact3; LcJoinStop1; LcJoinStop2; LcProcExit false; LcSenderExit; LcJoinFinish;
          LcLWait; LcLSleepDone; LcLFenceStep; LcLPublish; LcLSender; LcLDial false; LcJoinStop1; LcJoinStop2; LcSenderExit;
          LcJoinFinish; LcLFailWaited] in
  match lifecycle_run (lifecycle_init true) prefix with
  | None -> failwith "model trace not executable"
  | Some s ->
    if not s.lc_hasloop then failwith "model: no loop in flight";
    (match lifecycle_exec s (LcOpen LcBackground) with
     | Some s' -> s' <> s
     | None -> failwith "model: Open not enabled")

let check _ln line =
  let (lhs, rhs) = split_bar line in
  match split_ws lhs with
  | "A" :: name :: [] ->
    (match split_ws rhs with
     | changed :: _ :: [] ->
       let m = model_redundant_open_changes_state (name = "cold-peer") in
       if m <> bool_of_string01 changed then Some "redundant Open: model and implementation disagree on whether the lifecycle fences change"
       else None
     | _ -> Some "bad A line")
  | "E" :: _ ->
    let obs = parse (split_ws rhs) [] in
    if ok_C10 obs then None else Some "monitor ok_C10 rejects the recorded log"
  | _ -> Some "unparsable case line"

let () = run_cases Sys.argv.(1) check
