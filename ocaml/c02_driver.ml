(* C02 correspondence driver: evaluates the extracted Coq model of secs2.Decode (Secs2/Decode.v),
   its instrumented twin (DecodeChk.v) and the allocation accounting (DecodeCost.v) on the byte
   strings the Go harness fed to the real decoder, and compares.

   Case line:  D <hex> | <ok|err> <consumed> <alloc> | <decoded tree> *)

let int_of_width = function W1 -> 1 | W2 -> 2 | W4 -> 4 | W8 -> 8

let quiet32 (u : int) : int =
  if u land 0x7f800000 = 0x7f800000 && u land 0x007fffff <> 0 then u lor 0x00400000 else u

let hextab = Array.init 256 (fun i -> Printf.sprintf "%02x" i)

let rec show (b : Buffer.t) (x : item) : unit =
  if Buffer.length b > 0 then Buffer.add_char b ' ';
  let join f l = List.iteri (fun i v -> if i > 0 then Buffer.add_char b ','; Buffer.add_string b (f v)) l in
  let hex l = List.iter (fun v -> Buffer.add_string b hextab.(int_of_z v)) l in
  match x with
  | IEmpty -> Buffer.add_string b "E"
  | IList cs -> Buffer.add_string b (Printf.sprintf "L%d" (List.length cs)); List.iter (show b) cs
  | IBinary l -> Buffer.add_string b "B:"; hex l
  | IAscii l -> Buffer.add_string b "A:"; hex l
  | IJis8 l -> Buffer.add_string b "J:"; hex l
  | ILocalized (h, l) -> Buffer.add_string b (Printf.sprintf "W%d:" (int_of_z h)); hex l
  | IBoolean l -> Buffer.add_string b "O:"; List.iter (fun v -> Buffer.add_char b (if v then '1' else '0')) l
  | IInt (w, l) -> Buffer.add_string b (Printf.sprintf "I%d:" (int_of_width w)); join z_to_string l
  | IUint (w, l) -> Buffer.add_string b (Printf.sprintf "U%d:" (int_of_width w)); join z_to_string l
  | IFloat (W4, l) -> Buffer.add_string b "F4:"; join (fun v -> string_of_int (quiet32 (int_of_z v))) l
  | IFloat (w, l) -> Buffer.add_string b (Printf.sprintf "F%d:" (int_of_width w)); join z_to_string l

let show_string x = let b = Buffer.create 256 in show b x; Buffer.contents b

let digest (s : string) : string =
  if String.length s <= 4096 then s
  else Printf.sprintf "H%s:%d" (Digest.to_hex (Digest.string s)) (String.length s)

let split_bars (line : string) : string list = List.map String.trim (String.split_on_char '|' line)

let derr_name = function
  | ErrEndFormat -> "end-format" | ErrZeroLen -> "zero-len" | ErrEndLength -> "end-length"
  | ErrDepth -> "depth" | ErrListCount -> "list-count" | ErrEndPayload -> "end-payload"
  | ErrMultiple -> "multiple" | ErrLocShort -> "loc-short" | ErrUnknownFc -> "unknown-fc"
  | ErrFuel -> "FUEL"

let classes : (string, int) Hashtbl.t = Hashtbl.create 16
let bump k = Hashtbl.replace classes k (1 + (try Hashtbl.find classes k with Not_found -> 0))

let max_alloc_ratio = ref 0.0

let check _ln line =
  match split_bars line with
  | [lhs; mid; obs_tree] ->
    (match split_ws lhs, split_ws mid with
     | ["D"; hex], [status; consumed_s; alloc_s] ->
       let bs = zbytes_of_hex hex in
       let len = List.length bs in
       let (m_status, m_consumed, m_tree) =
         match decode bs with
         | Ok (y, rest) -> bump "ok"; ("ok", len - List.length rest, digest (show_string y))
         | Err e -> bump ("err/" ^ derr_name e); ((if e = ErrFuel then "FUEL" else "err"), 0, "-") in
       (* the instrumented twin must agree with the model and never panic *)
       let twin =
         if len > 1200 then None else
         match chk_decode bs, decode bs with
         | OPanic, _ -> Some "instrumented twin: Panic"
         | OOk (y, pos), Ok (y', rest) ->
           if int_of_z pos = len - List.length rest && show_string y = show_string y' then None
           else Some "instrumented twin differs from model (ok)"
         | OErr e, Err e' -> if e = e' then None else Some "instrumented twin differs from model (error class)"
         | _, _ -> Some "instrumented twin differs from model" in
       let cost = int_of_z (decode_cost bs) in
       let bound = int_of_z cost_factor * len + int_of_z cost_offset in
       let alloc = int_of_string alloc_s in
       if cost > 0 then max_alloc_ratio := max !max_alloc_ratio (float_of_int alloc /. float_of_int cost);
       if m_status <> status then Some (Printf.sprintf "status: model=%s impl=%s" m_status status)
       else if string_of_int m_consumed <> consumed_s then Some (Printf.sprintf "consumed: model=%d impl=%s" m_consumed consumed_s)
       else if m_tree <> obs_tree then Some (Printf.sprintf "decoded tree: model=%s impl=%s" m_tree obs_tree)
       else if twin <> None then twin
       else if cost > bound then Some (Printf.sprintf "model cost %d exceeds the proved bound %d" cost bound)
       else if len > 0 && alloc > cost * 5 / 4 + 1024 then
         Some (Printf.sprintf "allocation: impl=%d bytes, model accounting=%d (len %d)" alloc cost len)
       else None
     | _ -> Some "unparsable case line")
  | _ -> Some "unparsable case line (bars)"

let trunc (s : string) : string = if String.length s > 400 then String.sub s 0 400 ^ "..." else s

let () =
  run_cases Sys.argv.(1) (fun ln line -> match check ln line with None -> None | Some m -> Some (trunc m));
  Hashtbl.iter (fun k v -> Printf.printf "MODEL-CLASS %s %d\n" k v) classes;
  Printf.printf "MAX-ALLOC/MODEL-COST %.3f\n" !max_alloc_ratio
