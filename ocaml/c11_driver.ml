(* C11 correspondence driver: evaluates the extracted Coq model on the inputs the Go harness ran
   through the real code and compares with what the code did.

   Case lines (multipliers travel as the decimal value of the float64's 64-bit pattern, never as text):
     B <cur> <multbits> <ceil> | <next>                 one call of nextBackoffDelay
     Q <init> <multbits> <t5> <n> | <sleep_0> ... <sleep_n-1>   the sleeps of connectLoop's arithmetic
     G <init> <multbits> <t5> <n> | {<j> <gap_ns> <upper>}*n    e2e: observed gap before a dial that the loop
                                                          preceded by its j-th sleep: gap >= model sleep_j (exact),
                                                          and, when <upper>=1, gap <= sleep_j + 2.5 s
     E <tag> <role> | <tokens>                           e2e observation log -> extracted monitor ok_C11
*)
let rec nth_z (l : z list) (i : int) : z = match l with [] -> failwith "nth" | x :: r -> if i = 0 then x else nth_z r (i - 1)

let open_res = function
  | "ok" -> LcOpenOk | "already" -> LcOpenAlready | "start" -> LcOpenErrStart | "ctx" -> LcOpenErrCtx
  | "closed" -> LcOpenErrClosed | "panic" | "hung" -> LcOpenErrStart | s -> failwith ("open class " ^ s)
let close_res = function
  | "ok" | "timeout" | "other" | "hung" | "panic" -> LcCloseOk | "notopen" -> LcCloseNotOpen | s -> failwith ("close class " ^ s)
let rec nat_of_int' (i : int) : nat = if i <= 0 then O else S (nat_of_int' (i - 1))
let rec parse_obs toks acc =
  match toks with
  | [] -> List.rev acc
  | "OC" :: r -> parse_obs r (LcObsOpenCall :: acc)
  | "OR" :: c :: solo :: r -> parse_obs r (LcObsOpenRet (open_res c, bool_of_string01 solo) :: acc)
  | "CR" :: c :: calm :: g :: k :: l :: sel :: r ->
    parse_obs r (LcObsCloseRet (close_res c, bool_of_string01 calm, nat_of_int' (int_of_string g), nat_of_int' (int_of_string k),
                                nat_of_int' (int_of_string l), bool_of_string01 sel) :: acc)
  | "D" :: ok :: r -> parse_obs r (LcObsDial (bool_of_string01 ok) :: acc)
  | "RC" :: a :: b :: r -> parse_obs r (LcObsReconnects (nat_of_int' (int_of_string a), nat_of_int' (int_of_string b)) :: acc)
  | t :: _ -> failwith ("token " ^ t)

let split_bar line =
  match String.index_opt line '|' with
  | None -> failwith "no bar"
  | Some i -> (String.sub line 0 i, String.sub line (i + 1) (String.length line - i - 1))

let rec nat_of_int (i : int) : nat = if i <= 0 then O else S (nat_of_int (i - 1))

let check _ln line =
  let (lhs, rhs) = split_bar line in
  let l = split_ws lhs and r = split_ws rhs in
  match l with
  | "B" :: cur :: bits :: ceil :: [] ->
    let m = z_to_string (backoff_next_delay_bits (z_of_string cur) (z_of_string bits) (z_of_string ceil)) in
    let obs = String.concat " " r in
    if m <> obs then Some (Printf.sprintf "next_delay model=[%s] impl=[%s]" m obs) else None
  | "Q" :: init :: bits :: t5 :: n :: [] ->
    let ss = backoff_sleeps_from (z_of_string init) (backoff_f64_of_bits (z_of_string bits)) (z_of_string t5)
        (nat_of_int (int_of_string n)) in
    let m = String.concat " " (List.map z_to_string ss) in
    let obs = String.concat " " r in
    if m <> obs then Some (Printf.sprintf "sleeps model=[%s] impl=[%s]" m obs) else None
  | "G" :: init :: bits :: t5 :: n :: [] ->
    let ss = backoff_sleeps_from (z_of_string init) (backoff_f64_of_bits (z_of_string bits)) (z_of_string t5) (nat_of_int 64) in
    let slack = z_of_string "2500000000" in
    let rec go toks =
      match toks with
      | [] -> None
      | j :: gap :: up :: rest ->
        let want = nth_z ss (int_of_string j) and g = z_of_string gap in
        if Z.ltb g want then Some (Printf.sprintf "dial gap %s ns shorter than model sleep_%s = %s ns" gap j (z_to_string want))
        else if up = "1" && Z.ltb (Z.add want slack) g then Some (Printf.sprintf "dial gap %s ns longer than model sleep_%s + slack" gap j)
        else if Z.ltb (z_of_string t5) want then Some "model sleep exceeds T5"
        else go rest
      | _ -> Some "bad G line"
    in
    ignore n; go r
  | "E" :: _ ->
    let obs = parse_obs r [] in
    if ok_C11 obs then None else Some "monitor ok_C11 rejects the recorded log"
  | _ -> Some "unparsable case line"

let () = run_cases Sys.argv.(1) check
