(* C11 correspondence driver: evaluates the extracted Coq model on the inputs the Go harness ran
   through the real code and compares with what the code did.

   Case lines (multipliers travel as the decimal value of the float64's 64-bit pattern, never as text):
     B <cur> <multbits> <ceil> | <next>                 one call of nextBackoffDelay
     Q <init> <multbits> <t5> <n> | <sleep_0> ... <sleep_n-1>   the sleeps of connectLoop's arithmetic
*)
let split_bar line =
  match String.index_opt line '|' with
  | None -> failwith "no bar"
  | Some i -> (String.sub line 0 i, String.sub line (i + 1) (String.length line - i - 1))

let rec nat_of_int (i : int) : nat = if i <= 0 then O else S (nat_of_int (i - 1))

let check _ln line =
  let (lhs, rhs) = split_bar line in
  let l = split_ws lhs and r = split_ws rhs in
  match l with
  | "B" :: cur :: bits :: ceil :: [] ->
    let m = z_to_string (backoff_next_delay_bits (z_of_string cur) (z_of_string bits) (z_of_string ceil)) in
    let obs = String.concat " " r in
    if m <> obs then Some (Printf.sprintf "next_delay model=[%s] impl=[%s]" m obs) else None
  | "Q" :: init :: bits :: t5 :: n :: [] ->
    let ss = backoff_sleeps_from (z_of_string init) (backoff_f64_of_bits (z_of_string bits)) (z_of_string t5)
        (nat_of_int (int_of_string n)) in
    let m = String.concat " " (List.map z_to_string ss) in
    let obs = String.concat " " r in
    if m <> obs then Some (Printf.sprintf "sleeps model=[%s] impl=[%s]" m obs) else None
  | _ -> Some "unparsable case line"

let () = run_cases Sys.argv.(1) check
