(* C15 correspondence driver: evaluates the extracted Coq models of Item.ToSML (secs2) and of the
   sml encoder with default options on the item tree the Go harness built, and compares BOTH with
   the text the real code produced.

   Case lines:
     T <item> | <hex ToSML()> <hex sml.Encode()>
     N I|U <w> <v>          | <ok> <value parsed by strconv.ParseInt/ParseUint(text,0,8w) from FormatInt/FormatUint text>
   Item syntax (prefix, space separated):
     E | L n item*n | A hex | J hex | W hex hexquoted | B hex | T 01-string | I w n v*n | U w n v*n
     | F w n (bits/hextext)*n
   Float text and %q text are Go's (strconv): they instantiate the model's oracles by table. *)

let split_bar line =
  match String.index_opt line '|' with
  | None -> failwith "no bar"
  | Some i -> (String.sub line 0 i, String.sub line (i + 1) (String.length line - i - 1))

let ftab : (int * string, z list) Hashtbl.t = Hashtbl.create 64
let qtab : (string, z list) Hashtbl.t = Hashtbl.create 16

let width_of = function "1" -> W1 | "2" -> W2 | "4" -> W4 | "8" -> W8 | s -> failwith ("width " ^ s)
let fwidth_of = function "4" -> F4 | "8" -> F8 | s -> failwith ("fwidth " ^ s)

let rec take_n n f toks acc =
  if n = 0 then (List.rev acc, toks) else
    let (x, rest) = f toks in take_n (n - 1) f rest (x :: acc)

let rec parse_item toks =
  match toks with
  | "E" :: r -> (IEmpty, r)
  | "L" :: n :: r -> let (cs, r') = take_n (int_of_string n) parse_item r [] in (IList cs, r')
  | "A" :: h :: r -> (IAscii (zbytes_of_hex h), r)
  | "J" :: h :: r -> (IJis8 (zbytes_of_hex h), r)
  | "W" :: h :: q :: r -> Hashtbl.replace qtab h (zbytes_of_hex q); (ILocal (zbytes_of_hex h), r)
  | "B" :: h :: r -> (IBinary (zbytes_of_hex h), r)
  | "T" :: s :: r ->
    let l = if s = "-" then [] else List.init (String.length s) (fun i -> s.[i] = '1') in (IBoolean l, r)
  | "I" :: w :: n :: r ->
    let (vs, r') = take_n (int_of_string n) (function v :: t -> (z_of_string v, t) | [] -> failwith "I") r [] in
    (IInt (width_of w, vs), r')
  | "U" :: w :: n :: r ->
    let (vs, r') = take_n (int_of_string n) (function v :: t -> (z_of_string v, t) | [] -> failwith "U") r [] in
    (IUint (width_of w, vs), r')
  | "F" :: w :: n :: r ->
    let one = function
      | v :: t ->
        (match String.index_opt v '/' with
         | Some i ->
           let bits = String.sub v 0 i and txt = String.sub v (i + 1) (String.length v - i - 1) in
           Hashtbl.replace ftab (int_of_string w, bits) (zbytes_of_hex txt);
           (z_of_string bits, t)
         | None -> failwith "F elem")
      | [] -> failwith "F" in
    let (vs, r') = take_n (int_of_string n) one r [] in
    (IFloat (fwidth_of w, vs), r')
  | t :: _ -> failwith ("item token " ^ t)
  | [] -> failwith "item: eof"

let ffmt w bits =
  let k = (match w with F4 -> 4 | F8 -> 8) in
  match Hashtbl.find_opt ftab (k, z_to_string bits) with Some t -> t | None -> failwith "float oracle: no entry"
let quote s =
  match Hashtbl.find_opt qtab (hex_of_zbytes s) with Some t -> t | None -> failwith "quote oracle: no entry"

let check _ln line =
  let (lhs, rhs) = split_bar line in
  let l = split_ws lhs and r = split_ws rhs in
  match l with
  | "T" :: toks ->
    Hashtbl.reset ftab; Hashtbl.reset qtab;
    let (x, rest) = parse_item toks in
    if rest <> [] then Some "trailing tokens" else begin
      let m1 = hex_of_zbytes (to_sml ffmt quote x) and m2 = hex_of_zbytes (encode_default ffmt quote x) in
      match r with
      | [g1; g2] ->
        if m1 <> g1 then Some (Printf.sprintf "ToSML model=%s impl=%s" m1 g1)
        else if m2 <> g2 then Some (Printf.sprintf "Encode model=%s impl=%s" m2 g2)
        else None
      | _ -> Some "bad rhs"
    end
  | ["N"; k; w; v] ->
    let bits = z_of_int (8 * int_of_string w) and v = z_of_string v in
    let res = if k = "I" then parse_int true bits (format_int v) else parse_uint true bits (format_uint v) in
    let model = (match res with NOk x -> "1 " ^ z_to_string x | NSyntax -> "0 syntax" | NRange -> "0 range") in
    let obs = String.concat " " r in
    if model <> obs then Some (Printf.sprintf "readback model=[%s] impl=[%s]" model obs) else None
  | _ -> Some "unparsable case line"

let () = run_cases Sys.argv.(1) check
